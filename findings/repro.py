"""Reproductions of the defects the static rules found (DESIGN.md section 4).

NOT part of any check: the checks decide from source text only.  This file exists so
that a reader can confirm each finding is a genuine defect of the real code:
    /venv/bin/python /verif/findings/repro.py            # all
    /venv/bin/python /verif/findings/repro.py F2 F7      # some
Each function returns True when the DEFECT IS PRESENT.
"""
import sys, multiprocessing


def F1():
    from picosvg.svg_path_iter import parse_svg_path
    try:
        got = list(parse_svg_path("M01 02", exploded=True))
    except ValueError:
        return False  # rejecting is allowed
    return got != [("M", (1.0, 2.0))]


def F2():
    from picosvg.svg_types import SVGPath
    d1 = SVGPath(d="M0,0 Q1,1 2,0 S3,-1 4,0").expand_shorthand().d
    d2 = SVGPath(d="M0,0 C0,1 1,1 2,0 T4,0").expand_shorthand().d
    return "C3,-1 3,-1 4,0" in d1 or "Q3,-1 4,0" in d2


def F3():
    from picosvg.svg import SVG
    s = SVG.fromstring('<svg xmlns="http://www.w3.org/2000/svg" viewBox="0 0 9 9"><rect width="1" height="1"/></svg>')
    return s.resolve_nested_svgs(inplace=True) is not s


def F4():
    from picosvg.svg import SVG
    s = SVG.fromstring('<svg xmlns="http://www.w3.org/2000/svg" viewBox="0 0 9 9"><rect width="1" height="1"/></svg>')
    s.shapes_to_paths(inplace=True)
    c = s.round_floats(2)
    p = s.remove_processing_instructions()
    return "<rect" in c.tostring() or "<rect" in p.tostring()


def F5():
    from picosvg.svg import SVG
    src = ('<svg xmlns="http://www.w3.org/2000/svg" viewBox="0 0 9 9"><defs>'
           '<linearGradient id="g"><stop offset="0" stop-color="red"/></linearGradient></defs>'
           '<path d="M0,0 L5,5" fill="url(#g)"/>'
           '<g opacity="0.5"><path d="M0,0 L5,5 L5,0 Z"/><path d="M1,1 L2,2"/></g></svg>')
    one = SVG.fromstring(src).topicosvg().tostring()
    two = SVG.fromstring(one).topicosvg().tostring()
    return one != two


def _f6_child(q):
    from picosvg.svg import SVG
    src = ('<svg xmlns="http://www.w3.org/2000/svg" xmlns:xlink="http://www.w3.org/1999/xlink" viewBox="0 0 9 9">'
           '<g id="a"><use xlink:href="#b"/></g><g id="b"><use xlink:href="#c"/></g><g id="c"><use xlink:href="#a"/></g></svg>')
    try:
        SVG.fromstring(src).topicosvg()
        q.put("returned")
    except Exception as e:  # any exception is allowed by C17
        q.put("raised " + type(e).__name__)


def F6():
    q = multiprocessing.Queue()
    p = multiprocessing.Process(target=_f6_child, args=(q,))
    p.start()
    p.join(15)
    if p.is_alive():
        p.kill()
        return True
    return False


def F7():
    from picosvg.arc_to_cubic import arc_to_cubic
    pos = list(arc_to_cubic((0, 0), 2, 1, 0, 0, 1, (2, 1)))
    neg = list(arc_to_cubic((0, 0), -2, 1, 0, 0, 1, (2, 1)))
    return any(abs(a.x - b.x) + abs(a.y - b.y) > 1e-9 for s, t in zip(pos, neg) for a, b in zip(s, t))


def F8():
    from picosvg.svg_types import SVGPath
    return SVGPath(d="M0,0 L5,5", stroke="red").remove_empty_subpaths().d == ""


def F9():
    from picosvg.svg_types import SVGPath
    from picosvg.svg_reuse import affine_between
    a = SVGPath(d="M0,0 l0,1 a1,1 0 0 1 2,0 z")
    b = SVGPath(d="M0,0 l0,-1 a1,1 0 0 1 2,0 z")
    t = affine_between(a, b, 0.01)
    return t is not None  # mirrored arc bulges the other way: no affine maps a onto b with same flags


def F10():
    from picosvg.svg import SVG
    body = '<path d="M0,0 H8 V8 H0 Z M2,2 H6 V6 H2 Z"/></clipPath></defs><rect width="8" height="8" clip-path="url(#c)"/></svg>'
    head = '<svg xmlns="http://www.w3.org/2000/svg" viewBox="0 0 9 9"><defs><clipPath id="c"%s>'
    on_clip = SVG.fromstring((head % ' clip-rule="evenodd"') + body).topicosvg().tostring()
    plain = SVG.fromstring((head % '') + body).topicosvg().tostring()
    return on_clip == plain  # evenodd leaves a hole, nonzero (same-direction) does not


def F11():
    from picosvg.svg import SVG
    src = '<svg xmlns="http://www.w3.org/2000/svg" viewBox="0 0 9 9"><rect width="1" height="1"/></svg>'
    s = SVG.fromstring(src)
    s.shapes_to_paths(inplace=True)
    tags = [c.element.tag.split("}")[1] for c in s.depth_first()]
    return "rect" in tags  # traversal sees the stale tree


def F9b():
    from picosvg.svg_types import SVGPath
    from picosvg.svg_reuse import affine_between
    a = SVGPath(d="M0,0 l3,0 a2,1 0 0 1 1,2 l-4,1 z")
    b = SVGPath(d="M0,0 l0,3 a2,1 0 0 1 -2,1 l-1,-4 z")  # coordinates rotated by 90 degrees, ellipse axes NOT rotated
    t = affine_between(a, b, 0.01)
    if t is None:
        return False
    img = a.apply_transform(t).d
    ref = b.arcs_to_cubics().absolute().d
    return img[:60] != ref[:60]


def F12():
    # an <svg> nested in a nested <svg>: both generated viewport clips got the id nested-svg-viewport-0
    from picosvg.svg import SVG
    src = ('<svg xmlns="http://www.w3.org/2000/svg" viewBox="0 0 100 100"><svg x="10" y="20" width="50" height="40" viewBox="0 0 200 100">'
           '<path d="M1,1 L50,50 L1,50 z"/><svg viewBox="0 0 20 10"><path d="M2,2 L8,8 L2,8 z"/></svg></svg></svg>')
    out = SVG.fromstring(src).resolve_nested_svgs().tostring()
    import re
    ids = re.findall(r'clipPath id="([^"]+)"', out)
    return len(ids) != len(set(ids))


def F13():
    # presentation attributes of a nested <svg> are dropped instead of being inherited by its content
    from picosvg.svg import SVG
    src = ('<svg xmlns="http://www.w3.org/2000/svg" viewBox="0 0 100 100"><svg width="100" height="100" fill="red" opacity="0.5">'
           '<path d="M4,4 L40,40 L4,40 z"/></svg></svg>')
    out = SVG.fromstring(src).topicosvg().tostring()
    return 'fill="red"' not in out or "opacity" not in out


def F14():
    # opacity on the root svg is dropped
    from picosvg.svg import SVG
    src = ('<svg xmlns="http://www.w3.org/2000/svg" viewBox="0 0 100 100" opacity="0.5"><path d="M4,4 L40,40 L4,40 z"/>'
           '<path d="M14,4 L40,40 L4,40 z"/></svg>')
    return "opacity" not in SVG.fromstring(src).topicosvg().tostring()


def F15():
    # parsed shapes + apply_style_attributes: inherited style declarations become attributes of the shape
    from picosvg.svg import SVG
    src = '<svg xmlns="http://www.w3.org/2000/svg" viewBox="0 0 10 10"><g style="stroke-width:3"><path d="M1,1 h2 v2 z"/></g></svg>'
    a = SVG.fromstring(src)
    a.shapes()
    a.apply_style_attributes(inplace=True)
    b = SVG.fromstring(src)
    b.apply_style_attributes(inplace=True)
    return a.tostring() != b.tostring()


def F16():
    # a gradient whose only user is a shape that merely sits in <defs>: left unreferenced, a second pass removes it
    from picosvg.svg import SVG
    src = ('<svg xmlns="http://www.w3.org/2000/svg" viewBox="0 0 10 10"><defs><linearGradient id="g"><stop offset="0" stop-color="red"/></linearGradient>'
           '<path id="p" d="M0,0 L5,0 L5,5 Z" fill="url(#g)"/></defs><path d="M1,1 L4,1 L4,4 Z"/></svg>')
    out = SVG.fromstring(src).topicosvg().tostring()
    return "linearGradient" in out


if __name__ == "__main__":
    names = sys.argv[1:] or [f"F{i}" for i in range(1, 17)] + ["F9b"]
    for n in names:
        try:
            r = globals()[n]()
        except Exception as e:
            r = f"error {type(e).__name__}: {e}"
        print(n, "DEFECT-PRESENT" if r is True else ("absent" if r is False else r))

"""E5: case-split partial evaluator (abstract interpreter over the syntax tree).

Interprets function bodies of the repository *symbolically*: numbers are rational functions
over named symbols (sa.poly.RF), strings/bools/ints from finite alphabets are concrete,
NamedTuple/dataclass instances are records.  A branch on a condition that cannot be decided
from the symbols forks: the driver (`explore`) re-runs the function once per decision vector
and returns every path with the list of (condition, taken) pairs.  Nothing is executed -
the interpreter walks `ast` nodes of source text loaded by sa.core.Repo; calls into lxml,
pathops or anything outside the whitelisted builtins yield `Unknown` (and a rule that
needs their value reports "undecided" rather than guessing).
"""
from __future__ import annotations

import ast
from dataclasses import dataclass, field
from fractions import Fraction
from typing import Any, Callable, Dict, List, Optional, Tuple

from sa.core import AnalysisError, Module, Repo, unparse
from sa.poly import RF, fn_atom


class Undecided(Exception):
    """The evaluator met something it cannot interpret soundly."""


class NeedDecision(Exception):
    def __init__(self, cond):
        self.cond = cond


class PyRaise(Exception):
    args_known = None

    def __init__(self, exc_type: str, node=None, msg=""):
        self.exc_type = exc_type
        self.node = node
        self.msg = msg


_EXC_PARENTS = {"KeyError": "LookupError", "IndexError": "LookupError", "LookupError": "Exception", "ZeroDivisionError": "ArithmeticError",
                "OverflowError": "ArithmeticError", "ArithmeticError": "Exception", "FileNotFoundError": "OSError", "OSError": "Exception",
                "UnicodeDecodeError": "ValueError", "UnicodeEncodeError": "ValueError", "RecursionError": "RuntimeError", "NotImplementedError": "RuntimeError",
                "StopIteration": "Exception", "ImportError": "Exception", "ModuleNotFoundError": "ImportError", "Exception": "BaseException"}


def _exc_covers(handler: str, raised: str) -> bool:
    """Does `except handler` catch an exception of type `raised`?  Unknown (library / repository) exception types derive from Exception."""
    seen = 0
    cur = raised
    while cur is not None and seen < 10:
        if cur == handler:
            return True
        cur = _EXC_PARENTS.get(cur, "Exception" if cur not in ("BaseException", "KeyboardInterrupt", "SystemExit", "GeneratorExit") and cur != "Exception" else ("BaseException" if cur == "Exception" else None))
        seen += 1
    return False


class _Return(Exception):
    def __init__(self, v):
        self.v = v


class _Break(Exception):
    pass


class _Continue(Exception):
    pass


@dataclass(frozen=True)
class Unknown:
    why: str = ""

    def __repr__(self):
        return f"Unknown({self.why})"


@dataclass
class Cond:
    """A symbolic boolean."""
    op: str
    args: tuple

    def __repr__(self):
        if self.op in ("not",):
            return f"not ({self.args[0]!r})"
        if self.op in ("and", "or"):
            return f" {self.op} ".join(f"({a!r})" for a in self.args)
        if len(self.args) == 2:
            return f"{self.args[0]!r} {self.op} {self.args[1]!r}"
        return f"{self.op}{self.args!r}"

    def key(self):
        return repr(self)


@dataclass(frozen=True)
class SymStr:
    """A string whose characters depend on symbolic values (str(n), an f-string over symbols...)."""
    text: str

    def __repr__(self):
        return self.text


class KeysView(list):
    """dict.keys(): a list (insertion order) that also supports the set operators."""


def _is_memoised(fnode) -> bool:
    cached = getattr(fnode, "_memoised", None)
    if cached is None:
        names = []
        for d in getattr(fnode, "decorator_list", []):
            t = d.func if isinstance(d, ast.Call) else d
            names.append(t.attr if isinstance(t, ast.Attribute) else getattr(t, "id", ""))
        cached = any(n in ("lru_cache", "cache") for n in names)
        try:
            fnode._memoised = cached
        except AttributeError:
            pass
    return cached


def _memo_key(a):
    if isinstance(a, (int, str, bool, float, Fraction, bytes)) or a is None:
        return a
    if isinstance(a, tuple):
        return tuple(_memo_key(x) for x in a)
    if isinstance(a, RF):
        return ("rf", repr(a))
    return ("obj", id(a))


def _re_fold(attr, a, k=None):
    """Constant folding of a pure regular-expression function on literal arguments."""
    import re as _re_mod
    if all(isinstance(x, (str, int)) for x in a) and not k:
        r = getattr(_re_mod, attr)(*a)
        if attr in ("match", "fullmatch", "search"):
            return None if r is None else ConstMatch(r)
        if attr == "finditer":
            return [ConstMatch(m) for m in r]
        return r
    raise Undecided(f"re.{attr} on symbolic text")


class LazyGen:
    """A generator expression: elements are evaluated when (and only as far as) they are consumed."""

    def __init__(self, gen):
        self.gen = gen

    def pull(self):
        return self.gen


class IterObj:
    """iter(x): a position in a materialised sequence."""

    def __init__(self, items):
        self.items, self.pos = list(items), 0


class Rec:
    """Instance of a repo class (NamedTuple or dataclass or plain)."""

    def __init__(self, cls: "ClassRef", fields: Dict[str, Any], mutable=False):
        self.cls = cls
        self.f = dict(fields)
        self.mutable = mutable

    def astuple(self):
        return tuple(self.f.values())

    def __repr__(self):
        return f"{self.cls.name}(" + ", ".join(f"{k}={v!r}" for k, v in self.f.items()) + ")"


@dataclass(frozen=True)
class ClassRef:
    module: str
    name: str

    def __repr__(self):
        return f"<class {self.module}.{self.name}>"


class Closure:
    def __init__(self, mod: Module, node, env: Optional[dict], name=""):
        self.mod = mod
        self.node = node
        self.env = env
        self.name = name or getattr(node, "name", "<lambda>")

    def __repr__(self):
        return f"<fn {self.mod.name}.{self.name}>"


def _with_defaults(clo: "Closure", pos, kwonly):
    clo.default_values = list(pos)
    clo.kw_default_values = list(kwonly)
    return clo


class Bound:
    def __init__(self, selfv, fn: Closure):
        self.selfv = selfv
        self.fn = fn


@dataclass(frozen=True)
class Builtin:
    name: str


@dataclass(frozen=True)
class ModRef:
    name: str  # picosvg module or external module name
    external: bool = False


class SymSeq:
    """A sequence of unknown length (e.g. `args` of a callback in a length-agnostic query). Unused for now."""


MATH_FUNCS = {"cos", "sin", "tan", "radians", "sqrt", "hypot", "atan2", "fabs", "ceil", "isfinite", "degrees", "floor", "isclose", "trunc", "copysign", "acos", "asin", "atan", "exp", "log", "isnan", "isinf"}
MATH_CONSTS = {"pi": RF.sym("pi"), "tau": RF.sym("pi") * RF.of(2), "e": RF.sym("math_e")}


def is_num(x):
    return isinstance(x, (int, float, Fraction, RF)) and not isinstance(x, bool)


def to_rf(x) -> RF:
    return RF.of(x)


def simplify_num(x):
    if isinstance(x, RF) and x.is_const():
        v = x.const_value()
        return int(v) if v.denominator == 1 else v
    return x


class Interp:
    def __init__(self, repo: Repo, max_depth=40, assume_asserts=True):
        self.repo = repo
        self.max_depth = max_depth
        self.decisions: List[bool] = []
        self.taken: List[Tuple[Any, bool]] = []
        self.assumptions: List[str] = []
        self.depth = 0
        self.steps = 0
        self.trace_calls: List[str] = []
        self.auto_decide: Optional[Callable[[Any], Optional[bool]]] = None
        self.hooks: Dict[Tuple[str, str], Callable] = {}  # (module, qualname) -> python callable(interp, args, kwargs)
        self.external: Dict[str, Callable] = {}  # dotted external name -> callable

    # ------------------------------------------------------------------ driver
    def decide(self, cond) -> bool:
        """Truth value of a possibly symbolic condition; forks through NeedDecision."""
        if isinstance(cond, Cond):
            # try to decide structurally
            d = self._decide_cond(cond)
            if d is not None:
                return d
            # one question, one decision: `not c`, `a != b` and `b == a` are all answered through `a == b`
            flip = False
            base = cond
            while True:
                if base.op == "not" and len(base.args) == 1 and isinstance(base.args[0], Cond):
                    base, flip = base.args[0], not flip
                elif base.op == "!=" and len(base.args) == 2 and all(is_num(a) for a in base.args):
                    base, flip = Cond("==", base.args), not flip
                else:
                    break
            if base.op == "==" and len(base.args) == 2 and all(is_num(a) for a in base.args) and repr(base.args[0]) > repr(base.args[1]):
                base = Cond("==", (base.args[1], base.args[0]))
            if base is not cond:
                return (not self.decide(base)) if flip else self.decide(base)
            for (c, v) in self.taken:
                if isinstance(c, Cond) and c.key() == cond.key():
                    return v
                if isinstance(c, Cond) and cond.op == "not" and isinstance(cond.args[0], Cond) and c.key() == cond.args[0].key():
                    return not v
            if self.auto_decide is not None:
                v = self.auto_decide(cond)
                if v is not None:
                    self.assumptions.append(f"assumed {'true' if v else 'false'}: {cond!r}")
                    return v
            i = len(self.taken)
            if i < len(self.decisions):
                v = self.decisions[i]
                self.taken.append((cond, v))
                return v
            raise NeedDecision(cond)
        if isinstance(cond, Unknown):
            raise Undecided(f"branch on unknown value: {cond.why}")
        if isinstance(cond, RF):
            if cond.is_const():
                return cond.const_value() != 0
            return self.decide(Cond("!=", (cond, 0)))
        if isinstance(cond, Rec):
            # truth of an instance: __bool__, else __len__, else true
            if self.find_method(cond.cls, "__bool__"):
                return self.decide(self.rec_op(cond, "__bool__", []))
            if self.find_method(cond.cls, "__len__"):
                return self.decide(self.rec_op(cond, "__len__", []))
            return True
        if isinstance(cond, ConstMatch):
            return True
        if isinstance(cond, Ext):
            return cond.sym_truth(self)
        if isinstance(cond, SymStr):
            return self.decide(Cond("nonempty", (cond,)))
        return bool(cond)

    def _decide_cond(self, c: Cond) -> Optional[bool]:
        if c.op == "not":
            a = c.args[0]
            if isinstance(a, Cond):
                d = self._decide_cond(a)
                return None if d is None else (not d)
            return None
        if c.op in ("==", "!=", "<", "<=", ">", ">=") and all(is_num(a) for a in c.args):
            diff = to_rf(c.args[0]) - to_rf(c.args[1])
            if not diff.is_const() and diff.atoms() == {"EPSILON"}:
                # the machine epsilon is a known positive constant (2**-52): comparisons of constants with it are decided
                diff = diff.subst({"EPSILON": Fraction(1, 2 ** 52)})
            if diff.is_const():
                v = diff.const_value()
                return {"==": v == 0, "!=": v != 0, "<": v < 0, "<=": v <= 0, ">": v > 0, ">=": v >= 0}[c.op]
        return None

    # ------------------------------------------------------------------ names
    def module_ns(self, mod: Module, name: str, upto: Optional[int] = None):
        """Value of a module-level name.  `upto`: the line of the module-level statement being evaluated - tables
        are then seen as they were when that statement ran at import (later NAME.update(...) not yet applied)."""
        if name in mod.classes:
            return ClassRef(mod.name, name)
        if name in mod.functions and "." not in name:
            return Closure(mod, mod.functions[name], None)
        if name in mod.assigns:
            nodes = mod.assigns[name]
            if upto is not None:
                earlier = [n for n in nodes if n.lineno < upto]
                if not earlier:
                    upto = None
                else:
                    nodes = earlier
            key = (mod.name, name, upto)
            if key in self._modcache:
                return self._modcache[key]
            self._modcache[key] = Unknown(f"recursive module value {name}")
            try:
                v = self.eval(nodes[-1], {"__mod__": mod, "__modline__": nodes[-1].lineno})
                v = self._apply_module_updates(mod, name, v, nodes[-1].lineno, upto)
            except (Undecided, NeedDecision) as e:
                v = Unknown(f"module value {mod.name}.{name}: {e}")
            self._modcache[key] = v
            return v
        if name in mod.imports:
            m, attr = mod.imports[name]
            tm = self.repo.resolve_module(m)
            if attr is None:
                if tm:
                    return ModRef(tm.name)
                return ModRef(m, True)
            if tm is not None:
                return self.module_ns(tm, attr)
            if m == "picosvg" and attr in self.repo.modules:
                return ModRef(attr)
            return self._external(m, attr)
        for m in mod.star_imports:
            tm = self.repo.resolve_module(m)
            if tm is not None:
                r = self.module_ns(tm, name)
                if not isinstance(r, _Missing):
                    return r
        return _MISSING

    _modcache: Dict = {}

    def _apply_module_updates(self, mod: Module, name: str, v, after: int = 0, upto: Optional[int] = None):
        """Module-level statements that modify a table after its assignment: NAME.update(...), NAME[key] = value."""
        if isinstance(v, dict):
            for st in mod.tree.body:
                if st.lineno <= after or (upto is not None and st.lineno >= upto):
                    continue
                if isinstance(st, ast.Assign) and any(isinstance(t, ast.Name) and t.id == name for t in st.targets):
                    continue
                env = {"__mod__": mod, name: v, "__modline__": st.lineno}
                if (isinstance(st, ast.Expr) and isinstance(st.value, ast.Call)
                        and isinstance(st.value.func, ast.Attribute) and st.value.func.attr == "update"
                        and isinstance(st.value.func.value, ast.Name) and st.value.func.value.id == name):
                    arg = self.eval(st.value.args[0], env)
                    if isinstance(arg, dict):
                        v.update(arg)
                elif isinstance(st, ast.Assign) and len(st.targets) == 1 and isinstance(st.targets[0], ast.Subscript) \
                        and isinstance(st.targets[0].value, ast.Name) and st.targets[0].value.id == name:
                    v[_h(self.eval(st.targets[0].slice, env))] = self.eval(st.value, env)
        return v

    def _external(self, module: str, attr: str):
        if module == "lxml" and attr == "etree" and getattr(self, "_etree", None) is not None:
            return self._etree
        if f"{module}.{attr}" in self.external:
            return PyCallable(self.external[f"{module}.{attr}"])
        if module in getattr(self, "ext_modules", {}):
            return self.ext_modules[module].sym_getattr(self, attr)
        if module == "functools" and attr == "partial":
            def _partial(it, a, k):
                f0, pre, prek = a[0], list(a[1:]), dict(k)
                return PyCallable(lambda it2, a2, k2: it2.call(f0, pre + list(a2), dict(prek, **k2)))
            return PyCallable(_partial)
        if module == "contextlib" and attr == "nullcontext":
            return PyCallable(lambda it, a, k: NullContext(a[0] if a else k.get("enter_result")))
        if module == "contextlib" and attr == "suppress":
            return PyCallable(lambda it, a, k: SuppressContext(tuple(getattr(x, "name", str(x)) for x in a)))
        if module == "re" and attr in ("split", "match", "fullmatch", "sub", "findall", "finditer", "search"):
            def _re(it, a, k, attr=attr):
                return _re_fold(attr, a, k)
            return PyCallable(_re)
        if module == "re" and attr == "compile":
            def _rc(it, a, k):
                if all(isinstance(x, (str, int)) for x in a):
                    return ConstRegex(a)
                raise Undecided("re.compile of a non-literal pattern")
            return PyCallable(_rc)
        if module == "re" and attr in ("IGNORECASE", "I", "VERBOSE", "X", "MULTILINE", "M", "DOTALL", "S"):
            import re as _re_mod
            return int(getattr(_re_mod, attr))
        if module == "collections" and attr == "OrderedDict":
            def _od(it, a, k):
                d = {}
                if a:
                    it.container_method(d, "update", [a[0]], {})
                d.update(k)
                return d
            return PyCallable(_od)
        if module == "collections" and attr == "Counter":
            def _ctr(it, a, k):
                d = {}
                for x in (it.iterate(a[0]) if a else []):
                    d[_h(x)] = d.get(_h(x), 0) + 1
                d["__default_factory__"] = PyCallable(lambda i2, a2, k2: 0)
                return d
            return PyCallable(_ctr)
        if module == "collections" and attr == "deque":
            return PyCallable(lambda it, a, k: list(it.iterate(a[0])) if a else [])
        if module == "operator" and attr in ("add", "sub", "mul", "truediv", "neg", "itemgetter", "attrgetter", "methodcaller", "eq", "ne", "lt", "le", "gt", "ge", "not_", "truth", "is_", "is_not", "contains", "getitem", "floordiv", "mod", "abs", "pos"):
            return Builtin("operator." + attr)
        if module == "itertools" and attr == "count":
            def _count(it, a, k):
                import itertools as _it
                return LazyGen(_it.count(_idx(a[0]) if a else _idx(k.get("start", 0)), _idx(a[1]) if len(a) > 1 else _idx(k.get("step", 1))))
            return PyCallable(_count)
        if module == "itertools" and attr == "cycle":
            def _cycle(it, a, k):
                import itertools as _it
                return LazyGen(_it.cycle(it.iterate(a[0])))
            return PyCallable(_cycle)
        if module == "collections" and attr == "defaultdict":
            def _dd(it, a, k):
                d = {"__default_factory__": a[0] if a else None}
                if len(a) > 1:
                    d.update(a[1])
                return d
            return PyCallable(_dd)
        if module == "operator" and attr in ("matmul",):
            return Builtin("operator." + attr)
        if module == "math" or module.startswith("math"):
            if attr in MATH_FUNCS:
                return Builtin("math." + attr)
            if attr in MATH_CONSTS:
                return MATH_CONSTS[attr]
        if module == "functools" and attr == "reduce":
            return Builtin("reduce")
        if module == "itertools" and attr in ("zip_longest", "islice", "chain", "product", "accumulate", "repeat", "pairwise", "filterfalse", "takewhile", "dropwhile", "starmap", "compress"):
            return Builtin("itertools." + attr)
        if module == "sys" and attr == "float_info":
            return Rec(ClassRef("sys", "float_info"), {"epsilon": RF.sym("EPSILON")})
        if module == "typing":
            return Builtin("typing." + attr)
        if module == "types" and attr == "MappingProxyType":
            return PyCallable(lambda it, a, k: a[0])
        if module == "copy":
            return Builtin("copy." + attr)
        if module == "dataclasses":
            return Builtin("dataclasses." + attr)
        return Unknown(f"external {module}.{attr}")

    def lookup(self, name: str, env: dict):
        e = env
        while e is not None:
            if name in e:
                return e[name]
            e = e.get("__parent__")
        mod = self._mod(env)
        upto = None
        e = env
        while e is not None:
            if "__modline__" in e:
                upto = e["__modline__"]
                break
            e = e.get("__parent__")
        r = self.module_ns(mod, name, upto)
        if not isinstance(r, _Missing):
            return r
        if name in BUILTINS:
            return Builtin(name)
        if name in ("True", "False", "None"):
            return {"True": True, "False": False, "None": None}[name]
        if name in ("ValueError", "TypeError", "KeyError", "IndexError", "NotImplementedError", "AssertionError",
                    "Exception", "NotImplemented", "ZeroDivisionError", "StopIteration"):
            return Builtin(name)
        raise Undecided(f"unresolved name {name}")

    def _lookup_opt(self, name, env):
        e = env
        while e is not None:
            if name in e:
                return e[name]
            e = e.get("__parent__")
        return None

    def _mod(self, env) -> Module:
        e = env
        while e is not None:
            if "__mod__" in e:
                return e["__mod__"]
            e = e.get("__parent__")
        raise Undecided("no module in env")

    # ------------------------------------------------------------------ classes
    def class_node(self, c: ClassRef) -> Tuple[Module, ast.ClassDef]:
        m = self.repo[c.module]
        return m, m.classes[c.name]

    def class_mro(self, c: ClassRef) -> List[Tuple[Module, ast.ClassDef]]:
        cache = self.repo.__dict__.setdefault("_sym_mro", {})
        if c in cache:
            return cache[c]
        out, seen = [], set()

        def rec(m, cd):
            if (m.name, cd.name) in seen:
                return
            seen.add((m.name, cd.name))
            out.append((m, cd))
            for b in cd.bases:
                if isinstance(b, ast.Name):
                    r = self.repo.lookup(m, b.id)
                    if r and r[1] == "class":
                        rec(r[0], r[2])

        m, cd = self.class_node(c)
        rec(m, cd)
        cache[c] = out
        return out

    def is_namedtuple(self, c: ClassRef) -> bool:
        cache = self.repo.__dict__.setdefault("_sym_nt", {})
        if c not in cache:
            cache[c] = self._is_namedtuple(c)
        return cache[c]

    def _is_namedtuple(self, c: ClassRef) -> bool:
        for m, cd in self.class_mro(c):
            for b in cd.bases:
                if isinstance(b, ast.Name) and b.id == "NamedTuple":
                    return True
        return False

    def class_fields(self, c: ClassRef) -> List[Tuple[str, Any]]:
        """[(name, default-node or None)] in definition order, bases first, ClassVar skipped."""
        cache = self.repo.__dict__.setdefault("_sym_fields", {})
        if c in cache:
            return cache[c]
        order, info = [], {}
        for m, cd in reversed(self.class_mro(c)):
            is_record = any("dataclass" in unparse(d) for d in cd.decorator_list) or any("NamedTuple" in unparse(b) for b in cd.bases)
            if not is_record:
                continue  # annotated names in an ordinary class body are class attributes, not per-instance fields
            for st in cd.body:
                if isinstance(st, ast.AnnAssign) and isinstance(st.target, ast.Name):
                    if unparse(st.annotation).startswith("ClassVar"):
                        continue
                    if st.target.id not in info:
                        order.append(st.target.id)
                    info[st.target.id] = (m, st.value)
        cache[c] = [(n, info[n]) for n in order]
        return cache[c]

    def class_field_annotations(self, c: ClassRef) -> Dict[str, str]:
        cache = self.repo.__dict__.setdefault("_sym_ann", {})
        if c not in cache:
            d = {}
            for m, cd in reversed(self.class_mro(c)):
                for st in cd.body:
                    if isinstance(st, ast.AnnAssign) and isinstance(st.target, ast.Name):
                        d[st.target.id] = unparse(st.annotation)
            cache[c] = d
        return cache[c]

    def find_method(self, c: ClassRef, name: str):
        cache = self.repo.__dict__.setdefault("_sym_meth", {})
        k = (c, name)
        if k not in cache:
            cache[k] = self._find_method(c, name)
        return cache[k]

    def _find_method(self, c: ClassRef, name: str):
        for m, cd in self.class_mro(c):
            for st in cd.body:
                if isinstance(st, (ast.FunctionDef,)) and st.name == name:
                    return m, cd, st
                if isinstance(st, ast.Assign) and len(st.targets) == 1 and isinstance(st.targets[0], ast.Name) \
                        and st.targets[0].id == name and isinstance(st.value, ast.Name):
                    # alias such as __rmul__ = __mul__
                    return self.find_method(ClassRef(m.name, cd.name), st.value.id)
        return None

    def class_attr(self, c: ClassRef, name: str, env=None):
        if name in ("_make", "_fields", "_field_defaults") and self.is_namedtuple(c):
            if name == "_fields":
                return tuple(n for n, _ in self.class_fields(c))
            if name == "_make":
                return PyCallable(lambda it, a, k, c=c: it.construct(c, list(it.iterate(a[0])), {}))
            return {n: self.eval(dn, {"__mod__": m}) for n, (m, dn) in self.class_fields(c) if dn is not None}
        r = self.find_method(c, name)
        if r:
            m, cd, fn = r
            decos = [unparse(d) for d in fn.decorator_list]
            clo = Closure(m, fn, None, f"{cd.name}.{fn.name}")
            if "staticmethod" in decos:
                return clo
            if "classmethod" in decos:
                return Bound(c, clo)
            return clo  # unbound
        for m, cd in self.class_mro(c):
            for st in cd.body:
                val = None
                if isinstance(st, ast.Assign) and len(st.targets) == 1 and isinstance(st.targets[0], ast.Name) \
                        and st.targets[0].id == name:
                    val = st.value
                if isinstance(st, ast.AnnAssign) and isinstance(st.target, ast.Name) and st.target.id == name and st.value:
                    val = st.value
                if val is not None:
                    # a class attribute is created once per process: mutable values keep what is written into them
                    ck = (m.name, cd.name, name)
                    store = self.__dict__.setdefault("class_state", {})
                    if ck not in store:
                        store[ck] = self.eval(val, {"__mod__": m})
                    return store[ck]
            # module-level `Class.attr = value`
            for st in m.tree.body:
                if isinstance(st, ast.Assign) and len(st.targets) == 1 and isinstance(st.targets[0], ast.Attribute) \
                        and isinstance(st.targets[0].value, ast.Name) and st.targets[0].value.id == cd.name \
                        and st.targets[0].attr == name:
                    return self.eval(st.value, {"__mod__": m})
        raise Undecided(f"class {c.name} has no attribute {name}")

    def construct(self, c: ClassRef, args, kwargs):
        if (c.module, c.name) in self.hooks:
            return self.hooks[(c.module, c.name)](self, args, kwargs)
        fields = self.class_fields(c)
        nt = self.is_namedtuple(c)
        init = self.find_method(c, "__init__")
        if init and not nt:
            obj = Rec(c, {}, mutable=True)
            # dataclass defaults first
            for n, (m, dn) in fields:
                if dn is not None:
                    obj.f[n] = self.eval(dn, {"__mod__": m})
            m, cd, fn = init
            self.call_closure(Closure(m, fn, None, f"{cd.name}.__init__"), [obj] + list(args), kwargs)
            return obj
        vals = {}
        names = [n for n, _ in fields]
        if len(args) > len(names):
            raise PyRaise("TypeError", None, f"{c.name}() takes {len(names)} positional arguments")
        for n, a in zip(names, args):
            vals[n] = a
        for k, v in kwargs.items():
            if k not in names:
                raise PyRaise("TypeError", None, f"{c.name}() unexpected keyword {k}")
            vals[k] = v
        for n, (m, dn) in fields:
            if n not in vals:
                if dn is None:
                    raise PyRaise("TypeError", None, f"{c.name}() missing {n}")
                vals[n] = self.eval(dn, {"__mod__": m})
        obj = Rec(c, {n: vals[n] for n in names}, mutable=not nt)
        post = self.find_method(c, "__post_init__")
        if post and not nt:
            m, cd, fn = post
            self.call_closure(Closure(m, fn, None), [obj], {})
        return obj

    # ------------------------------------------------------------------ calls
    def call(self, f, args: list, kwargs: dict, node=None):
        self.steps += 1
        if self.steps > 400000:
            raise Undecided("step budget exceeded")
        if isinstance(f, Bound):
            return self.call(f.fn, [f.selfv] + list(args), kwargs, node)
        if isinstance(f, Closure):
            key = (f.mod.name, getattr(f.node, "_qualname", f.name))
            if key in self.hooks:
                # a model that stands for a repository function sees its arguments by position, however the caller spelled them
                # (keywords, functools.partial): keyword arguments are moved into their positional slots as far as those are contiguous
                if kwargs and not isinstance(f.node, ast.Lambda):
                    params = [p_.arg for p_ in getattr(f.node.args, "posonlyargs", [])] + [p_.arg for p_ in f.node.args.args]
                    args, kwargs = list(args), dict(kwargs)
                    while len(args) < len(params) and params[len(args)] in kwargs:
                        args.append(kwargs.pop(params[len(args)]))
                return self.hooks[key](self, args, kwargs)
            if _is_memoised(f.node):
                # functools.lru_cache / cache: one result per argument tuple (objects by identity), for the life of the process
                store = self.__dict__.setdefault("memo", {}).setdefault(id(f.node), {})
                try:
                    mk = (tuple(_memo_key(a) for a in args), tuple(sorted((k, _memo_key(v)) for k, v in kwargs.items())))
                    hash(mk)
                except TypeError:
                    return self.call_closure(f, args, kwargs)
                if mk in store:
                    return store[mk][0]
                v = self.call_closure(f, args, kwargs)
                store[mk] = (v, list(args))  # keep the arguments alive: identities must not be reused
                return v
            return self.call_closure(f, args, kwargs)
        if isinstance(f, ClassRef):
            return self.construct(f, args, kwargs)
        if isinstance(f, Builtin):
            return self.call_builtin(f.name, args, kwargs, node)
        if isinstance(f, PyCallable):
            return f.fn(self, args, kwargs)
        if isinstance(f, Ext) and hasattr(f, "sym_call"):
            return f.sym_call(self, args, kwargs)
        if isinstance(f, Rec) and self.find_method(f.cls, "__call__"):
            return self.rec_op(f, "__call__", args)
        if isinstance(f, Unknown):
            raise Undecided(f"call of an unknown callable ({f.why}): its effect on the arguments is not known")
        raise Undecided(f"call of non-callable {f!r}")

    def call_closure(self, clo: Closure, args, kwargs):
        if self.depth > self.max_depth:
            raise Undecided("recursion too deep")
        node = clo.node
        env: dict = {"__parent__": clo.env, "__mod__": clo.mod} if clo.env is not None else {"__mod__": clo.mod}
        env["__func__"] = node
        a = node.args
        params = [p.arg for p in getattr(a, "posonlyargs", [])] + [p.arg for p in a.args]
        defaults = [None] * (len(params) - len(a.defaults)) + list(a.defaults)
        args = list(args)
        for i, p in enumerate(params):
            if i < len(args):
                env[p] = args[i]
            elif p in kwargs:
                env[p] = kwargs.pop(p)
            elif defaults[i] is not None:
                dv = getattr(clo, "default_values", None)
                env[p] = dv[i - (len(params) - len(a.defaults))] if dv is not None else self.eval(defaults[i], {"__mod__": clo.mod, "__parent__": clo.env})
            else:
                raise PyRaise("TypeError", node, f"{clo.name}() missing argument {p}")
        extra = args[len(params):]
        if a.vararg:
            env[a.vararg.arg] = tuple(extra)
        elif extra:
            raise PyRaise("TypeError", node, f"{clo.name}() takes {len(params)} positional arguments but {len(args)} were given")
        for kwi, (p, d) in enumerate(zip(a.kwonlyargs, a.kw_defaults)):
            if p.arg in kwargs:
                env[p.arg] = kwargs.pop(p.arg)
            elif d is not None:
                kdv = getattr(clo, "kw_default_values", None)
                env[p.arg] = kdv[kwi] if kdv is not None else self.eval(d, {"__mod__": clo.mod, "__parent__": clo.env})
            else:
                raise PyRaise("TypeError", node, f"missing kw-only {p.arg}")
        if a.kwarg:
            env[a.kwarg.arg] = dict(kwargs)
        elif kwargs:
            raise PyRaise("TypeError", node, f"{clo.name}() got unexpected keyword {list(kwargs)}")
        self.depth += 1
        try:
            if isinstance(node, ast.Lambda):
                return self.eval(node.body, env)
            is_gen = getattr(node, "_is_gen", None)
            if is_gen is None:
                is_gen = any(isinstance(n, (ast.Yield, ast.YieldFrom)) for n in _walk_own(node))
                node._is_gen = is_gen
            if is_gen:
                env["__yield__"] = []
            try:
                self.exec_block(node.body, env)
                ret = None
            except _Return as r:
                ret = r.v
            if is_gen:
                return list(env["__yield__"])
            return ret
        finally:
            self.depth -= 1

    # ------------------------------------------------------------------ statements
    def exec_block(self, stmts, env):
        for st in stmts:
            self.exec(st, env)

    def exec(self, st, env):
        if isinstance(st, ast.Expr):
            if isinstance(st.value, ast.Constant):
                return
            self.eval(st.value, env)
        elif isinstance(st, ast.Assign):
            v = self.eval(st.value, env)
            for t in st.targets:
                self.assign(t, v, env)
        elif isinstance(st, ast.AnnAssign):
            if st.value is not None:
                self.assign(st.target, self.eval(st.value, env), env)
        elif isinstance(st, ast.AugAssign):
            cur = self.eval(_load(st.target), env)
            v = self.binop(st.op, cur, self.eval(st.value, env), st)
            self.assign(st.target, v, env)
        elif isinstance(st, ast.If):
            if self.decide(self.eval(st.test, env)):
                self.exec_block(st.body, env)
            else:
                self.exec_block(st.orelse, env)
        elif isinstance(st, ast.For):
            it = self.iter_lazy(self.eval(st.iter, env))
            self.repo.__dict__.setdefault("_executed_loops", set()).add((self._mod(env).name, st.lineno))
            broke = False
            n_iter = 0
            for item in it:
                n_iter += 1
                if n_iter > 200000:
                    raise Undecided("while loop bound exceeded (a for loop over an endless iterator never leaves)")
                self.assign(st.target, item, env)
                try:
                    self.exec_block(st.body, env)
                except _Break:
                    broke = True
                    break
                except _Continue:
                    continue
            if not broke:
                self.exec_block(st.orelse, env)
        elif isinstance(st, ast.While):
            n = 0
            self.repo.__dict__.setdefault("_executed_loops", set()).add((self._mod(env).name, st.lineno))
            while self.decide(self.eval(st.test, env)):
                n += 1
                if n > 10000:
                    raise Undecided("while loop bound exceeded")
                try:
                    self.exec_block(st.body, env)
                except _Break:
                    break
                except _Continue:
                    continue
        elif isinstance(st, ast.Return):
            raise _Return(self.eval(st.value, env) if st.value is not None else None)
        elif isinstance(st, ast.Raise):
            if st.exc is None:
                cur = self._lookup_opt("__exc__", env)
                if cur is None:
                    raise PyRaise("RuntimeError", st, "No active exception to reraise")
                raise cur
            if isinstance(st.exc, ast.Name):
                held = self._lookup_opt(st.exc.id, env)
                if isinstance(held, ExcVal):
                    raise held.exc
            err = PyRaise(_exc_name(st.exc), st)
            if isinstance(st.exc, ast.Call) and not st.exc.keywords:
                try:
                    err.args_known = tuple(self.eval(x, env) for x in st.exc.args)
                    if len(err.args_known) == 1 and isinstance(err.args_known[0], str):
                        err.msg = err.args_known[0]
                except (Undecided, NeedDecision, PyRaise):
                    err.args_known = None
            raise err
        elif isinstance(st, ast.Assert):
            c = self.eval(st.test, env)
            if isinstance(c, (Cond, RF)):
                d = self._decide_cond(c) if isinstance(c, Cond) else None
                if d is False:
                    raise PyRaise("AssertionError", st)
                if d is None:
                    self.assumptions.append(f"assert {unparse(st.test)}")
            elif isinstance(c, Unknown):
                self.assumptions.append(f"assert {unparse(st.test)} (unknown)")
            elif not c:
                raise PyRaise("AssertionError", st)
        elif isinstance(st, ast.FunctionDef):
            clo = Closure(self._mod(env), st, env)
            # default values are evaluated when the def statement runs
            if st.args.defaults or any(d is not None for d in st.args.kw_defaults):
                clo = _with_defaults(clo, [self.eval(d, env) for d in st.args.defaults], [None if d is None else self.eval(d, env) for d in st.args.kw_defaults])
            env[st.name] = clo
        elif isinstance(st, ast.ClassDef) and ("__func__" in env or "__parent__" in env):
            # a class defined inside a function: registered with its module under a unique name (its methods see module-level names only;
            # a reference to a variable of the enclosing function ends in "unresolved name": exit 2, not a guess)
            mod = self._mod(env)
            uniq = f"{st.name}@{st.lineno}"
            if uniq not in mod.classes:
                mod.classes[uniq] = st
                for sub in st.body:
                    if isinstance(sub, (ast.FunctionDef, ast.AsyncFunctionDef)):
                        sub._qualname = f"{uniq}.{sub.name}"
            self.repo.__dict__.pop("_sym_mro", None)
            env[st.name] = ClassRef(mod.name, uniq)
        elif isinstance(st, ast.Pass):
            pass
        elif isinstance(st, ast.Delete):
            for t in st.targets:
                if isinstance(t, ast.Name):
                    env.pop(t.id, None)
                elif isinstance(t, ast.Subscript) and isinstance(t.slice, ast.Slice):
                    base = self.eval(t.value, env)
                    if not isinstance(base, list):
                        raise Undecided("del of a slice of a non-list")
                    lo, hi, stp = (None if x is None else _idx(self.eval(x, env)) for x in (t.slice.lower, t.slice.upper, t.slice.step))
                    del base[lo:hi:stp]
                elif isinstance(t, ast.Subscript):
                    base = self.eval(t.value, env)
                    k = self.eval(t.slice, env)
                    if isinstance(base, (dict, list)):
                        try:
                            del base[_idx(k) if isinstance(base, list) else k]
                        except (KeyError, IndexError):
                            raise PyRaise("KeyError", st)
                    else:
                        raise Undecided("del on unknown container")
        elif isinstance(st, ast.Break):
            raise _Break()
        elif isinstance(st, ast.Continue):
            raise _Continue()
        elif isinstance(st, ast.Try):
            try:
                try:
                    self.exec_block(st.body, env)
                except PyRaise as e:
                    for h in st.handlers:
                        names = _handler_names(h)
                        if not names or any(_exc_covers(nm, e.exc_type) for nm in names):
                            saved = env.get("__exc__", _MISSING)
                            env["__exc__"] = e
                            if h.name:
                                env[h.name] = ExcVal(e)
                            try:
                                self.exec_block(h.body, env)
                            finally:
                                if h.name:
                                    env.pop(h.name, None)
                                if isinstance(saved, _Missing):
                                    env.pop("__exc__", None)
                                else:
                                    env["__exc__"] = saved
                            break
                    else:
                        raise
                else:
                    self.exec_block(st.orelse, env)
            except (PyRaise, _Return, _Break, _Continue):
                # the finally clause runs on the way out as well (a return / raise inside it replaces the pending one)
                self.exec_block(st.finalbody, env)
                raise
            self.exec_block(st.finalbody, env)
        elif isinstance(st, ast.Import):
            if "__func__" in env or "__parent__" in env:
                for al in st.names:
                    top = al.name if al.asname else al.name.split(".")[0]
                    tm = self.repo.resolve_module(top)
                    env[al.asname or top] = ModRef(tm.name) if tm else ModRef(top, True)
        elif isinstance(st, ast.ImportFrom):
            if "__func__" in env or "__parent__" in env:
                m = ("." * (st.level or 0)) + (st.module or "")
                for al in st.names:
                    tm = self.repo.resolve_module(m) or self.repo.resolve_module((st.module or "").split(".")[-1] if st.module else al.name)
                    if st.module is None or (st.module in ("picosvg",) and al.name in self.repo.modules):
                        tm2 = self.repo.resolve_module(al.name)
                        env[al.asname or al.name] = ModRef(tm2.name) if tm2 else ModRef(al.name, True)
                    elif tm is not None:
                        r = self.module_ns(tm, al.name)
                        if isinstance(r, _Missing):
                            raise PyRaise("ImportError", st, f"cannot import name {al.name}")
                        env[al.asname or al.name] = r
                    else:
                        env[al.asname or al.name] = self._external(st.module, al.name)
        elif isinstance(st, ast.Global):
            env.setdefault("__global_names__", set()).update(st.names)
        elif isinstance(st, ast.Nonlocal):
            env.setdefault("__nonlocal_names__", set()).update(st.names)
        elif isinstance(st, ast.With):
            # context managers whose semantics is known: contextlib.suppress(E..) and contextlib.nullcontext()
            if len(st.items) != 1 or st.items[0].optional_vars is not None and not isinstance(st.items[0].optional_vars, ast.Name):
                raise Undecided("with statement: form not interpreted")
            ce = st.items[0].context_expr
            cname = call_name_of(ce)
            if cname in ("contextlib.suppress", "suppress"):
                names = [_exc_name(x) for x in ce.args]
                try:
                    self.exec_block(st.body, env)
                except PyRaise as e:
                    if not any(_exc_covers(nm, e.exc_type) for nm in names):
                        raise
            elif cname in ("contextlib.nullcontext", "nullcontext"):
                if st.items[0].optional_vars is not None:
                    env[st.items[0].optional_vars.id] = self.eval(ce.args[0], env) if ce.args else None
                self.exec_block(st.body, env)
            else:
                cm = self.eval(ce, env)
                if isinstance(cm, SuppressContext):
                    try:
                        self.exec_block(st.body, env)
                    except PyRaise as e:
                        if not any(_exc_covers(nm, e.exc_type) for nm in cm.names):
                            raise
                elif isinstance(cm, Ext) and hasattr(cm, "sym_enter"):
                    val = cm.sym_enter(self)
                    if st.items[0].optional_vars is not None:
                        env[st.items[0].optional_vars.id] = val
                    try:
                        self.exec_block(st.body, env)
                    finally:
                        if hasattr(cm, "sym_exit"):
                            cm.sym_exit(self)
                else:
                    raise Undecided(f"with statement over {unparse(ce)[:40]}: context manager not modelled")
        else:
            raise Undecided(f"statement {type(st).__name__} not interpreted")

    def assign(self, target, v, env):
        if isinstance(target, ast.Name) and target.id in env.get("__nonlocal_names__", ()):
            e = env.get("__parent__")
            while e is not None:
                if target.id in e:
                    e[target.id] = v
                    return
                e = e.get("__parent__")
            raise Undecided(f"nonlocal {target.id}: no binding found")
        if isinstance(target, ast.Name):
            if target.id in env.get("__global_names__", ()):
                # module-level state written by a function: lives as long as the process
                mod = self._mod(env)
                for k in [k for k in self._modcache if k[0] == mod.name and k[1] == target.id]:
                    del self._modcache[k]
                self._modcache[(mod.name, target.id, None)] = v
                return
            env[target.id] = v
        elif isinstance(target, (ast.Tuple, ast.List)):
            items = list(self.iterate(v))
            star = [i for i, e in enumerate(target.elts) if isinstance(e, ast.Starred)]
            if star:
                i = star[0]
                n_after = len(target.elts) - i - 1
                if len(items) < len(target.elts) - 1:
                    raise PyRaise("ValueError", target, "not enough values to unpack")
                for t, x in zip(target.elts[:i], items[:i]):
                    self.assign(t, x, env)
                self.assign(target.elts[i].value, list(items[i:len(items) - n_after]), env)
                for t, x in zip(target.elts[i + 1:], items[len(items) - n_after:]):
                    self.assign(t, x, env)
            else:
                if len(items) != len(target.elts):
                    raise PyRaise("ValueError", target, f"unpack {len(items)} values into {len(target.elts)}")
                for t, x in zip(target.elts, items):
                    self.assign(t, x, env)
        elif isinstance(target, ast.Subscript) and isinstance(target.slice, ast.Slice):
            base = self.eval(target.value, env)
            if isinstance(base, Ext) and hasattr(base, "sym_setslice"):
                sl = target.slice
                if sl.lower is not None or sl.upper is not None or sl.step is not None:
                    raise Undecided(f"partial slice assignment on {type(base).__name__}")
                base.sym_setslice(self, list(self.iterate(v)))
                return
            if not isinstance(base, list):
                raise Undecided(f"slice assignment on {type(base).__name__}")
            sl = target.slice
            lo, hi, st = (None if x is None else _idx(self.eval(x, env)) for x in (sl.lower, sl.upper, sl.step))
            try:
                base[lo:hi:st] = list(self.iterate(v))
            except ValueError:
                raise PyRaise("ValueError", target, "extended slice size mismatch")
        elif isinstance(target, ast.Subscript):
            base = self.eval(target.value, env)
            k = self.eval(target.slice, env)
            if isinstance(base, list):
                try:
                    base[_idx(k)] = v
                except IndexError:
                    raise PyRaise("IndexError", target)
            elif isinstance(base, dict):
                base[_h(k)] = v
            elif isinstance(base, Unknown):
                pass
            else:
                raise Undecided(f"item assignment on {type(base).__name__}")
        elif isinstance(target, ast.Attribute):
            base = self.eval(target.value, env)
            if isinstance(base, Rec):
                base.f[target.attr] = v
            elif isinstance(base, Unknown):
                pass
            else:
                raise Undecided(f"attribute assignment on {base!r}")
        else:
            raise Undecided(f"assignment target {type(target).__name__}")

    # ------------------------------------------------------------------ expressions
    def eval(self, node, env):
        m = getattr(self, "e_" + type(node).__name__, None)
        if m is None:
            raise Undecided(f"expression {type(node).__name__} not interpreted: {unparse(node)[:60]}")
        return m(node, env)

    def e_Constant(self, n, env):
        return n.value

    def e_Name(self, n, env):
        return self.lookup(n.id, env)

    def e_Tuple(self, n, env):
        return tuple(self._elts(n.elts, env))

    def e_List(self, n, env):
        return list(self._elts(n.elts, env))

    def e_Set(self, n, env):
        return set(_h(x) for x in self._elts(n.elts, env))

    def _elts(self, elts, env):
        out = []
        for e in elts:
            if isinstance(e, ast.Starred):
                out.extend(self.iterate(self.eval(e.value, env)))
            else:
                out.append(self.eval(e, env))
        return out

    def e_Dict(self, n, env):
        d = {}
        for k, v in zip(n.keys, n.values):
            if k is None:
                d.update(self.eval(v, env))
            else:
                d[_h(self.eval(k, env))] = self.eval(v, env)
        return d

    def e_JoinedStr(self, n, env):
        parts = []
        symbolic = False
        for v in n.values:
            if isinstance(v, ast.Constant):
                parts.append(str(v.value))
            else:
                try:
                    x = self.eval(v.value, env)
                except (Undecided, PyRaise):
                    x = "?"
                spec = ""
                if v.conversion not in (-1, None):
                    spec += "!" + chr(v.conversion)
                if v.format_spec is not None:
                    spec += ":" + unparse(v.format_spec)
                if isinstance(x, str) and not spec:
                    parts.append(x)
                elif isinstance(x, int) and not isinstance(x, bool) and not spec:
                    parts.append(str(x))
                elif isinstance(x, str) and spec == "!r":
                    parts.append(repr(x))
                elif (isinstance(x, (int, float, Fraction, str)) and not isinstance(x, bool) and v.conversion in (-1, None) and v.format_spec is not None
                      and all(isinstance(c, ast.Constant) for c in v.format_spec.values)):
                    try:
                        parts.append(format(float(x) if isinstance(x, Fraction) else x, "".join(str(c.value) for c in v.format_spec.values)))
                    except ValueError:
                        raise PyRaise("ValueError", n, "invalid format specifier")
                else:
                    symbolic = True
                    parts.append(f"{{{x!r}{spec}}}")
        return SymStr("".join(parts)) if symbolic else "".join(parts)

    def e_NamedExpr(self, n, env):
        v = self.eval(n.value, env)
        # the target of := is bound in the enclosing function scope, also from inside a comprehension
        e = env
        while e is not None and "__func__" not in e and "__mod__" not in e and e.get("__parent__") is not None:
            e = e["__parent__"]
        (e if e is not None else env)[n.target.id] = v
        return v

    def e_Lambda(self, n, env):
        return Closure(self._mod(env), n, env)

    def e_IfExp(self, n, env):
        return self.eval(n.body, env) if self.decide(self.eval(n.test, env)) else self.eval(n.orelse, env)

    def e_UnaryOp(self, n, env):
        v = self.eval(n.operand, env)
        if isinstance(n.op, ast.Not):
            if isinstance(v, Cond):
                d = self._decide_cond(v)
                return (not d) if d is not None else Cond("not", (v,))
            if isinstance(v, (RF, Unknown)):
                if isinstance(v, RF) and v.is_const():
                    return v.const_value() == 0
                if isinstance(v, RF):
                    return Cond("==", (v, 0))
                return v
            if isinstance(v, (Rec, Ext, SymStr)):
                return not self.decide(v)
            return not v
        if isinstance(n.op, ast.USub):
            if isinstance(v, Rec):
                return self.rec_op(v, "__neg__", [])
            if isinstance(v, Unknown):
                return v
            return simplify_num(-to_rf(v)) if not isinstance(v, (int, float)) else -v
        if isinstance(n.op, ast.UAdd):
            return v
        raise Undecided("unary op")

    def e_BinOp(self, n, env):
        return self.binop(n.op, self.eval(n.left, env), self.eval(n.right, env), n)

    def binop(self, op, l, r, node=None):
        if isinstance(op, ast.Add) and (isinstance(l, Ext) or isinstance(r, Ext)):
            return l.sym_add(self, r, False) if isinstance(l, Ext) else r.sym_add(self, l, True)
        if isinstance(l, Unknown) or isinstance(r, Unknown):
            return Unknown(f"arith on unknown")
        if isinstance(op, ast.MatMult):
            if isinstance(l, Ext) and hasattr(l, "sym_matmul"):
                return l.sym_matmul(self, r)
            if isinstance(l, Rec):
                return self.rec_op(l, "__matmul__", [r])
            raise Undecided("@ on non-record")
        if (isinstance(l, KeysView) or isinstance(r, KeysView)) and isinstance(l, (KeysView, set, frozenset)) and isinstance(r, (KeysView, set, frozenset)) \
                and isinstance(op, (ast.BitOr, ast.BitAnd, ast.Sub, ast.BitXor)):
            l, r = set(l), set(r)
        if isinstance(l, (set, frozenset)) and isinstance(r, (set, frozenset)) and isinstance(op, (ast.BitOr, ast.BitAnd, ast.Sub, ast.BitXor)):
            res = {ast.BitOr: l | r, ast.BitAnd: l & r, ast.Sub: l - r, ast.BitXor: l ^ r}[type(op)]
            return frozenset(res) if isinstance(l, frozenset) else set(res)
        names = {ast.Add: ("__add__", "__radd__"), ast.Sub: ("__sub__", "__rsub__"), ast.Mult: ("__mul__", "__rmul__"),
                 ast.Div: ("__truediv__", "__rtruediv__")}
        if isinstance(l, Rec) or isinstance(r, Rec):
            fwd, rev = names[type(op)]
            if isinstance(l, Rec) and self.find_method(l.cls, fwd):
                res = self.rec_op(l, fwd, [r])
                if not (isinstance(res, Builtin) and res.name == "NotImplemented"):
                    return res
            if isinstance(r, Rec) and self.find_method(r.cls, rev):
                return self.rec_op(r, rev, [l])
            if isinstance(l, Rec) and isinstance(op, ast.Add) and self.is_namedtuple(l.cls) and isinstance(r, tuple):
                return l.astuple() + r
            raise PyRaise("TypeError", node, "unsupported operand")
        if isinstance(op, ast.Add) and (isinstance(l, SymStr) or isinstance(r, SymStr)):
            if isinstance(l, (str, SymStr)) and isinstance(r, (str, SymStr)):
                return SymStr((l.text if isinstance(l, SymStr) else l) + (r.text if isinstance(r, SymStr) else r))
            raise PyRaise("TypeError", node, "str + non-str")
        if isinstance(op, ast.Add):
            if isinstance(l, (tuple, list, str)) and type(l) is type(r):
                return l + r
            if isinstance(l, tuple) and isinstance(r, list) or isinstance(l, list) and isinstance(r, tuple):
                raise PyRaise("TypeError", node, "tuple + list")
            if isinstance(l, (tuple, list, str)) or isinstance(r, (tuple, list, str)):
                raise PyRaise("TypeError", node, "bad +")
        if isinstance(op, ast.Mult) and (isinstance(l, (str, tuple, list)) or isinstance(r, (str, tuple, list))):
            return l * r
        if isinstance(op, ast.Mod) and isinstance(l, str):
            vals = r if isinstance(r, tuple) else (r,)
            vals = tuple(float(x) if isinstance(x, Fraction) else x for x in vals)
            if all(isinstance(x, (int, str, float)) and not isinstance(x, bool) for x in vals):
                try:
                    return l % vals
                except (TypeError, ValueError):
                    raise PyRaise("TypeError", node, "bad % format")
            return SymStr(l + " % " + repr(vals))  # string formatting over symbolic values
        if not (is_num(l) or isinstance(l, bool)) or not (is_num(r) or isinstance(r, bool)):
            raise Undecided(f"arithmetic on {type(l).__name__}, {type(r).__name__}")
        if isinstance(l, int) and isinstance(r, int) and not isinstance(op, ast.Div):
            if isinstance(op, ast.Add):
                return l + r
            if isinstance(op, ast.Sub):
                return l - r
            if isinstance(op, ast.Mult):
                return l * r
            if isinstance(op, (ast.FloorDiv, ast.Mod)) and r == 0:
                raise PyRaise("ZeroDivisionError", node, "integer division or modulo by zero")
            if isinstance(op, ast.FloorDiv):
                return l // r
            if isinstance(op, ast.Mod):
                return l % r
            if isinstance(op, ast.Pow) and r >= 0:
                return l ** r
            if isinstance(op, ast.LShift):
                return l << r
        a, b = to_rf(l), to_rf(r)
        if isinstance(op, ast.Add):
            return simplify_num(a + b)
        if isinstance(op, ast.Sub):
            return simplify_num(a - b)
        if isinstance(op, ast.Mult):
            return simplify_num(a * b)
        if isinstance(op, ast.Div):
            if b.is_zero():
                raise PyRaise("ZeroDivisionError", node)
            return simplify_num(a / b)
        if isinstance(op, ast.Pow):
            return simplify_num(a ** b)
        if isinstance(op, (ast.FloorDiv, ast.Mod)) and a.is_const() and b.is_const():
            x, y = a.const_value(), b.const_value()
            return simplify_num(RF.of(x // y if isinstance(op, ast.FloorDiv) else x % y))
        if isinstance(op, (ast.FloorDiv, ast.Mod)):
            return simplify_num(fn_atom("floordiv" if isinstance(op, ast.FloorDiv) else "mod", a, b))
        raise Undecided(f"operator {type(op).__name__} on symbolic numbers")

    def rec_op(self, rec: Rec, name: str, args):
        r = self.find_method(rec.cls, name)
        if not r:
            raise PyRaise("TypeError", None, f"{rec.cls.name} has no {name}")
        m, cd, fn = r
        return self.call_closure(Closure(m, fn, None, f"{cd.name}.{name}"), [rec] + list(args), {})

    def e_BoolOp(self, n, env):
        is_and = isinstance(n.op, ast.And)
        syms = []
        last = None
        for v in n.values:
            x = self.eval(v, env)
            last = x
            if isinstance(x, (Cond, Unknown)):
                d = self._decide_cond(x) if isinstance(x, Cond) else None
                if d is None:
                    if isinstance(x, Unknown):
                        return x
                    syms.append(x)
                    continue
                x = d
            t = self.decide(x)
            if is_and and not t:
                return x
            if not is_and and t:
                return x if not syms else self._bool_combine("or", syms + [True])
        if syms:
            return syms[0] if len(syms) == 1 else Cond("and" if is_and else "or", tuple(syms))
        return last

    def _bool_combine(self, op, items):
        return True

    def e_Compare(self, n, env):
        left = self.eval(n.left, env)
        result = True
        conds = []
        for op, rn in zip(n.ops, n.comparators):
            right = self.eval(rn, env)
            c = self.compare(op, left, right, n)
            if isinstance(c, (Cond, Unknown)):
                conds.append(c)
            elif not c:
                return False
            left = right
        if conds:
            if any(isinstance(c, Unknown) for c in conds):
                return [c for c in conds if isinstance(c, Unknown)][0]
            return conds[0] if len(conds) == 1 else Cond("and", tuple(conds))
        return result

    def compare(self, op, l, r, node=None):
        if isinstance(op, (ast.Is, ast.IsNot)):
            if l is None or r is None or isinstance(l, (bool, ClassRef, Builtin)) or isinstance(r, (bool, ClassRef, Builtin)):
                same = (l is r) or (isinstance(l, (ClassRef, Builtin)) and l == r)
            elif isinstance(l, Unknown) or isinstance(r, Unknown):
                return Unknown("identity of unknown")
            elif isinstance(l, Rec) and isinstance(r, Rec):
                same = l is r
            elif isinstance(l, Closure) and isinstance(r, Closure):
                same = l.node is r.node
            else:
                same = l is r
            return same if isinstance(op, ast.Is) else not same
        if isinstance(op, (ast.In, ast.NotIn)):
            res = self.contains(r, l)
            if isinstance(res, (Cond, Unknown)):
                return res if isinstance(op, ast.In) else (Cond("not", (res,)) if isinstance(res, Cond) else res)
            return res if isinstance(op, ast.In) else not res
        sym = {ast.Eq: "==", ast.NotEq: "!=", ast.Lt: "<", ast.LtE: "<=", ast.Gt: ">", ast.GtE: ">="}[type(op)]
        if isinstance(l, Unknown) or isinstance(r, Unknown):
            return Unknown("comparison with unknown")
        if sym in ("==", "!="):
            eq = self.equal(l, r)
            if isinstance(eq, Cond):
                return eq if sym == "==" else Cond("not", (eq,))
            return eq if sym == "==" else not eq
        if is_num(l) and is_num(r):
            c = Cond(sym, (simplify_num(l), simplify_num(r)))
            d = self._decide_cond(c)
            return c if d is None else d
        if isinstance(l, (str, tuple, list)) and type(l) is type(r) and not _has_sym(l) and not _has_sym(r):
            try:
                return {"<": l < r, "<=": l <= r, ">": l > r, ">=": l >= r}[sym]
            except TypeError:
                raise Undecided("ordering comparison of sequences with mixed element types")
        if isinstance(l, (set, frozenset)) and isinstance(r, (set, frozenset)):
            return {"<": l < r, "<=": l <= r, ">": l > r, ">=": l >= r}[sym]
        if isinstance(l, Ext) and hasattr(l, "sym_compare"):
            return l.sym_compare(self, sym, r)
        if isinstance(r, Ext) and hasattr(r, "sym_compare"):
            return r.sym_compare(self, {"<": ">", "<=": ">=", ">": "<", ">=": "<="}[sym], l)
        raise Undecided(f"ordering comparison of {l!r} and {r!r}")

    def equal(self, l, r):
        """Python == on interpreter values: True/False or a symbolic Cond."""
        if isinstance(l, Ext):
            return l.sym_eq(self, r)
        if isinstance(r, Ext):
            return r.sym_eq(self, l)
        if isinstance(l, SymStr) or isinstance(r, SymStr):
            if isinstance(l, SymStr) and isinstance(r, SymStr) and l.text == r.text:
                return True
            if not isinstance(l, (str, SymStr)) or not isinstance(r, (str, SymStr)):
                return False
            return Cond("==", (l, r))
        if isinstance(l, Rec) and self.is_namedtuple(l.cls):
            l = l.astuple()
        if isinstance(r, Rec) and self.is_namedtuple(r.cls):
            r = r.astuple()
        if isinstance(l, Rec) or isinstance(r, Rec):
            if isinstance(l, Rec) and isinstance(r, Rec):
                if l.cls != r.cls:
                    return False
                l, r = tuple(l.f.values()), tuple(r.f.values())
            else:
                return False
        if is_num(l) and is_num(r) and not isinstance(l, bool) and not isinstance(r, bool):
            a, b = to_rf(l), to_rf(r)
            if a.equals(b):
                return True
            if (a - b).is_const():
                return False
            return Cond("==", (simplify_num(l), simplify_num(r)))
        if isinstance(l, (tuple, list)) and isinstance(r, (tuple, list)):
            if type(l) is not type(r) and not (isinstance(l, tuple) and isinstance(r, tuple)):
                return False
            if len(l) != len(r):
                return False
            conds = []
            for x, y in zip(l, r):
                e = self.equal(x, y)
                if e is False:
                    return False
                if isinstance(e, Cond):
                    conds.append(e)
            if not conds:
                return True
            return conds[0] if len(conds) == 1 else Cond("and", tuple(conds))
        if is_num(l) != is_num(r) and not isinstance(l, bool) and not isinstance(r, bool):
            return False
        try:
            return l == r
        except Exception:
            raise Undecided("equality")

    def contains(self, container, item):
        if isinstance(container, Unknown):
            return container
        if isinstance(container, SymStr) or (isinstance(container, str) and isinstance(item, SymStr)):
            return Cond("in", (item, container))
        if isinstance(container, str):
            if isinstance(item, str):
                return item in container
            raise Undecided("substring test on symbolic")
        if isinstance(container, range):
            try:
                return _idx(item) in container
            except Undecided:
                raise
        if isinstance(container, dict):
            return _h(item) in container
        if isinstance(container, (tuple, list, frozenset, set)):
            conds = []
            for x in container:
                e = self.equal(x, item)
                if e is True:
                    return True
                if isinstance(e, Cond):
                    conds.append(e)
            if conds:
                return conds[0] if len(conds) == 1 else Cond("or", tuple(conds))
            return False
        if isinstance(container, Rec) and self.is_namedtuple(container.cls):
            return self.contains(container.astuple(), item)
        if isinstance(container, Ext) and hasattr(container, "sym_contains"):
            return container.sym_contains(self, item)
        raise Undecided(f"membership in {type(container).__name__}")

    def e_Attribute(self, n, env):
        base = self.eval(n.value, env)
        return self.getattr(base, n.attr, n)

    def getattr(self, base, attr, node=None):
        if isinstance(base, Rec):
            if attr in base.f:
                return base.f[attr]
            if attr == "__class__":
                return base.cls
            if attr == "_replace" and self.is_namedtuple(base.cls):
                return PyCallable(lambda it, a, k, b=base: Rec(b.cls, {**b.f, **k}))
            if attr == "_asdict" and self.is_namedtuple(base.cls):
                return PyCallable(lambda it, a, k, b=base: dict(b.f))
            if attr == "_fields" and self.is_namedtuple(base.cls):
                return tuple(base.f)
            r = self.find_method(base.cls, attr)
            if r:
                m, cd, fn = r
                decos = [unparse(d) for d in fn.decorator_list]
                clo = Closure(m, fn, None, f"{cd.name}.{fn.name}")
                if "property" in decos:
                    return self.call_closure(clo, [base], {})
                if "staticmethod" in decos:
                    return clo
                if "classmethod" in decos:
                    return Bound(base.cls, clo)
                return Bound(base, clo)
            try:
                return self.class_attr(base.cls, attr)
            except Undecided:
                if base.mutable:
                    raise PyRaise("AttributeError", node, attr)
                raise
        if isinstance(base, Ext):
            return base.sym_getattr(self, attr)
        if isinstance(base, ClassRef):
            if attr == "__name__":
                return base.name
            return self.class_attr(base, attr)
        if isinstance(base, ModRef):
            if base.external:
                return self._external(base.name, attr)
            r = self.module_ns(self.repo[base.name], attr)
            if isinstance(r, _Missing):
                raise Undecided(f"module {base.name} has no {attr}")
            return r
        if isinstance(base, (str, bytes)):
            return PyCallable(lambda it, a, k, b=base, at=attr: _str_method(b, at, [list(x.pull()) if isinstance(x, LazyGen) else x for x in a], k))
        if isinstance(base, SymStr):
            def _m(it, a, k, b=base, at=attr):
                call = f"{b.text}.{at}({', '.join(map(repr, a))})"
                if at in ("startswith", "endswith", "isdigit", "islower", "isupper"):
                    return Cond(at, (b,) + tuple(a))
                return SymStr(call)
            return PyCallable(_m)
        if isinstance(base, (list, tuple, dict, frozenset, set)):
            return PyCallable(lambda it, a, k, b=base, at=attr: it.container_method(b, at, a, k))
        if isinstance(base, ConstMatch):
            if attr in ("group", "groups", "span", "start", "end"):
                return PyCallable(lambda it, a, k, b=base, at=attr: getattr(b.m, at)(*a))
            raise Undecided(f"match.{attr}")
        if isinstance(base, Unknown):
            return Unknown(f"{base.why}.{attr}")
        if is_num(base):
            if attr == "is_integer":
                return PyCallable(lambda it, a, k, b=base: _is_integer(b))
            if attr in ("real",):
                return base
        if isinstance(base, Builtin) and attr in ("__name__", "__qualname__"):
            return base.name.split(".")[-1]
        if isinstance(base, Builtin):
            return Builtin(base.name + "." + attr)
        if isinstance(base, (Bound, Closure)) and attr in ("cache_clear", "cache_info"):
            node = (base.fn if isinstance(base, Bound) else base).node

            def _clear(it, a, k, node=node):
                it.__dict__.setdefault("memo", {}).pop(id(node), None)
                return None
            return PyCallable(_clear)
        if base is None or isinstance(base, (int, bool)) and attr not in ("real", "imag", "numerator", "denominator", "bit_length", "is_integer"):
            raise PyRaise("AttributeError", node, f"'{type(base).__name__}' object has no attribute '{attr}'")
        if isinstance(base, Builtin) is False and isinstance(base, int) and attr in ("real", "numerator"):
            return base
        raise Undecided(f"attribute {attr} of {type(base).__name__}")

    def container_method(self, b, at, a, k):
        if at == "__contains__":
            return self.contains(b, a[0])
        if at == "__len__":
            return len([x for x in b if x != "__default_factory__"]) if isinstance(b, dict) else len(b)
        if at == "__getitem__":
            return self.eval(ast.Subscript(value=ast.Name(id="__o", ctx=ast.Load()), slice=ast.Name(id="__k", ctx=ast.Load()), ctx=ast.Load()), {"__o": b, "__k": a[0]})
        if at == "__iter__":
            return IterObj(self.iterate(b))
        if isinstance(b, list):
            if at == "append":
                b.append(a[0]); return None
            if at == "extend":
                b.extend(self.iterate(a[0])); return None
            if at == "pop":
                try:
                    return b.pop(*[_idx(x) for x in a])
                except IndexError:
                    raise PyRaise("IndexError")
            if at == "popleft":
                if not b:
                    raise PyRaise("IndexError")
                return b.pop(0)
            if at == "appendleft":
                b.insert(0, a[0]); return None
            if at == "insert":
                b.insert(_idx(a[0]), a[1]); return None
            if at == "index":
                for i, x in enumerate(b):
                    if self.equal(x, a[0]) is True:
                        return i
                raise PyRaise("ValueError")
            if at == "copy":
                return list(b)
            if at == "reverse":
                b.reverse(); return None
            if at == "remove":
                for i, x in enumerate(b):
                    if self.equal(x, a[0]) is True:
                        del b[i]
                        return None
                raise PyRaise("ValueError")
            if at == "count":
                return sum(1 for x in b if self.equal(x, a[0]) is True)
            if at == "clear":
                b.clear(); return None
            if at == "sort":
                new = self.call_builtin("sorted", [list(b)], dict(k))
                b[:] = new
                return None
        if isinstance(b, tuple):
            if at == "index":
                for i, x in enumerate(b):
                    if self.equal(x, a[0]) is True:
                        return i
                raise PyRaise("ValueError")
            if at == "count":
                return sum(1 for x in b if self.equal(x, a[0]) is True)
        if isinstance(b, dict):
            if at == "get":
                kx = _h(a[0])
                return b.get(kx, a[1] if len(a) > 1 else None)
            if at == "keys":
                return KeysView(_unh(k) for k in b.keys() if k != "__default_factory__")
            if at == "values":
                return list(b.values())
            if at == "items":
                return [(_unh(kk), vv) for kk, vv in b.items() if kk != "__default_factory__"]
            if at == "update":
                if a:
                    src = a[0]
                    if isinstance(src, dict):
                        b.update(src)
                    else:
                        for kk, vv in self.iterate(src):
                            b[_h(kk)] = vv
                for kk, vv in k.items():
                    b[kk] = vv
                return None
            if at == "popitem":
                if not b:
                    raise PyRaise("KeyError")
                kk, vv = b.popitem()
                return (_unh(kk), vv)
            if at == "pop":
                if _h(a[0]) in b:
                    return b.pop(_h(a[0]))
                if len(a) > 1:
                    return a[1]
                raise PyRaise("KeyError")
            if at == "setdefault":
                return b.setdefault(_h(a[0]), a[1] if len(a) > 1 else None)
            if at == "copy":
                return dict(b)
            if at == "clear":
                b.clear(); return None
        if isinstance(b, (set, frozenset)):
            if at in ("union", "intersection", "difference", "symmetric_difference"):
                return getattr(b, at)(*[set(_h(y) for y in self.iterate(x)) for x in a])
            if at in ("issubset", "issuperset", "isdisjoint"):
                return getattr(b, at)(set(_h(y) for y in self.iterate(a[0])))
            if isinstance(b, set):
                if at == "add":
                    b.add(_h(a[0])); return None
                if at == "discard":
                    b.discard(_h(a[0])); return None
                if at == "remove":
                    if _h(a[0]) not in b:
                        raise PyRaise("KeyError")
                    b.remove(_h(a[0])); return None
                if at == "update":
                    for x in a:
                        b.update(_h(y) for y in self.iterate(x))
                    return None
                if at == "clear":
                    b.clear(); return None
                if at == "copy":
                    return set(b)
        raise Undecided(f"method {at} on {type(b).__name__}")

    def e_Subscript(self, n, env):
        base = self.eval(n.value, env)
        if isinstance(n.slice, ast.Slice):
            lo = self.eval(n.slice.lower, env) if n.slice.lower else None
            hi = self.eval(n.slice.upper, env) if n.slice.upper else None
            st = self.eval(n.slice.step, env) if n.slice.step else None
            if isinstance(base, Rec) and self.is_namedtuple(base.cls):
                base = base.astuple()
            if isinstance(base, Ext):
                return base.sym_getitem(self, slice(lo, hi, st))
            if isinstance(base, (tuple, list, str, range)):
                return base[_idx(lo) if lo is not None else None:_idx(hi) if hi is not None else None:
                            _idx(st) if st is not None else None]
            if isinstance(base, Unknown):
                return base
            raise Undecided("slice of non-sequence")
        k = self.eval(n.slice, env)
        if isinstance(base, Rec) and self.is_namedtuple(base.cls):
            base = base.astuple()
        if isinstance(base, Ext):
            return base.sym_getitem(self, k)
        if isinstance(base, Unknown) or isinstance(k, Unknown):
            return Unknown("subscript of unknown")
        if isinstance(base, (tuple, list, str, range)):
            try:
                return base[_idx(k)]
            except IndexError:
                raise PyRaise("IndexError", n)
        if isinstance(base, dict):
            kk = _h(k)
            if kk in base:
                return base[kk]
            if "__default_factory__" in base:
                fac = base["__default_factory__"]
                v = self.call(fac, [], {})
                base[kk] = v
                return v
            raise PyRaise("KeyError", n, repr(k))
        raise Undecided(f"subscript of {type(base).__name__}")

    def e_Starred(self, n, env):
        raise Undecided("bare starred")

    def _comp(self, n, env, emit):
        def rec(i, env2):
            if i == len(n.generators):
                emit(env2)
                return
            g = n.generators[i]
            for item in self.iterate(self.eval(g.iter, env2)):
                e3 = {"__parent__": env2}
                self.assign(g.target, item, e3)
                if all(self.decide(self.eval(c, e3)) for c in g.ifs):
                    rec(i + 1, e3)

        rec(0, {"__parent__": env})

    def e_ListComp(self, n, env):
        out = []
        self._comp(n, env, lambda e: out.append(self.eval(n.elt, e)))
        return out

    def _comp_lazy(self, n, env):
        """Python generator over the element values of a comprehension, evaluated on demand."""
        def rec(i, env2):
            if i == len(n.generators):
                yield self.eval(n.elt, env2)
                return
            g = n.generators[i]
            for item in self.iter_lazy(self.eval(g.iter, env2)):
                e3 = {"__parent__": env2}
                self.assign(g.target, item, e3)
                if all(self.decide(self.eval(c, e3)) for c in g.ifs):
                    yield from rec(i + 1, e3)

        yield from rec(0, {"__parent__": env})

    def e_GeneratorExp(self, n, env):
        return LazyGen(self._comp_lazy(n, env))

    def iter_lazy(self, v):
        """Items of v one at a time: a generator expression is advanced only as far as it is consumed."""
        if isinstance(v, LazyGen):
            return v.pull()
        if isinstance(v, IterObj):
            def _rest(o=v):
                while o.pos < len(o.items):
                    o.pos += 1
                    yield o.items[o.pos - 1]
            return _rest()
        return iter(self.iterate(v))

    def e_SetComp(self, n, env):
        return set(_h(x) for x in self.e_ListComp(n, env))

    def e_DictComp(self, n, env):
        d = {}
        self._comp(n, env, lambda e: d.__setitem__(_h(self.eval(n.key, e)), self.eval(n.value, e)))
        return d

    def e_Yield(self, n, env):
        self._yield_list(env).append(self.eval(n.value, env) if n.value else None)
        return None

    def e_YieldFrom(self, n, env):
        self._yield_list(env).extend(self.iterate(self.eval(n.value, env)))
        return None

    def _yield_list(self, env):
        e = env
        while e is not None:
            if "__yield__" in e:
                return e["__yield__"]
            e = e.get("__parent__")
        raise Undecided("yield outside generator")

    def e_Call(self, n, env):
        f = self.eval(n.func, env)
        args = self._elts(n.args, env)
        kwargs = {}
        for k in n.keywords:
            if k.arg is None:
                kwargs.update(self.eval(k.value, env))
            else:
                kwargs[k.arg] = self.eval(k.value, env)
        # zero-arg super()
        if isinstance(f, Builtin) and f.name == "super":
            return self._super(env)
        return self.call(f, args, kwargs, n)

    def _super(self, env):
        e = env
        fnode = None
        while e is not None:
            if "__func__" in e and getattr(e["__func__"], "_class", None) is not None:
                fnode = e["__func__"]
                break
            e = e.get("__parent__")
        if fnode is None:
            raise Undecided("super() outside a method")
        cls_node = fnode._class
        selfname = fnode.args.args[0].arg
        selfv = self.lookup(selfname, e)
        start = selfv.cls if isinstance(selfv, Rec) else selfv if isinstance(selfv, ClassRef) else None
        if start is None:
            raise Undecided("super() receiver")
        mro = self.class_mro(start)
        idx = next((i for i, (m, cd) in enumerate(mro) if cd is cls_node), None)
        if idx is None:
            raise Undecided("super(): defining class not in the MRO of the receiver")
        rest = mro[idx + 1:]
        interp = self

        class SuperProxy(Ext):
            def sym_getattr(self_, it, attr):
                for m, cd in rest:
                    for st in cd.body:
                        if isinstance(st, ast.FunctionDef) and st.name == attr:
                            return Bound(selfv, Closure(m, st, None, f"{cd.name}.{attr}"))
                raise Undecided(f"super().{attr} not found")

        return SuperProxy()

    # ------------------------------------------------------------------ builtins
    def iterate(self, v):
        if isinstance(v, LazyGen):
            import itertools as _it
            out = list(_it.islice(v.pull(), 200001))
            if len(out) > 200000:
                raise Undecided("an unbounded iterator is materialised")
            return out
        if isinstance(v, IterObj):
            rest = v.items[v.pos:]
            v.pos = len(v.items)
            return rest
        if isinstance(v, Rec) and self.is_namedtuple(v.cls):
            return list(v.astuple())
        if isinstance(v, Rec) and self.find_method(v.cls, "__iter__"):
            return self.iterate(self.rec_op(v, "__iter__", []))
        if isinstance(v, Ext):
            return v.sym_iter(self)
        if isinstance(v, (tuple, list)):
            return list(v)
        if isinstance(v, (frozenset, set)):
            # hash order is not defined by the language: a fixed order, reversible to probe order-dependence
            return sorted(v, key=repr, reverse=bool(getattr(self, "set_order_reversed", False)))
        if isinstance(v, dict):
            return [_unh(k) for k in v.keys() if k != "__default_factory__"]
        if isinstance(v, str):
            return list(v)
        if isinstance(v, range):
            return list(v)
        if v is None or isinstance(v, (bool, int, float, Fraction)):
            raise PyRaise("TypeError", None, f"{type(v).__name__} object is not iterable")
        raise Undecided(f"iteration over {v!r}")

    _KW_OK = {"sorted": {"key", "reverse"}, "min": {"key", "default"}, "max": {"key", "default"}, "enumerate": {"start"}, "zip": {"strict"}, "dict": None,
              "round": {"ndigits"}, "int": {"base"}, "sum": {"start"}, "itertools.zip_longest": {"fillvalue"}, "itertools.product": {"repeat"},
              "dataclasses.replace": None, "print": None, "math.isclose": {"rel_tol", "abs_tol"}, "operator.methodcaller": None, "dataclasses.field": None,
              "dataclasses.dataclass": None, "typing.NamedTuple": None, "copy.deepcopy": {"memo"}, "str": {"encoding", "errors"}, "dataclasses.asdict": {"dict_factory"}}

    def call_builtin(self, name, args, kwargs, node=None):
        a = args
        if kwargs and not (name == "open" and "open" in self.external):
            ok = self._KW_OK.get(name, set()) if name in self._KW_OK else (None if name.split(".")[0] in ("list", "dict", "set", "str", "tuple") else set())
            if ok is not None and not set(kwargs) <= ok:
                raise Undecided(f"keyword argument(s) {sorted(set(kwargs) - ok)} of {name} are not modelled")
        if name == "round" and "ndigits" in kwargs:
            a = list(a) + [kwargs["ndigits"]]
        if name == "int" and "base" in kwargs:
            a = list(a) + [kwargs["base"]]
        if name == "sum" and "start" in kwargs:
            a = list(a) + [kwargs["start"]]
        if name.startswith("math."):
            fn = name[5:]
            if any(isinstance(x, Unknown) for x in a):
                return Unknown("math on unknown")
            if fn == "hypot":
                return fn_atom("sqrt", to_rf(a[0]) * to_rf(a[0]) + to_rf(a[1]) * to_rf(a[1]))
            if fn == "fabs":
                return simplify_num(fn_atom("abs", a[0]))
            if fn == "isfinite":
                return Cond("isfinite", (a[0],)) if isinstance(simplify_num(a[0]), RF) else True
            if fn == "isclose":
                x, y = simplify_num(a[0]), simplify_num(a[1])
                if not isinstance(x, RF) and not isinstance(y, RF):
                    import math
                    return math.isclose(float(x), float(y), **{kk: float(vv) for kk, vv in kwargs.items()})
                if to_rf(x).equals(to_rf(y)):
                    return True
                return Cond("isclose", (x, y))
            if fn in ("ceil", "floor", "trunc"):
                x = simplify_num(a[0])
                if isinstance(x, RF):
                    return fn_atom(fn, x)
                import math
                return getattr(math, fn)(x)
            if fn == "copysign":
                x, y = simplify_num(a[0]), simplify_num(a[1])
                if not isinstance(x, RF) and not isinstance(y, RF):
                    return abs(x) if y >= 0 else -abs(x)
                return fn_atom("copysign", x, y)
            return simplify_num(fn_atom(fn, *a))
        if name == "len":
            v = a[0]
            if isinstance(v, Ext) and hasattr(v, "sym_len"):
                return v.sym_len()
            if isinstance(v, Rec) and self.is_namedtuple(v.cls):
                return len(v.f)
            if isinstance(v, Rec):
                return self.rec_op(v, "__len__", [])
            if isinstance(v, Unknown):
                return v
            if isinstance(v, LazyGen):
                raise PyRaise("TypeError", node, "object of type 'generator' has no len()")
            return len(v)
        if name == "range":
            return range(*[_idx(x) for x in a])
        if name == "zip":
            if kwargs.get("strict"):
                seqs = [self.iterate(x) for x in a]
                if len({len(q) for q in seqs}) > 1:
                    raise PyRaise("ValueError", node, "zip() arguments have different lengths")
                return list(zip(*seqs))
            return LazyGen(zip(*[self.iter_lazy(x) for x in a]))
        if name == "itertools.zip_longest":
            import itertools
            return list(itertools.zip_longest(*[self.iterate(x) for x in a], fillvalue=kwargs.get("fillvalue")))
        if name.startswith("operator.") and name != "operator.matmul":
            op = name[9:]
            binops = {"add": ast.Add, "sub": ast.Sub, "mul": ast.Mult, "truediv": ast.Div}
            if op in binops:
                return self.binop(binops[op](), a[0], a[1])
            if op == "neg":
                return self.binop(ast.Sub(), 0, a[0])
            cmps = {"eq": ast.Eq, "ne": ast.NotEq, "lt": ast.Lt, "le": ast.LtE, "gt": ast.Gt, "ge": ast.GtE}
            if op in cmps:
                return self.eval(ast.Compare(left=ast.Name(id="__a", ctx=ast.Load()), ops=[cmps[op]()], comparators=[ast.Name(id="__b", ctx=ast.Load())]), {"__a": a[0], "__b": a[1]})
            if op == "itemgetter":
                keys = list(a)
                return PyCallable(lambda i, aa, kk: i.eval(ast.Subscript(value=ast.Name(id="__o", ctx=ast.Load()), slice=ast.Name(id="__k", ctx=ast.Load()), ctx=ast.Load()), {"__o": aa[0], "__k": keys[0]}) if len(keys) == 1
                                  else tuple(i.eval(ast.Subscript(value=ast.Name(id="__o", ctx=ast.Load()), slice=ast.Name(id="__k", ctx=ast.Load()), ctx=ast.Load()), {"__o": aa[0], "__k": kx}) for kx in keys))
            if op == "attrgetter" and a and all(isinstance(x, str) for x in a):
                def _ag(i, aa, kk, names=tuple(a)):
                    def one(o, dotted):
                        for part in dotted.split("."):
                            o = i.getattr(o, part)
                        return o
                    vals = tuple(one(aa[0], nm) for nm in names)
                    return vals[0] if len(names) == 1 else vals
                return PyCallable(_ag)
            if op == "methodcaller" and a and isinstance(a[0], str):
                mname, margs, mkw = a[0], list(a[1:]), dict(kwargs)
                return PyCallable(lambda i, aa, kk: i.call(i.getattr(aa[0], mname), list(margs), dict(mkw)))
            if op in ("not_", "truth"):
                t = self.decide(a[0])
                return (not t) if op == "not_" else t
            if op in ("is_", "is_not", "contains", "getitem", "floordiv", "mod"):
                node_ = {"is_": lambda: ast.Compare(left=ast.Name(id="__a", ctx=ast.Load()), ops=[ast.Is()], comparators=[ast.Name(id="__b", ctx=ast.Load())]),
                         "is_not": lambda: ast.Compare(left=ast.Name(id="__a", ctx=ast.Load()), ops=[ast.IsNot()], comparators=[ast.Name(id="__b", ctx=ast.Load())]),
                         "contains": lambda: ast.Compare(left=ast.Name(id="__b", ctx=ast.Load()), ops=[ast.In()], comparators=[ast.Name(id="__a", ctx=ast.Load())]),
                         "getitem": lambda: ast.Subscript(value=ast.Name(id="__a", ctx=ast.Load()), slice=ast.Name(id="__b", ctx=ast.Load()), ctx=ast.Load()),
                         "floordiv": lambda: ast.BinOp(left=ast.Name(id="__a", ctx=ast.Load()), op=ast.FloorDiv(), right=ast.Name(id="__b", ctx=ast.Load())),
                         "mod": lambda: ast.BinOp(left=ast.Name(id="__a", ctx=ast.Load()), op=ast.Mod(), right=ast.Name(id="__b", ctx=ast.Load()))}[op]()
                return self.eval(node_, {"__a": a[0], "__b": a[1]})
            if op == "abs":
                return self.call_builtin("abs", [a[0]], {})
            if op == "pos":
                return a[0]
            raise Undecided(f"{name} not interpreted")
        if name in ("itertools.filterfalse", "itertools.takewhile", "itertools.dropwhile"):
            pred, items = a[0], list(self.iterate(a[1]))
            truth = lambda x: self.decide(x if pred is None else self.call(pred, [x], {}))
            if name == "itertools.filterfalse":
                return [x for x in items if not truth(x)]
            out, dropping = [], True
            for x in items:
                if name == "itertools.takewhile":
                    if not truth(x):
                        break
                    out.append(x)
                else:
                    if dropping and truth(x):
                        continue
                    dropping = False
                    out.append(x)
            return out
        if name == "itertools.starmap":
            return [self.call(a[0], list(self.iterate(x)), {}) for x in self.iterate(a[1])]
        if name == "itertools.compress":
            return [x for x, s_ in zip(self.iterate(a[0]), self.iterate(a[1])) if self.decide(s_)]
        if name == "itertools.product":
            import itertools
            return list(itertools.product(*[self.iterate(x) for x in a], repeat=_idx(kwargs.get("repeat", 1))))
        if name == "itertools.pairwise":
            items = self.iterate(a[0])
            return list(zip(items, items[1:]))
        if name == "itertools.repeat":
            import itertools as _it
            return LazyGen(_it.repeat(a[0]) if len(a) < 2 else _it.repeat(a[0], _idx(a[1])))
        if name == "itertools.accumulate":
            items = self.iterate(a[0])
            out, tot = [], None
            for i, x in enumerate(items):
                tot = x if i == 0 else (self.call(a[1], [tot, x], {}) if len(a) > 1 else self.binop(ast.Add(), tot, x))
                out.append(tot)
            return out
        if name == "itertools.chain":
            return LazyGen(item for x in a for item in self.iter_lazy(x))
        if name == "itertools.chain.from_iterable":
            return LazyGen(item for x in self.iter_lazy(a[0]) for item in self.iter_lazy(x))
        if name == "itertools.islice":
            import itertools as _it
            return LazyGen(_it.islice(self.iter_lazy(a[0]), *[None if v is None else _idx(v) for v in a[1:]]))
        if name == "iter" and len(a) == 2:
            fn_, sentinel = a
            def _until(fn_=fn_, sentinel=sentinel):
                n_ = 0
                while True:
                    v_ = self.call(fn_, [], {})
                    if self.equal(v_, sentinel) is True:
                        return
                    n_ += 1
                    if n_ > 10000:
                        raise Undecided("while loop bound exceeded")
                    yield v_
            return LazyGen(_until())
        if name == "iter":
            if isinstance(a[0], LazyGen):
                return a[0]
            return a[0] if isinstance(a[0], IterObj) else IterObj(self.iterate(a[0]))
        if name == "next":
            src = a[0]
            if isinstance(src, LazyGen):
                for item in src.pull():
                    return item
                if len(a) > 1:
                    return a[1]
                raise PyRaise("StopIteration", node)
            if not isinstance(src, IterObj):
                # a generator expression (evaluated eagerly to a list): sound for a single next() on it
                if not isinstance(src, (list, tuple)):
                    raise PyRaise("TypeError", node, "next() of a non-iterator")
                seen = self.__dict__.setdefault("_nexted", [])
                if len(src) and any(x is src for x in seen):
                    raise Undecided("repeated next() on one generator")
                seen.append(src)
                src = IterObj(src)
            if src.pos < len(src.items):
                src.pos += 1
                return src.items[src.pos - 1]
            if len(a) > 1:
                return a[1]
            raise PyRaise("StopIteration", node)
        if name == "map":
            srcs = [self.iter_lazy(x) for x in a[1:]]
            fn_ = a[0]
            return LazyGen(self.call(fn_, list(xs), {}) for xs in zip(*srcs))
        if name == "filter":
            src, pred = self.iter_lazy(a[1]), a[0]
            return LazyGen(x for x in src if self.decide(x if pred is None else self.call(pred, [x], {})))
        if name == "enumerate":
            start = _idx(kwargs["start"]) if "start" in kwargs else (_idx(a[1]) if len(a) > 1 else 0)
            return LazyGen(enumerate(self.iter_lazy(a[0]), start))
        if name == "open" and "open" in self.external:
            return self.external["open"](self, list(a), dict(kwargs))
        if name == "object":
            return Rec(ClassRef("builtins", "object"), {}, mutable=True)
        if name == "callable":
            return isinstance(a[0], (Closure, Builtin, PyCallable, ClassRef)) or (isinstance(a[0], Rec) and bool(self.find_method(a[0].cls, "__call__")))
        if name == "repr":
            if isinstance(a[0], (str, int, bool)) or a[0] is None:
                return repr(a[0])
            if isinstance(a[0], (float, Fraction)):
                return repr(float(a[0]))
            return SymStr(f"{{{a[0]!r}!r}}")
        if name.split(".")[0] in ("list", "dict", "set", "tuple", "frozenset", "str", "deque") and name.count(".") == 1 and name != "dict.fromkeys" and a:
            # unbound method of a builtin type called with the receiver first: list.extend(xs, ys), str.lower(s), dict.get(d, k)
            kind, meth = name.split(".")
            recv = a[0]
            pytypes = {"list": list, "deque": list, "dict": dict, "set": set, "tuple": tuple, "frozenset": frozenset, "str": str}
            if isinstance(recv, pytypes[kind]):
                if kind == "str":
                    return _str_method(recv, meth, list(a[1:]), kwargs)
                return self.container_method(recv, meth, list(a[1:]), kwargs)
        if name == "dict.fromkeys":
            return {_h(x): (a[1] if len(a) > 1 else None) for x in self.iterate(a[0])}
        if name == "divmod":
            if isinstance(a[0], int) and isinstance(a[1], int):
                if a[1] == 0:
                    raise PyRaise("ZeroDivisionError", node, "integer division or modulo by zero")
                return divmod(a[0], a[1])
            x_, y_ = simplify_num(a[0]) if is_num(a[0]) else a[0], simplify_num(a[1]) if is_num(a[1]) else a[1]
            if isinstance(x_, (int, Fraction)) and isinstance(y_, (int, Fraction)) and not isinstance(x_, bool) and not isinstance(y_, bool):
                if y_ == 0:
                    raise PyRaise("ZeroDivisionError", node, "float divmod()")
                import math as _m
                q_ = _m.floor(Fraction(x_) / Fraction(y_))
                r_ = Fraction(x_) - Fraction(y_) * q_
                return (q_, int(r_) if r_.denominator == 1 else r_)
            raise Undecided("divmod on non-integers")
        if name == "reversed":
            return list(reversed(self.iterate(a[0])))
        if name == "sorted":
            items = list(self.iterate(a[0]))
            keyf = kwargs.get("key")
            keys = [self.call(keyf, [x], {}) for x in items] if keyf is not None else items
            if _has_sym(keys):
                raise Undecided("sorted on symbolic")
            try:
                order = sorted(range(len(items)), key=lambda i: keys[i], reverse=bool(kwargs.get("reverse", False)))
            except TypeError:
                raise Undecided("sorted: keys not comparable in the evaluator")
            return [items[i] for i in order]
        if name == "list":
            return list(self.iterate(a[0])) if a else []
        if name == "tuple":
            return tuple(self.iterate(a[0])) if a else ()
        if name == "set":
            return set(_h(x) for x in self.iterate(a[0])) if a else set()
        if name == "frozenset":
            return frozenset(_h(x) for x in self.iterate(a[0])) if a else frozenset()
        if name == "dict":
            d = {}
            if a:
                if isinstance(a[0], dict):
                    d = dict(a[0])
                else:
                    for pair in self.iterate(a[0]):
                        kk, vv = self.iterate(pair) if not isinstance(pair, (tuple, list)) else pair
                        d[_h(kk)] = vv
            d.update(kwargs)
            return d
        if name in ("min", "max"):
            items = list(self.iterate(a[0])) if len(a) == 1 else list(a)
            if any(isinstance(x, Unknown) for x in items):
                return Unknown("min/max of unknown")
            if not items:
                if "default" in kwargs:
                    return kwargs["default"]
                raise PyRaise("ValueError", node, f"{name}() arg is an empty sequence")
            keyf = kwargs.get("key")
            keys = [self.call(keyf, [x], {}) for x in items] if keyf is not None else items
            if keyf is None and all(is_num(x) for x in items):
                return simplify_num(fn_atom(name, *items))
            if _has_sym(keys) or any(isinstance(x, Unknown) for x in keys):
                raise Undecided(f"{name} over symbolic keys")
            try:
                pick = (min if name == "min" else max)(range(len(items)), key=lambda i: keys[i])
            except TypeError:
                raise Undecided(f"{name}: keys not comparable in the evaluator")
            return items[pick]
        if name == "abs":
            if isinstance(a[0], Unknown):
                return a[0]
            return simplify_num(fn_atom("abs", a[0]))
        if name == "round":
            if isinstance(a[0], Ext) and hasattr(a[0], "sym_round"):
                return a[0].sym_round(self, a[1] if len(a) > 1 else None)
            if isinstance(a[0], Unknown):
                return a[0]
            x = simplify_num(a[0])
            if not isinstance(x, RF) and len(a) == 1:
                return round(x)
            if not isinstance(x, RF) and len(a) == 2 and isinstance(a[1], int) and not isinstance(a[1], bool):
                # exact decimal rounding (half to even) of a constant
                r = round(Fraction(x), a[1])
                return int(r) if isinstance(r, Fraction) and r.denominator == 1 else r
            return simplify_num(fn_atom("round", *a))
        if name == "float":
            x = a[0]
            if isinstance(x, Ext) and hasattr(x, "sym_float"):
                return x.sym_float(self)
            if isinstance(x, str):
                try:
                    return simplify_num(RF.of(Fraction(x))) if x.strip() else (_ for _ in ()).throw(ValueError())
                except (ValueError, ZeroDivisionError):
                    try:
                        return float(x)
                    except ValueError:
                        raise PyRaise("ValueError", node)
            if x is None or isinstance(x, (list, tuple, dict, set)):
                raise PyRaise("TypeError", node, "float() argument must be a string or a real number")
            return x
        if name in ("int", "float", "str", "bool") and not a:
            return {"int": 0, "float": 0.0, "str": "", "bool": False}[name]
        if name == "int":
            x = simplify_num(a[0]) if is_num(a[0]) else a[0]
            if isinstance(x, RF):
                return fn_atom("int", x)
            if isinstance(x, Unknown):
                return x
            if x is None or isinstance(x, (list, tuple, dict, set)):
                raise PyRaise("TypeError", node, "int() argument must be a string or a number")
            if not isinstance(x, (str, int, float, Fraction, bool)):
                raise Undecided(f"int() of {type(x).__name__}")
            try:
                return int(x, *[_idx(b) for b in a[1:]]) if isinstance(x, str) else int(x)
            except ValueError:
                raise PyRaise("ValueError", node)
        if name == "str":
            x = a[0] if a else ""
            if isinstance(x, ExcVal):
                if x.exc.args_known is not None:
                    if len(x.exc.args_known) == 0:
                        return ""
                    if len(x.exc.args_known) == 1:
                        return self.call_builtin("str", [x.exc.args_known[0]], {}) if hasattr(self, "call_builtin") else str(x.exc.args_known[0])
                return SymStr(f"{{message of {x.exc.exc_type}}}") if not x.exc.msg else x.exc.msg
            if isinstance(x, (str, int)):
                return str(x)
            if isinstance(x, (float, Fraction)):
                return str(float(x))
            if isinstance(x, Ext):
                return x
            if isinstance(x, SymStr):
                return x
            return SymStr(f"{{{x!r}}}")
        if name == "bool":
            return self.decide(a[0])
        if name == "isinstance":
            return self.isinstance(a[0], a[1])
        if name == "sum":
            items = self.iterate(a[0])
            tot = a[1] if len(a) > 1 else 0
            for x in items:
                tot = self.binop(ast.Add(), tot, x)
            return tot
        if name in ("any", "all"):
            items = self.iter_lazy(a[0])
            syms = []
            for x in items:
                if isinstance(x, Cond):
                    d = self._decide_cond(x)
                    if d is None:
                        syms.append(x)
                        continue
                    x = d
                if isinstance(x, Unknown):
                    return x
                t = self.decide(x)
                if name == "any" and t:
                    return True
                if name == "all" and not t:
                    return False
            if syms:
                return syms[0] if len(syms) == 1 else Cond("or" if name == "any" else "and", tuple(syms))
            return name == "all"
        if name == "reduce":
            fn, seq = a[0], self.iterate(a[1])
            if len(a) > 2:
                acc = a[2]
            else:
                acc, seq = seq[0], seq[1:]
            for x in seq:
                acc = self.call(fn, [acc, x], {})
            return acc
        if name == "getattr":
            try:
                return self.getattr(a[0], a[1])
            except (PyRaise, Undecided):
                if len(a) > 2:
                    return a[2]
                raise
        if name == "setattr":
            if isinstance(a[0], Rec):
                a[0].f[a[1]] = a[2]
                return None
            raise Undecided("setattr")
        if name == "hasattr":
            try:
                self.getattr(a[0], a[1])
                return True
            except (PyRaise, Undecided):
                return False
        if name == "copy.copy":
            v = a[0]
            # shallow: a new object / container holding the same members (lxml elements copy deeply also under copy.copy)
            if isinstance(v, Rec) and not self.find_method(v.cls, "__copy__"):
                return Rec(v.cls, dict(v.f), mutable=v.mutable)
            if isinstance(v, list):
                return list(v)
            if isinstance(v, dict):
                return dict(v)
            if isinstance(v, set):
                return set(v)
            return self.deepcopy(v)
        if name == "copy.deepcopy":
            return self.deepcopy(a[0])
        if name == "dataclasses.replace":
            src = a[0]
            if isinstance(src, Rec) and not self.is_namedtuple(src.cls) and not self.find_method(src.cls, "__init__"):
                # replace() builds a new object through __init__ (so __post_init__ runs again); field values are passed on as they are
                names = [n for n, _ in self.class_fields(src.cls)]
                unknown = [k_ for k_ in kwargs if k_ not in names]
                if unknown:
                    raise PyRaise("TypeError", node, f"replace() got an unexpected field {unknown[0]}")
                vals = {n: src.f[n] for n in names if n in src.f}
                vals.update(kwargs)
                return self.construct(src.cls, [], vals)
            r = self.deepcopy(a[0])
            r.f.update(kwargs)
            return r
        if name == "dataclasses.astuple":
            return tuple(a[0].f.values())
        if name == "dataclasses.asdict":
            return {n: v for n, v in a[0].f.items()}
        if name == "dataclasses.is_dataclass":
            return isinstance(a[0], Rec) or isinstance(a[0], ClassRef)
        if name == "dataclasses.fields":
            c = a[0].cls if isinstance(a[0], Rec) else a[0]
            out = []
            for n, (m, dn) in self.class_fields(c):
                try:
                    dv = self.eval(dn, {"__mod__": m}) if dn is not None else Builtin("dataclasses.MISSING")
                except (Undecided, PyRaise):
                    dv = Unknown("default")
                ann = self.class_field_annotations(c).get(n, "")
                ty = Builtin(ann) if ann in ("float", "int", "str", "bool") else Unknown(f"type {ann}")
                out.append(Rec(ClassRef("dataclasses", "Field"), {"name": n, "default": dv, "type": ty}))
            return out
        if name == "operator.matmul":
            return self.binop(ast.MatMult(), a[0], a[1])
        if name == "pow":
            return self.binop(ast.Pow(), a[0], a[1])
        if name == "print":
            return None
        if name == "NotImplemented":
            return Builtin("NotImplemented")
        if name == "type":
            if isinstance(a[0], Rec):
                return a[0].cls
            if isinstance(a[0], ExcVal):
                return Builtin(a[0].exc.exc_type)
            for py, nm in ((bool, "bool"), (int, "int"), (str, "str"), ((float, Fraction), "float"), (list, "list"), (tuple, "tuple"), (dict, "dict"), (set, "set"), (frozenset, "frozenset"), (type(None), "NoneType")):
                if isinstance(a[0], py):
                    return Builtin(nm)
            return Builtin("type:" + type(a[0]).__name__)
        raise Undecided(f"builtin {name} not interpreted")

    def deepcopy(self, v):
        if isinstance(v, Ext) and hasattr(v, "sym_copy"):
            return v.sym_copy()
        if isinstance(v, set):
            return set(v)
        if isinstance(v, Rec):
            return Rec(v.cls, {k: self.deepcopy(x) for k, x in v.f.items()}, v.mutable)
        if isinstance(v, list):
            return [self.deepcopy(x) for x in v]
        if isinstance(v, dict):
            return {k: self.deepcopy(x) for k, x in v.items()}
        if isinstance(v, tuple):
            return tuple(self.deepcopy(x) for x in v)
        return v

    def isinstance(self, v, t):
        if isinstance(t, tuple):
            names = {getattr(x, "name", None) for x in t}
            if {"int", "float"} <= names and is_num(v) and not isinstance(v, bool):
                return True
            res = [self.isinstance(v, x) for x in t]
            if any(r is True for r in res):
                return True
            if all(r is False for r in res):
                return False
            raise Undecided("isinstance undecided")
        if isinstance(v, Builtin):
            return False
        if isinstance(v, Unknown):
            return Unknown("isinstance of unknown")
        if isinstance(v, Ext) and hasattr(v, "sym_isinstance"):
            return v.sym_isinstance(self, t)
        if isinstance(v, (Ext, SymStr)) and isinstance(t, Builtin) and t.name in ("float", "int", "str", "tuple", "list", "dict", "bool"):
            return t.name == "str" and (isinstance(v, SymStr) or bool(getattr(v, "stands_for_str", False)))
        if isinstance(t, ClassRef):
            if isinstance(v, Rec):
                return any((m.name, cd.name) == (t.module, t.name) for m, cd in self.class_mro(v.cls))
            return False
        if isinstance(t, Builtin):
            nm = t.name
            if isinstance(v, Rec):
                return nm == "tuple" and self.is_namedtuple(v.cls)
            if nm == "float":
                if isinstance(v, (float, Fraction)):
                    return True
                if isinstance(v, (int, str, bool, tuple, list)) or v is None:
                    return False
                if isinstance(v, (RF, Fraction)):
                    return Cond("isfloat", (v,))
            if nm == "int":
                if isinstance(v, (RF, Fraction)):
                    return Cond("isint", (v,))
                return isinstance(v, int)
            if nm == "str":
                return isinstance(v, str)
            if nm == "bytes":
                return isinstance(v, bytes)
            if nm in ("tuple", "list", "dict"):
                return isinstance(v, {"tuple": tuple, "list": list, "dict": dict}[nm])
        if isinstance(t, Unknown) and "Number" in t.why:
            return is_num(v)
        raise Undecided(f"isinstance({v!r}, {t!r})")


class PyCallable:
    def __init__(self, fn):
        self.fn = fn


class ConstMatch:
    """Result of a regex match on literal text (constant folding of a pure library call)."""

    def __init__(self, m):
        self.m = m


def call_name_of(node) -> str:
    """Dotted name of the callee of a call expression ('' when it is not a plain name/attribute chain)."""
    if not isinstance(node, ast.Call):
        return ""
    try:
        return unparse(node.func)
    except Exception:
        return ""


class ExcVal:
    """The exception object bound by `except E as name`."""

    def __init__(self, exc: "PyRaise"):
        self.exc = exc

    def __repr__(self):
        return f"{self.exc.exc_type}({self.exc.msg!r})"


class Ext:
    """Extension value supplied by a rule (e.g. path data modelled as a command list instead of a string).
    Subclasses override the sym_* hooks they support."""

    def sym_truth(self, it):
        raise Undecided(f"truth of {type(self).__name__}")

    def sym_getitem(self, it, k):
        raise Undecided(f"subscript of {type(self).__name__}")

    def sym_iter(self, it):
        raise Undecided(f"iteration of {type(self).__name__}")

    def sym_add(self, it, other, reflected):
        raise Undecided(f"+ on {type(self).__name__}")

    def sym_eq(self, it, other):
        return self is other

    def sym_getattr(self, it, attr):
        raise Undecided(f"attribute {attr} of {type(self).__name__}")


class NullContext(Ext):
    """contextlib.nullcontext(x) as a value: entering it gives x, leaving it does nothing."""

    def __init__(self, value):
        self.value = value

    def sym_copy(self):
        return self

    def sym_truth(self, it):
        return True

    def sym_enter(self, it):
        return self.value


class SuppressContext(Ext):
    """contextlib.suppress(E...) as a value."""

    def __init__(self, names):
        self.names = tuple(names)

    def sym_copy(self):
        return self

    def sym_truth(self, it):
        return True


class ConstRegex(Ext):
    """re.compile(<literal>): methods are folded on literal arguments."""

    def __init__(self, args):
        self.args = tuple(args)

    def sym_copy(self):
        return self

    def sym_truth(self, it):
        return True

    def sym_getattr(self, it, attr):
        if attr in ("split", "match", "fullmatch", "sub", "findall", "finditer", "search"):
            import re as _re_mod

            def f(i, a, k):
                if all(isinstance(x, (str, int)) for x in a) and not k:
                    r = getattr(_re_mod.compile(*self.args), attr)(*a)
                    if attr in ("match", "fullmatch", "search"):
                        return None if r is None else ConstMatch(r)
                    if attr == "finditer":
                        return [ConstMatch(m) for m in r]
                    return r
                raise Undecided(f"pattern.{attr} on symbolic text")
            return PyCallable(f)
        if attr == "pattern":
            return self.args[0]
        raise Undecided(f"compiled pattern attribute {attr}")


class _Missing:
    pass


_MISSING = _Missing()

BUILTINS = {"object", "repr", "callable", "divmod", "len", "range", "zip", "enumerate", "reversed", "sorted", "list", "tuple", "set", "frozenset", "dict", "min",
            "max", "abs", "round", "float", "int", "str", "bool", "isinstance", "sum", "any", "all", "getattr", "setattr",
            "hasattr", "print", "pow", "type", "super", "iter", "next", "map", "filter", "bytes", "open", "repr", "divmod", "callable"}


def _walk_own(func):
    stack = list(func.body)
    while stack:
        n = stack.pop()
        yield n
        if isinstance(n, (ast.FunctionDef, ast.Lambda, ast.ClassDef)):
            continue
        stack.extend(ast.iter_child_nodes(n))


def _load(target):
    import copy as _c
    t = _c.copy(target)
    t.ctx = ast.Load()
    return t


def _idx(k):
    if isinstance(k, bool):
        return int(k)
    if isinstance(k, int):
        return k
    if isinstance(k, Fraction) and k.denominator == 1:
        return int(k)
    if isinstance(k, RF) and k.is_const() and k.const_value().denominator == 1:
        return int(k.const_value())
    if k is None:
        return None
    raise Undecided(f"symbolic index {k!r}")


def _h(x):
    if isinstance(x, (list, tuple)) and not hasattr(x, "_fields"):
        return tuple(_h(i) for i in x)
    if isinstance(x, RF):
        v = simplify_num(x)
        return v if not isinstance(v, RF) else repr(v)
    if isinstance(x, Ext) and hasattr(x, "sym_hashkey"):
        k = x.sym_hashkey()
        _UNHASH.setdefault(k, x)
        return k
    return x


_UNHASH: Dict[Any, Any] = {}


def _unh(k):
    """The value a dictionary key stands for (keys of extension values are stored by their value identity)."""
    try:
        return _UNHASH.get(k, k)
    except TypeError:
        return k


def _has_sym(x):
    if isinstance(x, (RF, Cond, Unknown, SymStr)):
        return True
    if isinstance(x, (tuple, list)):
        return any(_has_sym(i) for i in x)
    return False


def _is_integer(b):
    b = simplify_num(b)
    if isinstance(b, RF):
        return Cond("is_integer", (b,))
    if isinstance(b, Fraction):
        return b.denominator == 1
    if isinstance(b, float):
        return b.is_integer()
    return True


def _str_method(b: str, at: str, a, kw=None):
    if at in ("upper", "lower", "strip", "islower", "isupper", "startswith", "endswith", "replace", "split", "count",
              "partition", "join", "format", "lstrip", "rstrip", "isdigit", "find", "encode", "decode", "splitlines", "title", "capitalize", "zfill", "rsplit", "index", "rfind",
              "rpartition", "isalpha", "isalnum", "isspace", "isnumeric", "isdecimal", "casefold", "swapcase", "center", "ljust", "rjust", "removeprefix", "removesuffix", "expandtabs", "isidentifier", "istitle"):
        if kw and (any(_has_sym(x) or isinstance(x, Unknown) for x in kw.values()) or at == "join"):
            raise Undecided("string method with symbolic argument")
        if any(_has_sym(x) or isinstance(x, Unknown) for x in a) and not (at == "join" and any(hasattr(x, "sym_join") for x in a[0])):
            raise Undecided("string method with symbolic argument")
        if at == "join":
            items = list(a[0])
            if any(hasattr(x, "sym_join") for x in items):
                first = next(x for x in items if hasattr(x, "sym_join"))
                return first.sym_join(b, items)
            return b.join(items)
        try:
            return getattr(b, at)(*a, **(kw or {}))
        except (ValueError, IndexError, KeyError, TypeError) as e:
            raise PyRaise(type(e).__name__, None, str(e))
    raise Undecided(f"str.{at}")


def _exc_name(exc) -> str:
    if exc is None:
        return "reraise"
    if isinstance(exc, ast.Call):
        exc = exc.func
    if isinstance(exc, ast.Name):
        return exc.id
    if isinstance(exc, ast.Attribute):
        return exc.attr
    return "Exception"


def _handler_names(h: ast.ExceptHandler):
    if h.type is None:
        return []
    if isinstance(h.type, ast.Tuple):
        return [_exc_name(e) for e in h.type.elts]
    return [_exc_name(h.type)]


@dataclass
class Outcome:
    decisions: List[Tuple[Any, bool]]
    value: Any = None
    raised: Optional[str] = None
    raise_node: Any = None
    undecided: Optional[str] = None
    assumptions: List[str] = field(default_factory=list)
    raise_msg: str = ""
    args: Any = None
    raw: Any = None  # the decision vector as taken (before normalisation), for replay

    def cond_text(self):
        return " & ".join((repr(c) if v else f"not({c!r})") for c, v in self.decisions) or "true"

    def equalities(self) -> Dict[str, Any]:
        """Symbol -> constant bindings implied by the conditions decided on this path: `x == c` taken true,
        `not (x != c)`, and `abs(x) <= tiny` taken true (an exact-arithmetic reading of almost_equal(x, 0))."""
        out: Dict[str, Any] = {}

        def pos(c):
            if not isinstance(c, Cond):
                return
            if c.op == "and":
                for a in c.args:
                    pos(a)
            elif c.op == "not":
                neg(c.args[0])
            elif c.op == "==":
                a, b = c.args
                if is_num(a) and is_num(b):
                    diff = to_rf(a) - to_rf(b)
                    if diff.d.is_const():
                        terms = diff.n.canon().t
                        syms = [m for m in terms if m != ()]
                        if len(syms) == 1 and len(syms[0]) == 1 and syms[0][0][1] == 1 and isinstance(syms[0][0][0], str):
                            # k*x + c0 == 0  =>  x = -c0/k
                            out[syms[0][0][0]] = -terms.get((), Fraction(0)) / terms[syms[0]]
            elif c.op == "<=":
                a, b = c.args
                if is_num(a) and is_num(b) and to_rf(b).is_const() and abs(to_rf(b).const_value()) < Fraction(1, 1000):
                    ra = to_rf(a)
                    if ra.d.is_const() and len(ra.n.t) == 1:
                        (m, co), = ra.n.t.items()
                        if len(m) == 1 and isinstance(m[0][0], tuple) and m[0][0][0] == "abs" and m[0][1] == 1:
                            inner = m[0][0][1]
                            if isinstance(inner, str) and inner.isidentifier():
                                out[inner] = 0

        def neg(c):
            if isinstance(c, Cond) and c.op == "or":
                for a in c.args:
                    neg(a)
            elif isinstance(c, Cond) and c.op == "not":
                pos(c.args[0])
            elif isinstance(c, Cond) and c.op == "!=":
                pos(Cond("==", c.args))

        for c, v in self.decisions:
            (pos if v else neg)(c)
        return out


def normalise_decisions(taken):
    """Decisions in atomic form: `not` unwrapped (truth toggled), a conjunction decided true / a disjunction decided
    false split into its members.  What a path decided does not depend on how the condition was spelled."""
    out = []

    def add(c, v):
        if isinstance(c, Cond) and c.op == "not" and len(c.args) == 1:
            add(c.args[0], not v)
        elif isinstance(c, Cond) and c.op == "and" and v:
            for x in c.args:
                add(x, True)
        elif isinstance(c, Cond) and c.op == "or" and not v:
            for x in c.args:
                add(x, False)
        else:
            out.append((c, v))

    for c, v in taken:
        add(c, v)
    return out


def explore(repo: Repo, fn, args: list, kwargs: Optional[dict] = None, max_paths=256,
            setup: Optional[Callable[[Interp], None]] = None, fresh_args: Optional[Callable[[], tuple]] = None) -> List[Outcome]:
    """Run `fn` (a Closure/Bound/ClassRef) on symbolic args along every decision vector."""
    outcomes: List[Outcome] = []
    work: List[List[bool]] = [[]]
    import os as _os, time as _time
    t_start, budget = _time.time(), float(_os.environ.get("VERIF_EXPLORE_BUDGET", "300"))
    if getattr(Interp, "_modcache_repo", None) is not repo:
        Interp._modcache = {}
        Interp._modcache_repo = repo
    while work:
        dec = work.pop()
        it = Interp(repo)
        it.decisions = dec
        if setup:
            setup(it)
        a, k = (args, kwargs or {}) if fresh_args is None else fresh_args()
        try:
            v = it.call(fn, list(a) if fresh_args is not None else list(it.deepcopy(list(a))), dict(k))
            outcomes.append(Outcome(normalise_decisions(it.taken), value=v, assumptions=list(it.assumptions), raw=[x for _, x in it.taken]))
        except NeedDecision:
            work.append(dec + [False])
            work.append(dec + [True])
        except PyRaise as e:
            outcomes.append(Outcome(normalise_decisions(it.taken), raised=e.exc_type, raise_node=e.node, assumptions=list(it.assumptions), raise_msg=str(getattr(e, 'msg', '') or ''), raw=[x for _, x in it.taken]))
        except Undecided as e:
            outcomes.append(Outcome(list(it.taken), undecided=str(e)))
        except RecursionError:
            outcomes.append(Outcome(list(it.taken), undecided="python recursion limit in the evaluator"))
        except (_Break, _Continue, _Return):
            outcomes.append(Outcome(list(it.taken), undecided="control flow escaped its construct"))
        except (TypeError, ValueError, KeyError, IndexError, AttributeError, ZeroDivisionError) as e:
            import traceback as _tb
            where = _tb.extract_tb(e.__traceback__)[-1]
            outcomes.append(Outcome(list(it.taken), undecided=f"evaluator limitation ({type(e).__name__}: {e} at {where.name}:{where.lineno})"))
        if outcomes and outcomes[-1].args is None and fresh_args is not None:
            outcomes[-1].args = a
        if len(outcomes) + len(work) > max_paths:
            raise AnalysisError(f"symbolic exploration exceeded {max_paths} paths")
        if work and _time.time() - t_start > budget:
            raise AnalysisError(f"symbolic exploration exceeded its time budget ({int(budget)} s, {len(outcomes)} paths done, {len(work)} pending)")
    return outcomes


def closure_of(repo: Repo, modname: str, qualname: str) -> Closure:
    mod = repo[modname]
    return Closure(mod, mod.func(qualname), None, qualname)


def method_of(repo: Repo, modname: str, clsname: str, meth: str) -> Closure:
    mod = repo[modname]
    return Closure(mod, mod.func(f"{clsname}.{meth}"), None, f"{clsname}.{meth}")


def sym_rec(it_repo: Repo, modname: str, clsname: str, prefix: str, fields: Optional[List[str]] = None) -> Rec:
    it = Interp(it_repo)
    c = ClassRef(modname, clsname)
    names = fields or [n for n, _ in it.class_fields(c)]
    return Rec(c, {n: RF.sym(f"{prefix}{n}") for n in names}, mutable=not it.is_namedtuple(c))

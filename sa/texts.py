"""Per property: the deciding technique, what a pass establishes, what it does not, and what is trusted.

Single source for the evidence files (explanation / assumptions) and for MANIFEST.json (tools/gen_manifest.py)."""

_AI = "abstract interpretation of the repository's source (case-splitting evaluator over ast; symbolic numbers as rational functions, abstract lxml DOM, abstract skia-pathops region algebra)"

T = {
    "C01": dict(
        technique=_AI + ": topicosvg / checkpicosvg / _simplify interpreted on schematic documents and compared with the README grammar; regular-language comparison of the gate's allowlist patterns by automata",
        explanation="The gate is interpreted on conforming and non-conforming trees generated from the README grammar (every conforming one accepted, every non-conforming "
                    "kind rejected, duplicate ids reported); the allowlist patterns it consults are compared with the grammar as regular languages and the traversal's element "
                    "paths have the /name[n] form they assume; topicosvg is interpreted end to end on a schematic document using every supported feature (symbolic numbers, "
                    "paints and geometry): it completes, the result has only defs + paths + kept groups, absolute path data in the restricted letter set, every number "
                    "rounded, no clip-path/transform/style/junk left, kept groups carry only opacity and at least two children; on unconvertible documents it raises ValueError "
                    "unless the tolerating option is given; when the engine refuses an operation (PathOpsError injected into remove_overlaps / intersection / union) the conversion ends in an "
                    "exception or still returns a conforming document (no evenodd path, no clip-path/stroke/transform left); CLI flags reach the gate under their own names; _simplify on four scenario documents marks clipped paths nonzero and "
                    "moves root presentation attributes into a wrapper instead of dropping them.",
        not_decided="conformance for document shapes outside the scenarios; finiteness of Skia's output coordinates",
        assumptions=["lxml serialisation is faithful", "the abstract DOM / XPath subset reproduces lxml for the query forms the package uses"],
    ),
    "C02": dict(
        technique=_AI + ": render lists (geometry term, accumulated affine product, clip stack, paint) of schematic documents before and after resolve_use / resolve_nested_svgs / _simplify compared with a reference written from SVG 1.1; polynomial identities for the affine algebra",
        explanation="Affine2D algebra and the transform-list parser equal the SVG matrices (rules of C11). On schematic documents with symbolic transforms: traversal contexts "
                    "accumulate own-first-then-ancestors; after resolve_use every instance renders under translate(x,y) composed after the use's transform with the use's "
                    "presentation attributes inherited - also when the target sits in the rendered tree inside a display:none container or inside a styled group (neither comes "
                    "along with the instance); after resolve_nested_svgs the content renders under the viewport mapping (viewBox, preserveAspectRatio, x/y/width/height "
                    "with parent-extent fallback), clipped to the viewport unless overflow is visible, with the nested element's presentation attributes; in _simplify every emitted "
                    "piece went through apply_transform with the accumulated transform (and apply_transform maps the geometry through the engine with exactly that affine), "
                    "pieces stay in paint order, fill piece before stroke piece.",
        not_decided="pixel equality of two renderings; Skia transforming points correctly; shape->path geometry (C09)",
        assumptions=["Skia transforms points correctly"],
    ),
    "C03": dict(
        technique=_AI + ": region terms of the clip computed by _resolve_clip_path / _simplify / clip_to_viewbox on schematic documents compared with the set expression SVG prescribes, in a normal form of the region algebra",
        explanation="The clip region term of a schematic clipPath (children with own transforms and clip-rules, <use> children, the clipPath's own transform and clip-path) equals "
                    "union(children) intersected with its own clip, under the referencing element's CTM; a child's clip stack extends its parent's and is resolved with the child's "
                    "CTM; in _simplify every piece (fill and stroke outline) is intersected with all stacked clips after stroking and transforming, the shape under its fill-rule "
                    "and every clip under its clip-rule, clip-path is removed; clip_to_viewbox pairs rules the same way; boolean-operation plumbing is C13 (re-run here). "
                    "The clip-rule in effect at the referencing element (own attribute, style, inherited from a group, on a clipped group) does not reach the clipPath's children. "
                    "clip-rule set on the clipPath element itself is not inherited by its children: known finding F10.",
        not_decided="exactness of Skia's intersection / union",
        assumptions=["Skia's set operations are exact for the fill types it is given"],
    ),
    "C04": dict(
        technique=_AI + ": _simplify, SVG._stroke, stroke_commands and svg_pathops.stroke interpreted against the abstract engine (which records every argument of Path.stroke)",
        explanation="In _simplify the outline of a stroked shape is computed from the untransformed geometry, then transformed and clipped like the fill piece, and follows it; "
                    "_stroke on symbolic paints and opacities: the stroke piece has the stroke paint as fill, opacity x stroke-opacity, nonzero rules, default stroke fields; the "
                    "fill piece keeps geometry and fill, opacity x fill-opacity; ids cleared when one shape becomes two; svg_pathops.stroke hands width, cap, join, miter limit, dash "
                    "array, dash offset to the engine each in its own slot, cap/join keywords map to the same-named enums and unknown ones raise, dash arrays: none -> [], "
                    "comma/space lists, odd length repeated; conics are converted at the tolerance derived from the view box.",
        not_decided="the outline geometry, caps/joins/dashes and the 0.25-unit stroker resolution (Skia)",
        assumptions=["skia-pathops Path.stroke(width, cap, join, miter_limit, dash_array, dash_offset) signature (0.9 API)"],
    ),
    "C05": dict(
        technique=_AI + ": inheritance handlers interpreted on the presence combinations of parent/child; traversal, styles, normalize_opacity, keep-or-flatten and the whole pipeline interpreted on schematic documents and compared with the SVG property table / a reference render list",
        explanation="Handler kinds of _INHERIT_ATTRIB_HANDLERS derived from the interpreted bodies (child wins / opacity multiplies / display:none dominates / transform composes / "
                    "clip-path accumulates / overflow) equal the SVG property table, defaults equal the initial values; the keep-or-flatten predicate (no attributes, <= 1 child, "
                    "clamped opacity 0 or 1) and its effect (a dissolved group's opacity reaches every child exactly once); style declarations overwrite attributes and the style "
                    "attribute is consumed; normalize_opacity on the none/paint combinations; traversal contexts (own attribute over inherited); end to end the paints and opacity "
                    "products of the pipeline's output equal those of the source; nested svg and root svg presentation attributes are applied, not dropped.",
        not_decided="composited colour; the `inherit` keyword and currentColor",
        assumptions=[],
    ),
    "C06": dict(
        technique=_AI + ": gradient from_element / as_user_space_units / _simplify gradient cloning / translation folding interpreted on symbolic attributes, compared as polynomial identities with SVG 1.1 chapter 13",
        explanation="from_element of both gradient classes for every subset of attributes and both gradientUnits: specification defaults, x-like values scaled by the reference width, "
                    "y-like by its height, radii by the normalised diagonal, unknown attributes rejected; as_user_space_units maps through the old gradientTransform first and then "
                    "unit square -> bounding box, units switched on that branch only; in _simplify a transformed shape with a url fill gets a fresh gradient whose transform is gradient "
                    "space first then the shape CTM, with the bbox of the untransformed shape, templates resolved first (own attribute wins, stops copied only when absent, chains in "
                    "order, copied stops lose ids); translation folding touches point pairs only and recomposes; one rounding constant.",
        not_decided="the colour at a point",
        assumptions=["with bounding-box units the shape geometry is not altered by clipping or stroking (scope of the property)"],
    ),
    "C07": dict(
        technique=_AI + ": relational - topicosvg interpreted once and twice on a schematic document, the two results compared (elements, attributes, number tokens under a rounding model)",
        explanation="The interpreted pipeline applied to its own output leaves elements and attributes unchanged; rounding is the last writer of numbers, rounds every path number and float "
                    "field, and round(round(x, n), n) = round(x, n); the gate is pure unless drop_unsupported; gradient normalisation is a fixpoint (decompose_translation of a "
                    "translation-free matrix is (identity, self)); generated ids are allocated only for constructs a converted document no longer contains. "
                    "Known finding F5: a group kept / a gradient left after remove_unpainted_shapes disappears in the second pass.",
        not_decided="byte equality through real float printing and Skia re-simplifying its own output",
        assumptions=["re-parsing a printed number yields the same float (CPython)", "lxml re-serialises attributes in the same order"],
    ),
    "C08": dict(
        technique=_AI + ": id and reference inventory of schematic documents after resolve_use / resolve_nested_svgs / _simplify / the pipeline",
        explanation="On schematic documents with shared and nested <use> targets, two levels of nested svg, gradient templates and clones, and ids colliding with generated names: no "
                    "duplicate id after any stage, ids of the originals untouched, every url(#..)/href of the output resolves, no gradient left unreferenced, the gate reports duplicate ids; the same reference facts on a document without a view box "
                    "(gradients used as fill, as stroke paint only, and by a shape that merely sits in defs; stroked shapes). "
                    "Known finding F5: orphan gradient after remove_unpainted_shapes.",
        not_decided="documents whose references are already dangling (premise of the property)",
        assumptions=["every reference in the source resolves"],
    ),
    "C09": dict(
        technique=_AI + ": path rewrites interpreted on all 20 letters, 400 ordered pairs and (thorough) 8000 triples with symbolic arguments, compared component-wise as polynomial identities with a reference interpreter of SVG 1.1 section 8.3",
        explanation="explicit_lines, expand_shorthand, absolute, relative, arcs_to_cubics (arc_to_cubic replaced by a stub that follows its dispatch contract - nothing for coincident end points, a straight segment for a zero radius, curves otherwise - and asks those questions through the evaluator: C12), move, subpath splitting and the shape builders (rect with "
                    "rx/ry defaulting and clamping on concrete radii, circle, ellipse, line, polygon, polyline read back through the grammar) each describe the same curve as their input and "
                    "deliver the letter set they promise; as_cmd_seq hands Skia the source curve in absolute M L C Q Z (shorthands resolved against the source's previous segment, "
                    "arcs replaced by their cubics); coordinate index tables equal the specification; round_floats rounds every number and nothing else; on near-start snapping "
                    "paths (abs(..) <= 1e-9) the curve is compared modulo the snapped differences.",
        not_decided="floating-point rounding of the arithmetic; arc geometry (C12)",
        assumptions=["identities hold in exact rational arithmetic", "round() is CPython's"],
    ),
    "C10": dict(
        technique="regex automata (Glushkov/DFA product, inclusion witnesses, tokenizer model vs maximal munch) + " + _AI + ": parse_svg_path interpreted on a corpus generated from the path grammar and compared with a reference grammar reader",
        explanation="Token regexes as automata: L(_FLOAT_RE) = SVG number grammar, 1-unambiguous and greedy (match = longest prefix), iterated-prefix tokeniser = maximal munch on every "
                    "string over the number alphabet up to length 6 (quick) / 8 (thorough); arity, arc typing and implicit-repeat tables; check_cmd/_explode_cmd per letter and count; "
                    "parse_svg_path interpreted on 380 generated strings (every letter, number forms, glued numbers, compact arc flags, implicit repeats; exploded or not): read exactly "
                    "as the grammar reads it or ValueError; stray characters rejected; nothing but ValueError escapes; from_commands of command sequences reads back unchanged; the "
                    "printer language (CPython repr) is inside the parser language and numbers are separated when printed.",
        not_decided="float()'s own conversion; separator laxity on non-conforming strings (the property speaks about conforming strings)",
        assumptions=["float()/int() accept every word of the SVG number grammar / [01]", "str(x) of a finite float is its shortest round-tripping repr"],
    ),
    "C11": dict(
        technique="polynomial/rational normal forms of the Affine2D source expressions vs SVG 1.1 matrices; " + _AI + " of parse_svg_transform over all operators / arities / ordered pairs; regex automata for the transform grammar",
        explanation="__matmul__, map_point/map_vector, determinant, inverse (both sides), translate/scale/rotate/skew/matrix, compose_ltr, decompose_translation/scale are identities of "
                    "rational functions for all six-tuples at once; the parser on every operator x admissible argument count and every ordered pair equals the left-to-right product; its "
                    "regexes equal the transform grammar; tostring re-parses to the same six numbers; rect_to_rect on 10 alignments x meet/slice/none equals the viewport transform.",
        not_decided="floating-point error; is_degenerate's epsilon policy",
        assumptions=["cos/sin/tan are opaque atoms obeying parity and cos^2+sin^2=1"],
    ),
    "C12": dict(
        technique=_AI + ": arc_to_cubic.py interpreted with symbolic end points, radii, rotation and flags; identities in a rational-function domain with sqrt/atan2/tan atoms",
        explanation="Radii reach the parametrisation as absolute values; coincident end points give nothing, a zero radius a straight segment, else the conversion; the radius correction "
                    "is the specification's F.6.6 test on the half chord rotated by -phi and scales both radii alike, before the parametrisation; the centres for (large, sweep) and its "
                    "complement are mirror images about the chord midpoint and a concrete orientation instance picks the right one; theta_arc is adjusted by +-2pi on the right sign "
                    "only; one interpreted loop iteration: end angle i = start angle i+1, control points by the 4/3 tan(delta/4) construction mapped through translate o rotate o scale, "
                    "the last segment ends at the given end point.",
        not_decided="the 0.03% distance bound and the segment count (numeric)",
        assumptions=["atan2/sqrt/max are opaque atoms"],
    ),
    "C13": dict(
        technique=_AI + ": svg_pathops interpreted against an abstract skia-pathops whose paths carry a region term; result compared with the requested set operation in a normal form of the region algebra",
        explanation="Commands build the same-named engine verbs with arguments in order and read back as the same letters; fill-rule names map to the same-named fill types; for union, "
                    "intersection, difference (and remove_overlaps, path_area) the result region is the requested operation over all operands, each under its own rule, finally "
                    "simplified with winding fixed (valid under nonzero); an early answer without the engine is accepted only where the path has learned that the region is empty "
                    "(area 0 of a fix_winding result; area 0 of raw contours says nothing: opposite windings cancel); empty operand lists handled; an engine failure propagates (no handler swallows it); shape-level wrappers pair "
                    "operands and rules positionally.",
        not_decided="Skia's computation of the operation",
        assumptions=["skia-pathops computes the set operation for the fill types it is given; simplify(fix_winding=True) makes nonzero and evenodd interiors coincide"],
    ),
    "C14": dict(
        technique=_AI + ": relational - the pipeline interpreted on a schematic document and on the same document with ignorable content inserted at every position; XML entry point interpreted",
        explanation="fromstring/parse hand the text to lxml once through a parser with remove_comments and remove_blank_text; the conversion of a document and of the same document with "
                    "comments, processing instructions, foreign-namespace elements and attributes, title/desc/metadata, whitespace text, reordered attributes and anonymous symbols added "
                    "gives the same structure (the document has gradients that take stops and attributes from templates; processing instructions also sit inside gradients, stops, clip paths, "
                    "shapes and <use>); the keep-or-flatten decision and traversal paths ignore comment/PI children.",
        not_decided="numbering of generated ids and last-digit rounding (allowed to differ by the property)",
        assumptions=[],
    ),
    "C15": dict(
        technique="typestate analysis of the shape cache over every public method from every cache state + " + _AI + ": relational - histories of 2-4 public operations interpreted with the object kept vs serialised and re-parsed between steps",
        explanation="Typestate (empty / populated-clean / populated-dirty): no tree read or write under unflushed edits, no reset discarding edits, a tree write under a populated cache is "
                    "followed by reset/flush. Histories (407 quick, about 2800 thorough) over editors, queries, cache-filling operations and operations that load the shapes and drop them without a flush before an ancestor is edited, functools caches and class-level state modelled: the "
                    "final serialisation and what the object reports about itself agree between the two variants; in-place forms return the receiver, copying forms leave it unchanged.",
        not_decided="histories longer than four operations; lxml's own serialisation; interleaving operations inside a consumer's loop over a traversal generator",
        assumptions=["xpath/xpath_one/resolve_url are pure queries"],
    ),
    "C16": dict(
        technique="effect lint over resolved calls (forbidden sources, positive control) + " + _AI + ": relational - conversion interpreted under two set iteration orders and after different conversion histories",
        explanation="No environment/time/identity/randomness API anywhere in the package; the schematic document converted with every set (and the module tables built from sets) "
                    "iterated in two orders gives the same document; converted after other documents were converted (memo tables, class attributes, counters carried over) it gives the "
                    "same document and the same generated ids; likewise a document whose svg content is prefixed under a foreign default namespace, alone and after an ordinary document.",
        not_decided="determinism of lxml and skia-pathops themselves",
        assumptions=["dict / lxml attribute iteration order is insertion order"],
    ),
    "C17": dict(
        technique="loop inventory with structurally checked termination arguments, falling back on " + _AI + " of the documents that exercise a loop (schematic document, 24 documents with cyclic / dangling / sloppy references); ambiguous-iteration detection on regex automata; effect lint of the XML entry",
        explanation="Every while loop, every for loop over an endless iterator and every for loop whose body grows its own sequence is given a termination argument from a closed list "
                    "(worklist over tree nodes, parent walk, bounded counter, advancing index / shrinking remainder over non-nullable token regexes, guarded reference walk). Where the "
                    "loop's own text does not establish one (the guard lives in a helper, the pushed nodes come from a generator), the loop must be exercised by the interpreted "
                    "documents and each of them must end - otherwise the check gives up (exit 2) rather than guess. 24 documents with use / clip-path / gradient-href cycles (self, "
                    "mutual, through groups, chains running into a cycle further down, both document orders, SVG 2 href, blanks and line breaks in the reference) and dangling "
                    "references are interpreted: each ends in an exception or a finite document, an unbounded expansion shows as an exhausted step budget. Recursion is inventoried only: "
                    "its depth is bounded by the interpreter (RecursionError is an exception). No regular expression has an ambiguous iteration (exponential backtracking); one XML "
                    "entry whose parser does not resolve entities, interpreted on literal documents with and without a DTD subset (internal, external general, external parameter "
                    "entities, declarations split over lines): the option may not depend on the text in a way that lets an external entity through; topicosvg raises when the gate reports violations.",
        not_decided="running time and memory proportional to the expanded document",
        assumptions=["Python's recursion limit turns unbounded recursion into RecursionError (an exception, allowed)"],
    ),
    "C18": dict(
        technique=_AI + ": might_paint on the full product of paint attributes x geometry classes x symbolic area vs the reference predicate; pruning stages interpreted on schematic documents",
        explanation="might_paint equals 'visible stroke, or visible fill with area > 0' on display x fill x stroke x three opacities x stroke-width x geometry class x area (comparison with "
                    "exact zero); remove_unpainted_shapes deletes exactly the negative verdicts (the document has the same outline under two fill rules - by style, by attribute, inherited - in both "
                    "orders, with an area that depends on the rule: a verdict may not leak from one shape to the next); remove_empty_subpaths judges each contour with the paint of the shape it belongs to; "
                    "path_area builds under the caller's rule and reads the area of the simplified path.",
        not_decided="Skia's area for slivers below its resolution",
        assumptions=["Skia's area of the simplified path is > 0 exactly when the fill region is non-empty"],
    ),
    "C19": dict(
        technique=_AI + ": bounding boxes and clip_to_viewbox interpreted against the abstract engine; Rect algebra with opaque min/max; region-algebra criterion C n B = V n B",
        explanation="bounding_box asks the engine for the tight bounds of the shape's current commands on every call (also after an in-place edit) and converts to (x, y, w, h); the "
                    "document box is the union; Rect.intersection / union are the interval formulas, None exactly when empty; clip_to_viewbox on 14 shape positions (inside, outside, over an edge, a corner, two opposite edges, all four edges) x 2 view boxes, engine facts such as convexity explored both ways: "
                    "the result region within the box equals the source region within the box, outside shapes are dropped, inside ones untouched, emptied groups pruned; the CLI "
                    "applies it only under its flag, after the conversion.",
        not_decided="Skia's bounds and intersection being exact",
        assumptions=["Skia's .bounds is the tight box of the curve geometry"],
    ),
    "C20": dict(
        technique=_AI + ": affine_between interpreted on every path with the verification step as an oracle (provenance of the returned value); _try_affine / almost_equals / _affine_callback interpreted per command letter",
        explanation="Whatever affine_between returns was verified against (s1, s2, tolerance) on that path, or is None, or the identity under almost_equals; the exact translation is tried "
                    "before any bail-out; the verification applies the candidate to s1 and compares letters, argument counts and every argument under the tolerance; the affine image per "
                    "letter maps absolute coordinates with map_point and relative ones with map_vector. Arc sweep flag / x-axis rotation are never rewritten: known findings F9a, F9b.",
        not_decided="completeness of the search (a reusable pair may be missed)",
        assumptions=[],
    ),
}

"""Specification tables transcribed from SVG 1.1 (facts about SVG, not about the repository)."""

# --- paths (SVG 1.1 section 8.3) ----------------------------------------------------
CMD_ARITY = {"m": 2, "z": 0, "l": 2, "h": 1, "v": 1, "c": 6, "s": 4, "q": 4, "t": 2, "a": 7}
CMD_ARITY.update({k.upper(): v for k, v in list(CMD_ARITY.items())})
LETTERS = tuple(CMD_ARITY)

# argument indices that are x / y coordinates (arc: only the end point; radii, rotation, flags are not coordinates)
CMD_X = {"m": (0,), "z": (), "l": (0,), "h": (0,), "v": (), "c": (0, 2, 4), "s": (0, 2), "q": (0, 2), "t": (0,), "a": (5,)}
CMD_Y = {"m": (1,), "z": (), "l": (1,), "h": (), "v": (0,), "c": (1, 3, 5), "s": (1, 3), "q": (1, 3), "t": (1,), "a": (6,)}
for _k in list(CMD_X):
    CMD_X[_k.upper()] = CMD_X[_k]
    CMD_Y[_k.upper()] = CMD_Y[_k]

IMPLICIT_REPEAT = {"m": "l", "M": "L"}  # 8.3.2: subsequent pairs after a moveto are implicit linetos
SHORTHAND_FAMILY = {"S": "C", "T": "Q"}  # 8.3.6 / 8.3.7: reflection only after the same family

# 8.3.9 BNF of `number` as used in path data, as a regular expression:
#   number: sign? (integer-constant | floating-point-constant)
#   floating-point-constant: fractional-constant exponent? | digit-sequence exponent
#   fractional-constant: digit-sequence? "." digit-sequence | digit-sequence "."
SVG_NUMBER_RE = r"[-+]?(?:[0-9]+\.?[0-9]*|\.[0-9]+)(?:[eE][-+]?[0-9]+)?"
SVG_FLAG_RE = r"[01]"
# CPython repr() of a finite float / int (what str(n) prints), transcribed from the float repr algorithm
PY_NUMBER_REPR_RE = r"-?(?:[0-9]+|[0-9]+\.[0-9]+|[0-9](?:\.[0-9]+)?e[-+][0-9][0-9]+)"

ARC_ARG_KINDS = ("number", "number", "number", "flag", "flag", "number", "number")

# --- painting (SVG 1.1 chapter 11, property index) ------------------------------------
# property -> (inherited?, initial value)
PROPERTY_TABLE = {
    "clip-rule": (True, "nonzero"),
    "color": (True, None),
    "fill": (True, "black"),
    "fill-rule": (True, "nonzero"),
    "fill-opacity": (True, 1.0),
    "stroke": (True, "none"),
    "stroke-width": (True, 1.0),
    "stroke-linecap": (True, "butt"),
    "stroke-linejoin": (True, "miter"),
    "stroke-miterlimit": (True, 4),
    "stroke-dasharray": (True, "none"),
    "stroke-dashoffset": (True, 0.0),
    "stroke-opacity": (True, 1.0),
    "opacity": (False, 1.0),  # not inherited, but group opacity composes multiplicatively when a group is flattened
    "display": (False, "inline"),  # not inherited, but display:none removes the whole subtree
    "clip-path": (False, ""),  # not inherited; clips of ancestors accumulate (intersection)
    "transform": (False, ""),  # not a property; CTM accumulates child-first
    "overflow": (False, "visible"),
}
LINECAPS = ("butt", "round", "square")
LINEJOINS = ("miter", "round", "bevel")
FILL_RULES = ("nonzero", "evenodd")

# --- gradients (SVG 1.1 chapter 13) ----------------------------------------------------
LINEAR_DEFAULTS = {"x1": "0%", "y1": "0%", "x2": "100%", "y2": "0%"}
RADIAL_DEFAULTS = {"cx": "50%", "cy": "50%", "r": "50%", "fr": "0%"}  # fx -> cx, fy -> cy when absent
GRADIENT_DEFAULT_UNITS = "objectBoundingBox"
GRADIENT_DEFAULT_SPREAD = "pad"
GRADIENT_X_LIKE = ("x1", "x2", "cx", "fx")
GRADIENT_Y_LIKE = ("y1", "y2", "cy", "fy")
GRADIENT_RADII = ("r", "fr")

# --- transforms (SVG 1.1 section 7.6), column-major [a b c d e f] ------------------------
TRANSFORM_OPS = ("matrix", "translate", "scale", "rotate", "skewx", "skewy")
ANGLE_OPS = ("rotate", "skewx", "skewy")
ALIGNS = ("none", "xminymin", "xmidymin", "xmaxymin", "xminymid", "xmidymid", "xmaxymid", "xminymax", "xmidymax", "xmaxymax")

# picosvg grammar from README: element-path language of a conforming document
PICO_PATH_RE = r"/svg\[0\](?:/defs\[0\](?:/(?:linear|radial)Gradient\[[0-9]+\](?:/stop\[[0-9]+\])?)?|(?:/(?:path|g)\[[0-9]+\])+)?"
PICO_D_LETTERS = frozenset("MLCQAZ")

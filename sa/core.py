"""Core of the static analyser: source loader, findings, obligations, evidence.

Nothing in here (or anywhere under /verif/sa) imports or executes code from the
repository under analysis: sources are read as text and parsed with `ast`.
"""
from __future__ import annotations

import ast
import json
import os
import sys
import time
from dataclasses import dataclass, field
from typing import Dict, List, Optional, Tuple

VERIF_DIR = os.path.dirname(os.path.dirname(os.path.abspath(__file__)))
PKG_REL = "src/picosvg"
MODULES = (
    "svg",
    "svg_types",
    "svg_meta",
    "svg_path_iter",
    "svg_pathops",
    "svg_transform",
    "svg_reuse",
    "arc_to_cubic",
    "geometric_types",
    "picosvg",
)


class AnalysisError(Exception):
    """An anchor vanished / a construct is outside what the extractor understands /
    an instance count fell below its floor.  Exit status 2, never a VIOLATION."""


def repo_root() -> str:
    return os.environ.get("VERIF_REPO", "/repo")


def unparse(node) -> str:
    if isinstance(node, str):
        return node
    return ast.unparse(node)


class Module:
    def __init__(self, name: str, path: str, src: str):
        self.name = name
        self.path = path  # repo-relative
        self.src = src
        try:
            self.tree = ast.parse(src, filename=path)
        except SyntaxError as e:  # a tree that does not compile is not analysable
            raise AnalysisError(f"{path}: does not parse: {e}")
        for n in ast.walk(self.tree):
            for c in ast.iter_child_nodes(n):
                c._parent = n  # type: ignore[attr-defined]
        self.functions: Dict[str, ast.AST] = {}
        self.classes: Dict[str, ast.ClassDef] = {}
        self.assigns: Dict[str, List[ast.AST]] = {}
        self.imports: Dict[str, Tuple[str, Optional[str]]] = {}  # local -> (module, attr)
        self.star_imports: List[str] = []
        self._index()

    def _index(self):
        def visit(body, prefix, cls):
            for st in body:
                if isinstance(st, (ast.FunctionDef, ast.AsyncFunctionDef)):
                    q = prefix + st.name
                    self.functions[q] = st
                    st._qualname = q  # type: ignore[attr-defined]
                    st._class = cls  # type: ignore[attr-defined]
                    visit(st.body, q + ".<locals>.", None)
                elif isinstance(st, ast.ClassDef):
                    q = prefix + st.name
                    self.classes[q] = st
                    visit(st.body, q + ".", st)
                elif isinstance(st, (ast.If, ast.Try, ast.With, ast.For, ast.While)):
                    for fld in ("body", "orelse", "finalbody"):
                        visit(getattr(st, fld, []) or [], prefix, cls)
                    for h in getattr(st, "handlers", []) or []:
                        visit(h.body, prefix, cls)

        visit(self.tree.body, "", None)
        for st in self.tree.body:
            if isinstance(st, ast.Assign):
                for t in st.targets:
                    if isinstance(t, ast.Name):
                        self.assigns.setdefault(t.id, []).append(st.value)
            elif isinstance(st, ast.AnnAssign) and isinstance(st.target, ast.Name) and st.value:
                self.assigns.setdefault(st.target.id, []).append(st.value)
            elif isinstance(st, ast.Import):
                for a in st.names:
                    self.imports[a.asname or a.name.split(".")[0]] = (a.name, None)
            elif isinstance(st, ast.ImportFrom):
                mod = st.module or ""
                for a in st.names:
                    if a.name == "*":
                        self.star_imports.append(mod)
                    else:
                        self.imports[a.asname or a.name] = (mod, a.name)

    # -- anchors -----------------------------------------------------------------
    def func(self, qualname: str):
        f = self.functions.get(qualname)
        if f is None:
            raise AnalysisError(f"anchor missing: function {self.name}.{qualname} not found in {self.path}")
        return f

    def cls(self, name: str) -> ast.ClassDef:
        c = self.classes.get(name)
        if c is None:
            raise AnalysisError(f"anchor missing: class {self.name}.{name} not found in {self.path}")
        return c

    def assign(self, name: str):
        v = self.assigns.get(name)
        if not v:
            raise AnalysisError(f"anchor missing: module-level {self.name}.{name} not found in {self.path}")
        return v

    def seg(self, node) -> str:
        return ast.get_source_segment(self.src, node) or unparse(node)


class Repo:
    def __init__(self, root: Optional[str] = None, overlay: Optional[Dict[str, str]] = None):
        self.root = root or repo_root()
        self.overlay = overlay or {}
        self.modules: Dict[str, Module] = {}
        missing = []
        for name in MODULES:
            rel = f"{PKG_REL}/{name}.py"
            if rel in self.overlay:
                src = self.overlay[rel]
            else:
                p = os.path.join(self.root, rel)
                if not os.path.exists(p):
                    missing.append(rel)
                    continue
                with open(p, encoding="utf-8") as f:
                    src = f.read()
            self.modules[name] = Module(name, rel, src)
        if missing:
            raise AnalysisError("anchor missing: source files " + ", ".join(missing))
        # any other .py in the package must be known (cover what the build covers)
        pkg = os.path.join(self.root, PKG_REL)
        extra = sorted(
            f[:-3]
            for f in os.listdir(pkg)
            if f.endswith(".py") and f[:-3] not in MODULES and f not in ("__init__.py", "_version.py")
        )
        if extra:
            raise AnalysisError(
                "package has modules the analyser does not know (add them to sa.core.MODULES): " + ", ".join(extra)
            )

    def __getitem__(self, name) -> Module:
        return self.modules[name]

    def digest(self) -> str:
        """Identity of the analysed source text (memo key for interpretation results)."""
        if getattr(self, "_digest", None) is None:
            import hashlib
            h = hashlib.sha256()
            for name in sorted(self.modules):
                h.update(name.encode())
                h.update(self.modules[name].src.encode())
            self._digest = h.hexdigest()
        return self._digest

    def resolve_module(self, dotted: str) -> Optional[Module]:
        if dotted.startswith("picosvg."):
            return self.modules.get(dotted.split(".", 1)[1])
        if dotted == "picosvg":
            return None
        return None

    def lookup(self, mod: Module, name: str, _seen=None):
        """Resolve a bare name used in `mod` to (module, kind, node) across picosvg imports.
        kind in {'function','class','assign'}; returns None for builtins/third party."""
        _seen = _seen or set()
        if (mod.name, name) in _seen:
            return None
        _seen.add((mod.name, name))
        if name in mod.functions and "." not in name:
            return (mod, "function", mod.functions[name])
        if name in mod.classes:
            return (mod, "class", mod.classes[name])
        if name in mod.assigns:
            return (mod, "assign", mod.assigns[name])
        if name in mod.imports:
            m, attr = mod.imports[name]
            tm = self.resolve_module(m)
            if attr is None:
                return (tm, "module", None) if tm else None
            if tm is not None:
                return self.lookup(tm, attr, _seen)
            if m == "picosvg":
                tm2 = self.modules.get(attr)
                return (tm2, "module", None) if tm2 else None
            return None
        for m in mod.star_imports:
            tm = self.resolve_module(m)
            if tm is not None:
                r = self.lookup(tm, name, _seen)
                if r:
                    return r
        return None


@dataclass
class Finding:
    prop: str
    rule: str
    function: str  # module.Qual.name
    construct: str  # normalised (ast.unparse) construct or instance name
    message: str
    file: str = ""
    line: int = 0
    path: Optional[List[str]] = None  # for path rules: entry .. offending exit

    def key(self):
        return (self.rule, self.function, self.construct)

    def as_dict(self):
        return {
            "property": self.prop,
            "rule": self.rule,
            "function": self.function,
            "construct": self.construct,
            "message": self.message,
            "file": self.file,
            "line": self.line,
            "path": self.path,
        }


@dataclass
class Report:
    prop: str
    tier: str = "quick"
    findings: List[Finding] = field(default_factory=list)
    obligations: List[dict] = field(default_factory=list)
    analysed_functions: set = field(default_factory=set)
    call_sites: int = 0
    tables: set = field(default_factory=set)
    notes: List[str] = field(default_factory=list)
    rules: Dict[str, str] = field(default_factory=dict)  # rule id -> one-line description
    floors: List[Tuple[str, int, int]] = field(default_factory=list)
    unresolved_calls: List[str] = field(default_factory=list)
    selftest: Optional[dict] = None

    def rule(self, rid: str, text: str):
        self.rules[rid] = text

    def saw(self, *funcs):
        for f in funcs:
            self.analysed_functions.add(f)

    def ob(self, rule: str, site: str, ok: bool, detail: str = "", nontrivial: bool = False,
           finding: Optional[Finding] = None):
        """Record one evaluated rule instance (obligation)."""
        self.obligations.append(
            {"rule": rule, "site": site, "verdict": "discharged" if ok else "FAILED", "detail": detail,
             "nontrivial": bool(nontrivial)}
        )
        if not ok and finding is not None:
            self.findings.append(finding)

    def fail(self, rule, function, construct, message, mod: Optional[Module] = None, node=None, path=None,
             nontrivial=True, site=None):
        f = Finding(self.prop, rule, function, unparse(construct) if construct is not None else "",
                    message, mod.path if mod else "", getattr(node, "lineno", 0) if node is not None else 0, path)
        self.ob(rule, site or f"{function}: {f.construct}", False, message, nontrivial, f)
        return f

    def ok(self, rule, site, detail="", nontrivial=False):
        self.ob(rule, site, True, detail, nontrivial)

    def floor(self, what: str, count: int, floor: int):
        """Matcher-level floor: the generic matcher found fewer sites than confirmed by hand =>
        it has probably stopped recognising the idiom => analysis error, not a pass."""
        self.floors.append((what, count, floor))
        if count < floor:
            raise AnalysisError(f"instance count below floor: {what}: matched {count}, confirmed by hand {floor}")


def load_known(prop: str):
    p = os.path.join(VERIF_DIR, "known_findings.json")
    if not os.path.exists(p):
        return []
    with open(p) as f:
        data = json.load(f)
    return [k for k in data.get("findings", []) if k.get("property") == prop]


ASSUMPTIONS_COMMON = [
    "CPython ast / re._parser parse the source the way the interpreter does",
    "lxml and skia-pathops behave as documented (their internals are not analysed)",
    "specification tables transcribed in sa/spec.py (SVG 1.1 path/transform/arc/gradient/painting tables) are correct",
    "the decided clauses are structural necessary conditions of the property, not the behavioural statement itself",
]


def finish(report: Report, t0: float, explanation: str, extra_assumptions=(), exhaustive=False) -> int:
    """Match findings against the known-findings file, print diagnosis, write evidence, return exit code."""
    prop = report.prop
    known = load_known(prop)
    known_keys = {(k["rule"], k["function"], k["construct"]): k for k in known}
    new: List[Finding] = []
    seen_known = set()
    dedup = {}
    for f in report.findings:
        dedup.setdefault(f.key(), f)
    for key, f in dedup.items():
        if key in known_keys:
            seen_known.add(key)
        else:
            new.append(f)
    for key in sorted(seen_known):
        k = known_keys[key]
        print(f"KNOWN-FINDING: property={prop} {k.get('id','')} {k['function']}: {k['what']}")
    for key, k in known_keys.items():
        if key not in seen_known:
            report.notes.append(f"known finding {k.get('id','')} no longer reported by its rule (repaired?): {key}")
            print(f"NOTE: known finding {k.get('id','')} is no longer reported ({key[0]} at {key[1]})")
    ev_dir = os.path.join(VERIF_DIR, "evidence")
    os.makedirs(ev_dir, exist_ok=True)
    rc = 0
    rp_dir = os.path.join(ev_dir, "replay")
    if os.path.isdir(rp_dir):
        # replay files of earlier runs of this property are stale
        for fn_ in os.listdir(rp_dir):
            if fn_.startswith(prop + "-") and fn_.endswith(".json"):
                try:
                    os.remove(os.path.join(rp_dir, fn_))
                except OSError:
                    pass
    if new:
        rc = 1
        os.makedirs(rp_dir, exist_ok=True)
        for i, f in enumerate(new):
            rp = os.path.join(rp_dir, f"{prop}-{i}.json")
            with open(rp, "w") as fh:
                json.dump(f.as_dict(), fh, indent=1)
            loc = f"{f.file}:{f.line}" if f.file else "(table)"
            print(f"{loc}: [{f.rule}] {f.function}: {f.message}")
            if f.construct:
                print(f"    construct: {f.construct}")
            if f.path:
                print("    path: " + " -> ".join(f.path))
            print(f"VIOLATION property={prop} replay={rp}")
    n_ob = len(report.obligations)
    n_ok = sum(1 for o in report.obligations if o["verdict"] == "discharged")
    nontrivial_sites = {(o["rule"], o["site"]) for o in report.obligations if o["nontrivial"]}
    samples = []
    per_rule = {}
    for o in report.obligations:
        per_rule.setdefault(o["rule"], []).append(o)
    for r, obs in per_rule.items():
        # prefer a nontrivial sample per rule, and always include failures
        cand = [o for o in obs if o["verdict"] != "discharged"][:3] or ([o for o in obs if o["nontrivial"]] or obs)[:1]
        for o in cand:
            samples.append({k: o[k] for k in ("rule", "site", "verdict", "detail")})
    samples = samples[:60]
    ev = {
        "property_id": prop,
        "tier": report.tier,
        "seed": int(os.environ.get("VERIF_SEED", "0") or 0),
        "level": "other",
        "coverage": {
            "explanation": explanation,
            "rules": report.rules,
            "obligations": n_ob,
            "discharged": n_ok,
            "evaluations": n_ob,
            "distinct_nontrivial": len(nontrivial_sites),
            "rule": "one evaluation per rule instance (site x rule); non-trivial = the instance needed a path search, "
                    "automaton construction, symbolic case split or normal-form comparison rather than a presence test; "
                    "distinct = distinct (rule, site) pairs",
            "samples": samples or [{"note": "no obligations"}],
            "analysed_functions": sorted(report.analysed_functions),
            "call_sites": report.call_sites,
            "tables": sorted(report.tables),
            "floors": [{"what": w, "matched": c, "floor": fl} for (w, c, fl) in report.floors],
            "unresolved_calls": report.unresolved_calls[:50],
            "known_findings_reported": [list(k) for k in sorted(seen_known)],
            "notes": report.notes,
            "exhaustive": bool(exhaustive),
            "repo_root": repo_root(),
        },
        "assumptions": ASSUMPTIONS_COMMON + list(extra_assumptions),
        "wall_s": round(time.time() - t0, 3),
        "violations": len(new),
    }
    if report.selftest is not None:
        ev["coverage"]["selftest"] = report.selftest
    with open(os.path.join(ev_dir, f"{prop}.json"), "w") as fh:
        json.dump(ev, fh, indent=1, default=str)
    print(f"{prop}: tier={report.tier} obligations={n_ob} discharged={n_ok} nontrivial={len(nontrivial_sites)} "
          f"known={len(seen_known)} new_violations={len(new)} functions={len(report.analysed_functions)} "
          f"wall={ev['wall_s']}s")
    return rc


# -------- small AST helpers used by many rules -------------------------------------

def parent(node):
    return getattr(node, "_parent", None)


def enclosing_function(node):
    p = parent(node)
    while p is not None and not isinstance(p, (ast.FunctionDef, ast.AsyncFunctionDef, ast.Lambda)):
        p = parent(p)
    return p


def calls_in(node, include_nested_defs=True):
    for n in ast.walk(node):
        if isinstance(n, ast.Call):
            yield n


def call_name(call: ast.Call) -> str:
    """Dotted textual name of the callee, e.g. 'self._update_etree', 'Affine2D.compose_ltr'."""
    f = call.func
    parts = []
    while isinstance(f, ast.Attribute):
        parts.append(f.attr)
        f = f.value
    if isinstance(f, ast.Name):
        parts.append(f.id)
    elif isinstance(f, ast.Call):
        parts.append(call_name(f) + "()")
    else:
        parts.append("<expr>")
    return ".".join(reversed(parts))


def kwarg(call: ast.Call, name: str):
    for k in call.keywords:
        if k.arg == name:
            return k.value
    return None


def const_value(node, default=None):
    if isinstance(node, ast.Constant):
        return node.value
    return default


def walk_no_nested(node):
    """Walk statements/expressions of a function body without descending into nested defs/lambdas/classes."""
    stack = list(ast.iter_child_nodes(node))
    while stack:
        n = stack.pop()
        yield n
        if isinstance(n, (ast.FunctionDef, ast.AsyncFunctionDef, ast.ClassDef, ast.Lambda)):
            continue
        stack.extend(ast.iter_child_nodes(n))

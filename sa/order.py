"""R-ORDER helpers: dominance / must-pass / never-after queries over the events of one function's CFG,
with calls to repo helpers inlined as must/may summaries (sa.calls.Events)."""
from __future__ import annotations

import ast
from typing import Callable, Dict, List, Optional, Set, Tuple

from sa.calls import Events, Resolver
from sa.cfg import CFG, Node
from sa.core import AnalysisError, call_name, unparse


class Order:
    def __init__(self, resolver: Resolver, key, classify: Callable, depth=3, inline_filter=None):
        self.r = resolver
        self.key = key
        self.g: CFG = resolver.cfg(key)
        self.ev = Events(resolver, classify, depth, inline_filter)
        self.dom = self.g.dominators()
        self.occ: Dict[str, List[Tuple[int, int, bool, ast.AST]]] = {}  # label -> [(node id, position in node, must, call)]
        self.node_events: Dict[int, List[Tuple[str, bool, ast.AST]]] = {}
        for n in self.g.stmt_nodes():
            evs = self.ev.node_events(key, n)
            self.node_events[n.id] = evs
            for i, (lab, must, call) in enumerate(evs):
                self.occ.setdefault(lab, []).append((n.id, i, must, call))

    def has(self, label) -> bool:
        return label in self.occ

    def first_line(self, label) -> int:
        o = self.occ.get(label)
        return min(getattr(c, "lineno", 0) for _, _, _, c in o) if o else 0

    def must_precede(self, a: str, b: str) -> Optional[str]:
        """None if every occurrence of b is preceded, on every path, by a must-occurrence of a; else a description."""
        if b not in self.occ:
            return None
        for (nb, ib, _, cb) in self.occ[b]:
            ok = False
            for (na, ia, must, _) in self.occ.get(a, []):
                if not must:
                    continue
                if na == nb and ia < ib:
                    ok = True
                elif na != nb and na in self.dom.get(nb, set()):
                    ok = True
            if not ok:
                return f"`{b}` at line {getattr(cb, 'lineno', '?')} can be reached without `{a}` having run"
        return None

    def never_after(self, a: str, b: str) -> Optional[str]:
        """None if no (may-)occurrence of a is reachable after an occurrence of b."""
        for (nb, ib, _, cb) in self.occ.get(b, []):
            reach = self.g.reachable(self.g.nodes[nb])
            for (na, ia, _, ca) in self.occ.get(a, []):
                if (na == nb and ia > ib) or (na != nb and na in reach) or (na == nb and nb in reach):
                    if na == nb and ia <= ib and nb not in reach:
                        continue
                    return f"`{a}` (line {getattr(ca, 'lineno', '?')}) can run after `{b}` (line {getattr(cb, 'lineno', '?')})"
        return None

    def on_all_paths_from(self, start: Node, a: str, exit_node: Optional[Node] = None) -> bool:
        """Is there a must-occurrence of a on every path from `start` to the normal return?"""
        pd = self.g.postdominators(exit_node)
        for (na, _, must, _) in self.occ.get(a, []):
            if must and na in pd.get(start.id, set()):
                return True
        return False

    def branch_entry(self, test_text: str, label: str) -> Optional[Node]:
        """Successor of the test node `test_text` along the edge `label` ('true'/'false')."""
        for n in self.g.nodes:
            if n.kind == "test" and n.ast is not None and unparse(n.ast) == test_text:
                for m, lab in self.g.succ[n.id]:
                    if lab == label:
                        return self.g.nodes[m]
        return None

    def sequence(self) -> List[str]:
        """Event labels in a topological-ish order (by line) - for evidence only."""
        items = []
        for lab, occ in self.occ.items():
            for (n, i, must, call) in occ:
                items.append((getattr(call, "lineno", 0), i, lab))
        return [l for _, _, l in sorted(items)]

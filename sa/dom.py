"""Abstract DOM for the symbolic evaluator: a small model of lxml elements so that the tree helpers of
svg.py can be interpreted (not executed) on schematic trees.  Only the operations the repository uses are
modelled; anything else raises Undecided (=> analysis error, never a verdict)."""
from __future__ import annotations

from typing import Any, Dict, List, Optional

from sa.sym import Ext, Interp, PyCallable, PyRaise, Undecided, Unknown

SVGNS = "http://www.w3.org/2000/svg"
COMMENT = "<!--comment-->"
PI = "<?pi?>"


class Marker(Ext):
    """etree.Comment / etree.ProcessingInstruction (compared by identity)."""

    def __init__(self, name):
        self.name = name

    def sym_eq(self, it, other):
        return other is self

    def __repr__(self):
        return f"etree.{self.name}"


ETREE_COMMENT = Marker("Comment")
ETREE_PI = Marker("ProcessingInstruction")


class El(Ext):
    def __init__(self, tag, attrib=None, children=(), name=None):
        self.tag = tag if not isinstance(tag, str) or tag.startswith("{") or tag in ("dummy",) else f"{{{SVGNS}}}{tag}"
        if tag is ETREE_COMMENT or tag is ETREE_PI:
            self.tag = tag
        self.attrib: Dict[str, Any] = dict(attrib or {})
        self.children: List["El"] = []
        self.parent: Optional["El"] = None
        self.name = name or (tag if isinstance(tag, str) else repr(tag))
        for c in children:
            self._append(c)

    # -- structure helpers used by the model itself
    def _detach(self):
        if self.parent is not None:
            self.parent.children = [c for c in self.parent.children if c is not self]
            self.parent = None

    def _append(self, c, idx=None):
        c._detach()
        c.parent = self
        if idx is None:
            self.children.append(c)
        else:
            self.children.insert(idx, c)

    def local(self):
        t = self.tag
        return t.split("}")[-1] if isinstance(t, str) else repr(t)

    def dump(self):
        a = " ".join(f'{k}="{v}"' for k, v in self.attrib.items())
        return f"<{self.local()}{' ' + a if a else ''}>" + "".join(c.dump() for c in self.children) + ("" if not self.children else f"</{self.local()}>")

    def subtree(self):
        out = [self]
        for c in self.children:
            out += c.subtree()
        return out

    def __repr__(self):
        return f"El({self.name})"

    # -- evaluator protocol
    def sym_truth(self, it):
        return True  # lxml warns, but elements used in boolean context here are `is not None` tests mostly

    def sym_eq(self, it, other):
        return other is self

    def sym_iter(self, it):
        return list(self.children)

    def sym_copy(self):
        c = El(self.tag, dict(self.attrib), [ch.sym_copy() for ch in self.children], name=self.name + "'")
        if getattr(self, "_nsmap", None):
            c._nsmap = dict(self._nsmap)
        return c

    def sym_getitem(self, it, k):
        if isinstance(k, slice):
            return list(self.children)[k]
        from sa.sym import _idx
        try:
            return self.children[_idx(k)]
        except IndexError:
            raise PyRaise("IndexError")

    def sym_len(self):
        return len(self.children)

    def sym_setslice(self, it, items):
        # el[:] = nodes : the old children are dropped, the new ones move here (lxml moves, never copies)
        for c in list(self.children):
            c._detach()
        for c in items:
            self._append(c)

    def sym_getattr(self, it, attr):
        if attr == "tag":
            return self.tag
        if attr == "attrib":
            return self.attrib
        if attr == "nsmap":
            return dict(getattr(self, "_nsmap", None) or {None: SVGNS})
        if attr == "getparent":
            return PyCallable(lambda i, a, k: self.parent)
        if attr == "index":
            def index(i, a, k):
                for n, c in enumerate(self.children):
                    if c is a[0]:
                        return n
                raise PyRaise("ValueError")
            return PyCallable(index)
        if attr == "remove":
            def remove(i, a, k):
                if a[0].parent is not self:
                    raise PyRaise("ValueError")
                a[0]._detach()
            return PyCallable(remove)
        if attr == "append":
            return PyCallable(lambda i, a, k: self._append(a[0]))
        if attr == "insert":
            from sa.sym import _idx
            return PyCallable(lambda i, a, k: self._append(a[1], max(0, min(_idx(a[0]), len(self.children)))))
        if attr == "extend":
            def extend(i, a, k):
                for c in list(i.iterate(a[0])):
                    self._append(c)
            return PyCallable(extend)
        if attr == "replace":
            def replace(i, a, k):
                old, new = a
                if old.parent is not self:
                    raise PyRaise("ValueError")
                idx = next(n for n, c in enumerate(self.children) if c is old)
                new._detach()
                idx = next(n for n, c in enumerate(self.children) if c is old)
                old._detach()
                self._append(new, idx)
            return PyCallable(replace)
        if attr in ("addnext", "addprevious"):
            def add(i, a, k, after=(attr == "addnext")):
                if self.parent is None:
                    raise PyRaise("TypeError")
                new = a[0]
                new._detach()
                idx = next(n for n, c in enumerate(self.parent.children) if c is self)
                self.parent._append(new, idx + 1 if after else idx)
            return PyCallable(add)
        if attr in ("getiterator", "iter"):
            def walk(i, a, k):
                # lxml semantics: a live depth-first walk; the node after the current one is determined
                # before the current one is handed out (so editing the tree during the walk matters)
                from sa.sym import LazyGen
                tags = [t for t in a if t is not None]
                if "tag" in k and k["tag"] is not None:
                    tags += list(i.iterate(k["tag"])) if not isinstance(k["tag"], str) else [k["tag"]]

                def match(n):
                    if not tags:
                        return True
                    return any((t == "*" and isinstance(n.tag, str)) or n.tag == t or (t is ETREE_COMMENT and n.tag is ETREE_COMMENT) or (t is ETREE_PI and n.tag is ETREE_PI) for t in tags)

                start = self

                def nxt(node):
                    if node.children:
                        return node.children[0]
                    while node is not None and node is not start:
                        p = node.parent
                        if p is None:
                            return None
                        idx = next((n for n, c in enumerate(p.children) if c is node), None)
                        if idx is None:
                            return None
                        if idx + 1 < len(p.children):
                            return p.children[idx + 1]
                        node = p
                    return None

                def next_match(node):
                    n = nxt(node)
                    while n is not None and not match(n):
                        n = nxt(n)
                    return n

                def gen():
                    cur = start if match(start) else next_match(start)
                    while cur is not None:
                        following = next_match(cur)
                        yield cur
                        cur = following
                return LazyGen(gen())
            return PyCallable(walk)
        if attr == "iterchildren":
            return PyCallable(lambda i, a, k: list(self.children))
        if attr == "iterancestors":
            def anc(i, a, k):
                out, p = [], self.parent
                while p is not None:
                    out.append(p)
                    p = p.parent
                return out
            return PyCallable(anc)
        if attr == "xpath":
            def xp(i, a, k):
                root = self
                while root.parent is not None:
                    root = root.parent
                return xpath(root, self, a[0])
            return PyCallable(xp)
        raise Undecided(f"lxml attribute {attr} not modelled")


def install_dom(it: Interp):
    """External bindings so that repository code that touches lxml / QName can be interpreted on El trees."""

    class EtreeMod(Ext):
        def sym_getattr(self_, it_, attr):
            if attr == "Comment":
                return ETREE_COMMENT
            if attr == "ProcessingInstruction":
                return ETREE_PI
            if attr in ("Element", "SubElement"):
                def mk(i, a, k):
                    attrib = dict(a[1]) if len(a) > 1 and isinstance(a[1], dict) else {}
                    attrib.update({kk: vv for kk, vv in k.items() if kk not in ("nsmap", "attrib")})
                    return El(a[0], attrib)
                return PyCallable(mk)
            if attr == "QName":
                return PyCallable(lambda i, a, k: _qname(a[0]))
            if attr == "XMLParser":
                return PyCallable(lambda i, a, k: ParserTok(dict(k), a))
            if attr in ("fromstring", "XML", "parse", "iterparse", "HTML"):
                def parse(i, a, k, api=attr):
                    parser = k.get("parser", a[1] if len(a) > 1 else None)
                    i.__dict__.setdefault("xml_parses", []).append((api, parser if isinstance(parser, ParserTok) else None))
                    return El("svg", {}, name="parsed-root")
                return PyCallable(parse)
            if attr == "tostring":
                return PyCallable(lambda i, a, k: "<serialised/>")
            raise Undecided(f"etree.{attr} not modelled")

    mod = EtreeMod()
    it.external["lxml.etree"] = None  # marker; see _external hook below
    it._etree = mod

    def splitns(i, a, k):
        q = _qname(a[0])
        return (q.namespace, q.localname)

    it.hooks[("svg_meta", "splitns")] = splitns


class ParserTok(Ext):
    """etree.XMLParser(**options) as observed."""

    def __init__(self, options, args=()):
        self.options, self.args = options, tuple(args)

    def sym_copy(self):
        return self

    def sym_truth(self, it):
        return True


class _QN:
    def __init__(self, ns, local):
        self.namespace, self.localname = ns, local


def _qname(name):
    if isinstance(name, Marker):
        raise PyRaise("ValueError")
    if isinstance(name, El):
        name = name.tag
    if not isinstance(name, str):
        raise Undecided(f"QName of {name!r}")
    if name.startswith("{"):
        ns, local = name[1:].split("}", 1)
        return _QN(ns, local)
    return _QN(None, name)


# ---- a minimal XPath evaluator for the expression forms the repository uses -----------------------------
import re as _re

_STEP = _re.compile(r"^(?P<axis>//|\.//|/|descendant-or-self::|\./|)(?P<name>svg:\*|svg:[A-Za-z]+|\*|processing-instruction\(\)|[A-Za-z]+)(?P<pred>\[[^\]]*\])?$")


def xpath(root: "El", ctx: "El", expr: str):
    """Evaluate `expr` with context node ctx (document root `root`). Supports unions of single-step paths:
    //svg:NAME[pred]  .//svg:*[@id]  descendant-or-self::svg:use  /svg:svg  //processing-instruction()
    with predicates [@a], [@a="v"], [not(@a)]."""
    out = []
    for part in [p.strip() for p in expr.split("|")]:
        ma = _re.fullmatch(r"//@(?:(?P<prefix>\w+):)?(?P<name>\*|[\w.-]+)", part)
        if ma:
            # attribute nodes of the whole document: the result is the list of their values
            ns = {"xml": XMLNS, "xlink": XLINK, None: None}.get(ma.group("prefix"), "?")
            if ns == "?":
                raise Undecided(f"xpath form not modelled: {part!r}")
            for n in root.subtree():
                if not isinstance(n.tag, str):
                    continue
                for k, v in n.attrib.items():
                    kns, _, kl = (k[1:].partition("}") if isinstance(k, str) and k.startswith("{") else (None, "", k))
                    if kns == ns and ma.group("name") in ("*", kl):
                        out.append(v if isinstance(v, str) else str(v))
            continue
        m = _STEP.match(part)
        if not m:
            # a location path of several steps: //svg:defs/svg:*[not(@id)] - evaluated step by step
            pieces = _re.findall(r"(//|/|\.//|\./)?((?:svg:\*|svg:[A-Za-z]+|\*|[A-Za-z]+)(?:\[[^\]]*\])?)", part)
            if pieces and "".join(a + b for a, b in pieces) == part and len(pieces) > 1:
                cur = None
                for axis_, step_ in pieces:
                    if cur is None:
                        cur = xpath(root, ctx, (axis_ or "") + step_)
                    else:
                        nxt = []
                        for node in cur:
                            for hit in xpath(root, node, ("./" if axis_ in ("/", "") else ".//") + step_):
                                if not any(hit is o for o in nxt):
                                    nxt.append(hit)
                        cur = nxt
                for hit in cur or []:
                    if not any(hit is o for o in out):
                        out.append(hit)
                continue
            raise Undecided(f"xpath form not modelled: {part!r}")
        axis, name, pred = m.group("axis"), m.group("name"), m.group("pred")
        if axis in ("//",):
            cands = root.subtree()
        elif axis in (".//",):
            cands = ctx.subtree()[1:]
        elif axis == "descendant-or-self::":
            cands = ctx.subtree()
        elif axis == "/":
            cands = [root]
        elif axis in ("./", ""):
            cands = list(ctx.children)
        else:
            raise Undecided(axis)
        for n in cands:
            if name == "processing-instruction()":
                if n.tag is not ETREE_PI:
                    continue
            else:
                if not isinstance(n.tag, str):
                    continue
                local = n.local()
                in_svg = n.tag.startswith("{" + SVGNS + "}")
                if name == "*":
                    pass
                elif name == "svg:*":
                    if not in_svg:
                        continue
                elif name.startswith("svg:"):
                    if not in_svg or local != name[4:]:
                        continue
                else:
                    if n.tag != name:
                        continue
            if pred:
                if not all(_pred_holds(n, cl.strip(), pred) for cl in pred[1:-1].split(" and ")):
                    continue
            if not any(n is o for o in out):
                out.append(n)
    return out


XLINK = "http://www.w3.org/1999/xlink"
XMLNS = "http://www.w3.org/XML/1998/namespace"


def _pred_holds(n, p, whole):
    """One clause of a predicate: @a | @a="v" | .//@a | not(<clause>)"""
    mm = _re.fullmatch(r"not\((.*)\)", p)
    if mm:
        return not _pred_holds(n, mm.group(1).strip(), whole)
    mm = _re.fullmatch(r"@([\w:.-]+)", p)
    if mm:
        return _attr(n, mm.group(1)) is not None
    mm = _re.fullmatch(r"@([\w:.-]+)\s*=\s*[\"']([^\"']*)[\"']", p)
    if mm:
        return _attr(n, mm.group(1)) == mm.group(2)
    mm = _re.fullmatch(r"\.//@([\w:.-]+)", p)
    if mm:
        return any(_attr(d, mm.group(1)) is not None for d in n.subtree()[1:] if isinstance(d.tag, str))
    raise Undecided(f"xpath predicate not modelled: {whole}")


def _attr(n, name):
    if name.startswith("xlink:"):
        name = "{" + XLINK + "}" + name[6:]
    v = n.attrib.get(name)
    return v if v is None or isinstance(v, str) else str(v)


# ---- symbolic affine transforms ---------------------------------------------------------------------------
class AffTok(Ext):
    """A formal composition of named affine maps, kept in APPLICATION order (first applied first).
    X @ Y (matrix product) applies Y first, then X."""
    registry: Dict[str, "AffTok"] = {}

    def __init__(self, app=()):
        self.app = tuple(app)

    @staticmethod
    def atom(name):
        return AffTok((name,))

    def sym_hashkey(self):
        return ("affine", self.app)

    def sym_matmul(self, it, other):
        if not isinstance(other, AffTok):
            raise Undecided("@ with a non-affine value")
        return AffTok(other.app + self.app)

    def sym_eq(self, it, other):
        return isinstance(other, AffTok) and other.app == self.app

    def sym_truth(self, it):
        return True

    def sym_copy(self):
        return self

    def sym_iter(self, it):
        return [("aff-component", self, k) for k in "abcdef"]

    def sym_getattr(self, it, attr):
        if attr == "tostring":
            def ts(i, a, k):
                key = "affine:" + "*".join(self.app) if self.app else "affine:identity"
                AffTok.registry[key] = self
                return key
            return PyCallable(ts)
        if attr == "translate":
            def tr(i, a, k):
                tx = a[0]
                ty = a[1] if len(a) > 1 else 0
                from sa.sym import simplify_num, is_num, to_rf
                if is_num(tx) and is_num(ty) and to_rf(tx).is_zero() and to_rf(ty).is_zero():
                    return self
                return AffTok((f"translate({simplify_num(tx)!r},{simplify_num(ty)!r})",) + self.app)
            return PyCallable(tr)
        if attr in ("scale", "rotate", "skewx", "skewy", "matrix", "skew"):
            return PyCallable(lambda i, a, k: AffTok((f"{attr}({','.join(map(repr, a))})",) + self.app))
        if attr == "round":
            if getattr(it, "afftok_round_distinct", False):
                return PyCallable(lambda i, a, k: AffTok((f"round{a[0]!r}[" + "*".join(self.app) + "]",)))
            return PyCallable(lambda i, a, k: self)
        if attr == "is_degenerate":
            return PyCallable(lambda i, a, k: False)
        if attr == "inverse":
            return PyCallable(lambda i, a, k: AffTok(tuple(f"inv({x})" for x in reversed(self.app))))
        if attr == "decompose_translation":
            return PyCallable(lambda i, a, k: (AffTok(("translation-part-of[" + "*".join(self.app) + "]",)) if self.app else AffTok(), AffTok(("linear-part-of[" + "*".join(self.app) + "]",)) if self.app else AffTok()))
        if attr == "gettranslate":
            def gt(i, a, k):
                from sa.poly import RF
                from fractions import Fraction
                if not self.app:
                    return (0, 0)
                if len(self.app) == 1:
                    m = _re.fullmatch(r"translate\((-?[\d./]+),(-?[\d./]+)\)", self.app[0])
                    if m:
                        return tuple(int(t) if t.lstrip("-").isdigit() else Fraction(t) for t in m.groups())
                tag = "*".join(self.app)
                return (RF.sym(f"e[{tag}]"), RF.sym(f"f[{tag}]"))
            return PyCallable(gt)
        if attr == "map_point":
            def mp(i, a, k):
                from sa.poly import RF
                pt = tuple(i.iterate(a[0]))
                tag = "*".join(self.app) or "identity"
                from sa.sym import ClassRef, Rec
                xy = pt if not self.app else (RF.sym(f"mapx[{tag}]({pt[0]!r},{pt[1]!r})"), RF.sym(f"mapy[{tag}]({pt[0]!r},{pt[1]!r})"))
                if "geometric_types" in getattr(i.repo, "modules", {}) and "Point" in i.repo["geometric_types"].classes:
                    return Rec(ClassRef("geometric_types", "Point"), {"x": xy[0], "y": xy[1]})
                return tuple(xy)
            return PyCallable(mp)
        if attr in ("a", "b", "c", "d", "e", "f"):
            from sa.poly import RF
            if not self.app:
                return {"a": 1, "b": 0, "c": 0, "d": 1, "e": 0, "f": 0}[attr]
            return RF.sym(f"{attr}[{'*'.join(self.app)}]")
        raise Undecided(f"Affine2D.{attr} not modelled on symbolic transforms")

    def __repr__(self):
        return "Aff[" + " then ".join(self.app) + "]" if self.app else "Aff[identity]"


def parse_affine(s):
    if isinstance(s, str) and s in AffTok.registry:
        return AffTok.registry[s]
    if isinstance(s, str) and s.startswith("affine:"):
        body = s[len("affine:"):]
        return AffTok(() if body == "identity" else tuple(body.split("*")))
    if isinstance(s, str):
        # a plain translation written with constants is kept as what it is (code asks transforms for their translation part)
        m = _re.fullmatch(r"\s*translate\(\s*(-?\d+(?:\.\d+)?)(?:[\s,]+(-?\d+(?:\.\d+)?))?\s*\)\s*", s)
        if m:
            from fractions import Fraction
            num = lambda t: (int(t) if "." not in t else Fraction(t))
            return AffTok((f"translate({num(m.group(1))!r},{num(m.group(2) or '0')!r})",))
    return AffTok.atom(f"parse({s})")


def install_affine(it: Interp):
    it.hooks[("svg_transform", "Affine2D.fromstring")] = lambda i, a, k: parse_affine(a[-1])
    it.hooks[("svg_transform", "parse_svg_transform")] = lambda i, a, k: parse_affine(a[-1])
    it.hooks[("svg_transform", "Affine2D.identity")] = lambda i, a, k: AffTok()
    it.hooks[("svg_transform", "Affine2D.rect_to_rect")] = lambda i, a, k: AffTok.atom(f"rect_to_rect({a[-3]!r}->{a[-2]!r},{a[-1]!r})" if len(a) >= 4 else f"rect_to_rect({a[-2]!r}->{a[-1]!r})")

"""Abstract model of the skia-pathops API as svg_pathops.py uses it.

Paths are not geometry but *descriptions*: how the path was built (verbs, fill type) and which engine calls were
applied to it (op, simplify, stroke, transform, convertConicsToQuads).  A region term says which point set the
engine was asked for:  ("fill", <verbs>, <fill type>)  |  ("op", <PathOp>, region, region).
`normalized` records whether the last engine call that produced the contours ran with fix_winding=True (then the
nonzero and the evenodd interior of the result coincide - skia-pathops' documented contract).
`fail`: set of engine entry points that raise PathOpsError (to check that errors propagate)."""
from __future__ import annotations

from typing import Any, Dict, List, Optional, Tuple

from sa.sym import Ext, Interp, PyCallable, PyRaise, Undecided


class Enum(Ext):
    def __init__(self, name):
        self.name = name

    def sym_eq(self, it, other):
        return isinstance(other, Enum) and other.name == self.name

    def sym_truth(self, it):
        return True

    def sym_copy(self):
        return self

    def __hash__(self):
        return hash(self.name)

    def __eq__(self, other):
        return isinstance(other, Enum) and other.name == self.name

    def __repr__(self):
        return self.name


VERB_OF = {"moveTo": "PathVerb.MOVE", "lineTo": "PathVerb.LINE", "quadTo": "PathVerb.QUAD", "cubicTo": "PathVerb.CUBIC", "close": "PathVerb.CLOSE"}
NPTS = {"moveTo": 1, "lineTo": 1, "quadTo": 2, "cubicTo": 3, "close": 0}


class SkPath(Ext):
    def __init__(self, model, fill="FillType.WINDING"):
        self.model = model
        self.fill = fill
        self.verbs: List[Tuple[str, tuple]] = []  # builder calls
        self.region = None  # set when the contours come from the engine
        self.normalized = False
        self.calls: List[tuple] = []  # engine calls applied, in order
        self.result_of: Optional[tuple] = None

    def current_region(self):
        if self.region is not None:
            return self.region
        return ("fill", tuple(self.verbs), self.fill, tuple(c for c in self.calls if c[0] in ("transform", "stroke", "conics")))

    def clone(self):
        c = SkPath(self.model, self.fill)
        c.verbs, c.region, c.normalized, c.calls, c.result_of = list(self.verbs), self.region, self.normalized, list(self.calls), self.result_of
        return c

    def sym_copy(self):
        return self.clone()

    def _concrete_box(self):
        """(x1, y1, x2, y2) of a path the engine has not touched whose segments are straight and whose coordinates are constants."""
        from sa.sym import is_num, to_rf
        if self.region is not None or self.calls or not self.verbs or any(n not in ("moveTo", "lineTo", "close") for n, _ in self.verbs):
            return None
        xs, ys = [], []
        for n, a in self.verbs:
            for i, v in enumerate(a):
                if not is_num(v) or not to_rf(v).is_const():
                    return None
                (xs if i % 2 == 0 else ys).append(to_rf(v).const_value())
        if not xs:
            return None
        return (min(xs), min(ys), max(xs), max(ys))

    def sym_truth(self, it):
        return bool(self.verbs) or self.region is not None

    def sym_len(self):
        if self.region is not None:
            raise Undecided("number of verbs of an engine result")
        return len(self.verbs)

    def sym_eq(self, it, other):
        return other is self

    def sym_iter(self, it):
        if self.region is None and not any(c[0] in ("transform", "stroke") for c in self.calls):
            out = []
            for name, args in self.verbs:
                n = NPTS[name]
                pts = tuple((args[2 * i], args[2 * i + 1]) for i in range(n))
                out.append((Enum(VERB_OF[name]), pts))
            return out
        return [(Enum("PathVerb.MOVE"), ((SkResult(self), 0),))]

    def sym_getattr(self, it, attr):
        m = self.model
        if attr in NPTS:
            def build(i, a, k):
                if len(a) != 2 * NPTS[attr]:
                    raise PyRaise("TypeError", None, f"Path.{attr} takes {2 * NPTS[attr]} coordinates")
                self.verbs.append((attr, tuple(a)))
            return PyCallable(build)
        if attr == "fillType":
            return Enum(self.fill)
        if attr in ("verbs", "points") and self.region is None:
            return [Enum(VERB_OF[n]) for n, _ in self.verbs] if attr == "verbs" else [p for n, a in self.verbs for p in zip(a[::2], a[1::2])]
        if attr == "simplify":
            def simplify(i, a, k):
                fw = bool(k.get("fix_winding", a[0] if a else False))
                m.log.append(("simplify", fw))
                if "simplify" in m.fail:
                    raise PyRaise("PathOpsError", None, "simplify failed")
                self.region = ("simplified", self.current_region()) if self.region is None else self.region
                self.calls.append(("simplify", fw))
                self.normalized = fw
                if fw:
                    self.fill = "FillType.WINDING"
                return None
            return PyCallable(simplify)
        if attr == "transform":
            def tf(i, a, k):
                c = self.clone()
                c.calls.append(("transform", tuple(a)))
                return c
            return PyCallable(tf)
        if attr == "stroke":
            def st(i, a, k):
                self.calls.append(("stroke", tuple(a), tuple(sorted(k.items()))))
            return PyCallable(st)
        if attr == "convertConicsToQuads":
            return PyCallable(lambda i, a, k: self.calls.append(("conics", tuple(a))))
        if attr in ("bounds", "controlPointBounds"):
            conc = self._concrete_box()
            if conc is not None:
                return conc
            return (attr, self)
        if attr == "area":
            return SkArea(self)
        if attr == "isConvex":
            # a fact about the contours the analysis does not know: both answers are explored
            from sa.sym import Cond
            return it.decide(Cond("skia-convex", (repr(self.current_region()),)))
        if attr in ("contours", "segments") and self.region is None and not self.calls:
            if attr == "segments":
                return [(n, tuple(zip(a[::2], a[1::2]))) for n, a in self.verbs]
            out, cur = [], None
            for n, a in self.verbs:
                if n == "moveTo" or cur is None:
                    cur = []
                    out.append(cur)
                cur.append((n, a))
            return out
        raise Undecided(f"pathops.Path.{attr} is not part of the model")


class SkResult(Ext):
    """The contours of an engine result, as one opaque coordinate."""

    def __init__(self, path: SkPath):
        self.path = path

    def sym_copy(self):
        return self

    def sym_eq(self, it, other):
        return other is self

    def __repr__(self):
        return f"<result {self.path.current_region()!r} normalized={self.path.normalized}>"


class SkArea(Ext):
    """pathops.Path.area: the absolute sum of the signed contour areas.  Only for contours that came out of a fix_winding
    call does `area == 0` say that the region is empty; on raw contours opposite windings cancel."""

    def __init__(self, path):
        self.path = path.clone() if hasattr(path, "clone") else path

    def sym_copy(self):
        return self

    def __repr__(self):
        return f"area<{self.path.current_region()!r} normalized={self.path.normalized}>"

    def _positive(self):
        from sa.sym import Cond
        return Cond("area-positive", (self,))

    def sym_compare(self, it, sym, other):
        from sa.sym import Cond, is_num, to_rf
        if not (is_num(other) and to_rf(other).is_const() and to_rf(other).const_value() == 0):
            raise Undecided(f"comparison of an engine area with {other!r}")
        if sym == ">":
            return self._positive()
        if sym == "<=":
            return Cond("not", (self._positive(),))
        return sym == ">="  # an area is never negative

    def sym_eq(self, it, other):
        from sa.sym import Cond, is_num, to_rf
        if other is self:
            return True
        if is_num(other) and to_rf(other).is_const() and to_rf(other).const_value() == 0:
            return Cond("not", (self._positive(),))
        raise Undecided(f"equality of an engine area with {other!r}")

    def sym_truth(self, it):
        return self._positive()


class PathopsModel(Ext):
    def __init__(self, fail=()):
        self.fail = set(fail)
        self.log: List[tuple] = []

    def sym_getattr(self, it, attr):
        if attr in ("FillType", "PathOp", "PathVerb", "LineCap", "LineJoin"):
            return _EnumNS(attr)
        if attr == "PathOpsError":
            return _ExcClass("PathOpsError")
        if attr == "Path":
            return _PathClass(self)
        if attr == "op":
            def op(i, a, k):
                p1, p2, kind = a[0], a[1], a[2]
                fw = bool(k.get("fix_winding", a[3] if len(a) > 3 else False))
                self.log.append(("op", repr(kind), fw))
                if "op" in self.fail:
                    raise PyRaise("PathOpsError", None, "op failed")
                if not isinstance(p1, SkPath) or not isinstance(p2, SkPath):
                    raise Undecided("pathops.op on non-paths")
                r = SkPath(self, "FillType.WINDING" if fw else p1.fill)
                r.region = ("op", repr(kind), p1.current_region(), p2.current_region())
                r.normalized = fw
                r.calls = [("op", fw)]
                return r
            return PyCallable(op)
        raise Undecided(f"pathops.{attr} is not part of the model")


class _EnumNS(Ext):
    def __init__(self, ns):
        self.ns = ns

    def sym_getattr(self, it, attr):
        return Enum(f"{self.ns}.{attr}")


class _ExcClass(Ext):
    def __init__(self, name):
        self.name = name

    def sym_copy(self):
        return self


class _PathClass(Ext):
    def __init__(self, model):
        self.model = model

    def sym_call(self, it, args, kwargs):
        if args and isinstance(args[0], SkPath):
            return args[0].clone()
        ft = kwargs.get("fillType", args[0] if args else Enum("FillType.WINDING"))
        return SkPath(self.model, repr(ft))

    def sym_getattr(self, it, attr):
        if attr in NPTS:
            # unbound builder: Path.moveTo(path, *args)
            return _Builder(attr)
        raise Undecided(f"pathops.Path.{attr} is not part of the model")


class _Builder(Ext):
    def __init__(self, name):
        self.name = name

    def sym_call(self, it, args, kwargs):
        p = args[0]
        if not isinstance(p, SkPath):
            raise Undecided("builder called on a non-path")
        if len(args) - 1 != 2 * NPTS[self.name]:
            raise PyRaise("TypeError", None, f"Path.{self.name} takes {2 * NPTS[self.name]} coordinates")
        p.verbs.append((self.name, tuple(args[1:])))
        return None

    def sym_eq(self, it, other):
        return isinstance(other, _Builder) and other.name == self.name

    def sym_copy(self):
        return self

    def __repr__(self):
        return f"Path.{self.name}"


def install_skia(it: Interp, fail=()):
    model = PathopsModel(fail)
    if not hasattr(it, "ext_modules"):
        it.ext_modules = {}
    it.ext_modules["pathops"] = model
    return model

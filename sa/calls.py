"""E2: call resolution with light types, call graph, and must/may event summaries."""
from __future__ import annotations

import ast
from typing import Callable, Dict, Iterable, List, Optional, Set, Tuple

from sa.cfg import CFG, build_cfg, node_header, ordered_calls
from sa.core import AnalysisError, Module, Repo, call_name, unparse

FuncKey = Tuple[str, str]  # (module name, qualname)


class Resolver:
    def __init__(self, repo: Repo):
        self.repo = repo
        self._methods: Dict[str, List[FuncKey]] = {}
        for m in repo.modules.values():
            for q, f in m.functions.items():
                if getattr(f, "_class", None) is not None and "<locals>" not in q:
                    self._methods.setdefault(f.name, []).append((m.name, q))
        self._cfg: Dict[FuncKey, CFG] = {}
        self.unresolved: List[str] = []

    def func(self, key: FuncKey):
        return self.repo[key[0]].functions[key[1]]

    def cfg(self, key: FuncKey) -> CFG:
        if key not in self._cfg:
            self._cfg[key] = build_cfg(self.func(key))
        return self._cfg[key]

    def class_of(self, mod: Module, func) -> Optional[ast.ClassDef]:
        f = func
        while f is not None:
            c = getattr(f, "_class", None)
            if c is not None:
                return c
            # nested function: climb to the enclosing def
            p = getattr(f, "_parent", None)
            while p is not None and not isinstance(p, (ast.FunctionDef, ast.AsyncFunctionDef)):
                p = getattr(p, "_parent", None)
            f = p
        return None

    def method_in_class(self, mod: Module, cls: ast.ClassDef, name: str) -> Optional[FuncKey]:
        seen = set()
        stack = [(mod, cls)]
        while stack:
            m, c = stack.pop(0)
            if (m.name, c.name) in seen:
                continue
            seen.add((m.name, c.name))
            for q, f in m.functions.items():
                if getattr(f, "_class", None) is c and f.name == name and q == f"{self._clsq(m, c)}.{name}":
                    return (m.name, q)
            for b in c.bases:
                if isinstance(b, ast.Name):
                    r = self.repo.lookup(m, b.id)
                    if r and r[1] == "class":
                        stack.append((r[0], r[2]))
        return None

    def _clsq(self, m: Module, c: ast.ClassDef) -> str:
        for q, cc in m.classes.items():
            if cc is c:
                return q
        return c.name

    def resolve(self, mod: Module, func, call: ast.Call) -> List[FuncKey]:
        """Possible repo callees of `call` occurring inside `func` of `mod` ([] = external/builtin/unknown)."""
        f = call.func
        if isinstance(f, ast.Name):
            # local nested function?
            q = getattr(func, "_qualname", None)
            if q:
                lq = f"{q}.<locals>.{f.id}"
                if lq in mod.functions:
                    return [(mod.name, lq)]
            r = self.repo.lookup(mod, f.id)
            if r:
                m, kind, node = r
                if kind == "function":
                    return [(m.name, node.name)]
                if kind == "class":
                    k = self.method_in_class(m, node, "__init__")
                    out = [k] if k else []
                    k2 = self.method_in_class(m, node, "__post_init__")
                    if k2:
                        out.append(k2)
                    return out
            return []
        if isinstance(f, ast.Attribute):
            base = f.value
            name = f.attr
            if isinstance(base, ast.Name) and base.id in ("self", "cls"):
                c = self.class_of(mod, func)
                if c is not None:
                    k = self.method_in_class(mod, c, name)
                    if k:
                        return [k]
                    # subclass-only methods (e.g. SVGShape.as_path overridden): fall back to by-name
            if isinstance(base, ast.Call) and isinstance(base.func, ast.Name) and base.func.id == "super":
                c = self.class_of(mod, func)
                if c is not None:
                    for b in c.bases:
                        if isinstance(b, ast.Name):
                            r = self.repo.lookup(mod, b.id)
                            if r and r[1] == "class":
                                k = self.method_in_class(r[0], r[2], name)
                                if k:
                                    return [k]
                return []
            if isinstance(base, ast.Name):
                r = self.repo.lookup(mod, base.id)
                if r:
                    m, kind, node = r
                    if kind == "module":
                        if name in m.functions:
                            return [(m.name, name)]
                        if name in m.classes:
                            k = self.method_in_class(m, m.classes[name], "__init__")
                            return [k] if k else []
                        return []
                    if kind == "class":
                        k = self.method_in_class(m, node, name)
                        return [k] if k else []
                elif base.id in mod.imports:
                    return []  # third-party / stdlib module attribute
            # unknown receiver: resolve by method name over all repo classes
            cands = self._methods.get(name, [])
            return list(cands)
        return []

    # ---- call graph --------------------------------------------------------------
    def callees(self, key: FuncKey, include_nested=True, precise=False) -> Set[FuncKey]:
        mod = self.repo[key[0]]
        func = self.func(key)
        out: Set[FuncKey] = set()
        for n in ast.walk(func):
            if isinstance(n, ast.Call):
                if precise and not _precisely_resolved(n):
                    continue
                encl = _enclosing_def(n, func)
                for k in self.resolve(mod, encl, n):
                    out.add(k)
        return out

    def reachable_from(self, roots: Iterable[FuncKey], precise=False) -> Set[FuncKey]:
        seen: Set[FuncKey] = set()
        stack = list(roots)
        while stack:
            k = stack.pop()
            if k in seen:
                continue
            seen.add(k)
            stack.extend(self.callees(k, precise=precise) - seen)
        return seen

    def all_functions(self) -> List[FuncKey]:
        return [(m.name, q) for m in self.repo.modules.values() for q in m.functions]

    def callers_of(self, target: FuncKey) -> List[Tuple[FuncKey, ast.Call]]:
        out = []
        for key in self.all_functions():
            if "<locals>" in key[1]:
                continue
            mod = self.repo[key[0]]
            func = self.func(key)
            for n in ast.walk(func):
                if isinstance(n, ast.Call):
                    encl = _enclosing_def(n, func)
                    if target in self.resolve(mod, encl, n):
                        out.append((key, n))
        return out


def _precisely_resolved(call: ast.Call) -> bool:
    """Only calls whose callee does not depend on the run-time type of an arbitrary receiver are inlined:
    f(...), self.m(...), cls.m(...), Module.f(...), Class.m(...)."""
    f = call.func
    if isinstance(f, ast.Name):
        return True
    if isinstance(f, ast.Attribute) and isinstance(f.value, ast.Name):
        return f.value.id in ("self", "cls") or f.value.id[:1].isupper() or f.value.id in ("svg_meta", "svg_pathops", "svg_types")
    return False


def _enclosing_def(node, top):
    p = getattr(node, "_parent", None)
    while p is not None and p is not top:
        if isinstance(p, (ast.FunctionDef, ast.AsyncFunctionDef)):
            return p
        p = getattr(p, "_parent", None)
    return top


# ---- event summaries -----------------------------------------------------------------

class Events:
    """Maps CFG nodes of a function to the ordered list of events they produce.

    classify(call, callees) -> label or None.  A call to a repo helper that is not itself an
    event is *inlined* as a summary: its must-events (on every normal path through it) and
    may-events, recursively to `depth`.
    """

    def __init__(self, resolver: Resolver, classify: Callable, depth: int = 3,
                 inline_filter: Optional[Callable[[FuncKey], bool]] = None):
        self.r = resolver
        self.classify = classify
        self.depth = depth
        self.inline_filter = inline_filter or (lambda k: True)
        self._summ: Dict[FuncKey, Tuple[frozenset, frozenset]] = {}
        self._active: Set[FuncKey] = set()

    def node_events(self, key: FuncKey, n, depth=None) -> List[Tuple[str, bool, ast.AST]]:
        """[(label, must?, call node)] in evaluation order for CFG node n of function key."""
        depth = self.depth if depth is None else depth
        hdr = node_header(n)
        if hdr is None:
            return []
        mod = self.r.repo[key[0]]
        func = self.r.func(key)
        out = []
        for call in ordered_calls(hdr):
            encl = _enclosing_def(call, func)
            callees = self.r.resolve(mod, encl, call)
            lab = self.classify(call, callees)
            if lab is not None:
                labs = lab if isinstance(lab, (list, tuple)) else [lab]
                for l in labs:
                    out.append((l, True, call))
                continue
            if depth > 0 and _precisely_resolved(call):
                for k in callees:
                    if not self.inline_filter(k) or "<locals>" in k[1]:
                        continue
                    must, may = self.summary(k, depth - 1)
                    single = len(callees) == 1
                    for l in sorted(may):
                        out.append((l, single and l in must, call))
        return out

    def summary(self, key: FuncKey, depth) -> Tuple[frozenset, frozenset]:
        if key in self._summ:
            return self._summ[key]
        if key in self._active:
            return (frozenset(), frozenset())
        self._active.add(key)
        try:
            g = self.r.cfg(key)
            pd = g.postdominators()
            on_all_paths = pd.get(g.entry.id, set())
            must, may = set(), set()
            for n in g.stmt_nodes():
                for lab, m, _ in self.node_events(key, n, depth):
                    may.add(lab)
                    if m and n.id in on_all_paths:
                        must.add(lab)
            res = (frozenset(must), frozenset(may))
        finally:
            self._active.discard(key)
        self._summ[key] = res
        return res

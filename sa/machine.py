"""Abstract machine for svg.py: interpret methods of class SVG on an abstract DOM with symbolic geometry.

Geometry never becomes numbers: Skia operations are replaced by term constructors (GeomTok), affine
transforms by formal compositions (AffTok), path data by command lists (PathData).  What a method *does*
to a schematic document is then read off the resulting tree and terms, independent of how it is written."""
from __future__ import annotations

from typing import Any, Callable, Dict, List, Optional

from sa.core import Repo
from sa.dom import AffTok, El, ETREE_COMMENT, ETREE_PI, install_affine, install_dom, parse_affine
from sa.pathsem import PathData, install_path_hooks
from sa.poly import RF
from sa.sym import (Builtin, ClassRef, Cond, Ext, Interp, Outcome, PyCallable, PyRaise, Rec, SymStr, Undecided, Unknown,
                    explore, method_of, closure_of)


class GeomTok(Ext):
    """A symbolic geometry / command sequence: ("seq", source) | ("xf", g, affine) | ("isect", (g..), (rules..)) | ..."""

    def __init__(self, *term):
        self.term = tuple(term)

    def sym_eq(self, it, other):
        return isinstance(other, GeomTok) and repr(other) == repr(self)

    def sym_truth(self, it):
        return True

    def sym_copy(self):
        return self

    def sym_iter(self, it):
        # consumed by update_path / from_commands: one pseudo command carrying the whole geometry
        return [("G", (self,))]

    def sym_round(self, it, nd):
        return GeomTok("round", self, nd)

    def sym_getattr(self, it, attr):
        if attr == "d":
            # the printed path data of a command sequence: an opaque string that is the same for the same geometry
            from sa.sym import SymStr
            return SymStr(f"d<{self!r}>")
        raise Undecided(f"attribute {attr} of GeomTok")

    def __repr__(self):
        return "G" + repr(self.term)

    def contains(self, kind) -> bool:
        def rec(t):
            if isinstance(t, GeomTok):
                return rec(t.term)
            if isinstance(t, tuple):
                return (len(t) > 0 and t[0] == kind) or any(rec(x) for x in t)
            return False
        return rec(self.term)

    def flat(self) -> List[str]:
        """Operation kinds from innermost to outermost along the first-operand spine."""
        out = []
        t = self
        while isinstance(t, GeomTok):
            out.append(t.term[0])
            nxt = t.term[1] if len(t.term) > 1 else None
            if isinstance(nxt, tuple) and nxt and isinstance(nxt[0], GeomTok):
                nxt = nxt[0]
            t = nxt
        return list(reversed(out))


def geom_of(shape: Rec):
    """Identity of a shape's geometry for terms."""
    d = shape.f.get("d")
    if isinstance(d, PathData):
        if len(d.cmds) == 1 and d.cmds[0][0] == "G":
            return d.cmds[0][1][0]
        g = GeomTok("path", repr(d.cmds))
        g.cmds = list(d.cmds)
        return g
    if d is not None and not isinstance(d, PathData):
        g = GeomTok("path", repr(d))
        if d == "":
            g.cmds = []
        return g
    return GeomTok("shape", shape.cls.name, tuple(sorted((k, repr(v)) for k, v in shape.f.items()
                                                          if k in ("x", "y", "width", "height", "rx", "ry", "cx", "cy", "r", "x1", "y1", "x2", "y2", "points"))))


class NumAttr(Ext):
    """A numeric attribute value as it appears in the document (a string standing for the symbol `rf`)."""

    def __init__(self, rf):
        self.rf = rf if isinstance(rf, RF) else RF.of(rf)

    def sym_float(self, it):
        from sa.sym import simplify_num
        return simplify_num(self.rf)

    def sym_truth(self, it):
        return True

    def sym_eq(self, it, other):
        return isinstance(other, NumAttr) and other.rf.equals(self.rf)

    def sym_copy(self):
        return self

    def sym_getattr(self, it, attr):
        if attr == "strip":
            return PyCallable(lambda i, a, k: self)
        if attr in ("endswith", "startswith"):
            return PyCallable(lambda i, a, k: False)
        raise Undecided(f"str.{attr} on a numeric attribute")

    def __repr__(self):
        return f"{self.rf!r}"


def N(name_or_value):
    return NumAttr(RF.sym(name_or_value) if isinstance(name_or_value, str) else RF.of(name_or_value))


class Linked(Ext):
    """Stand-in for svg_meta._LinkedDefault(attr): calling it on an object reads that attribute."""

    def __init__(self, attr):
        self.attr = attr

    def sym_call(self, it, args, kwargs):
        return it.getattr(args[0], self.attr)

    def sym_eq(self, it, other):
        return isinstance(other, Linked) and other.attr == self.attr

    def sym_isinstance(self, it, t):
        return getattr(t, "name", "") in ("_LinkedDefault", "float")

    def sym_copy(self):
        return self

    def __repr__(self):
        return f"Linked({self.attr})"


class Trace(list):
    def add(self, *ev):
        self.append(tuple(ev))


def install_machine(it: Interp, trace: Optional[Trace] = None, area="symbolic", interpret_as_cmd_seq=False):
    install_dom(it)
    install_affine(it)
    install_path_hooks(it)
    trace = trace if trace is not None else Trace()
    it.trace = trace
    from sa.pathsem import is_snap_cond

    def generic(c):
        # symbolic coordinates stand for generic reals: not near a subpath start, not integral, not percentages
        if getattr(c, "op", None) == "not" and len(c.args) == 1:
            inner = generic(c.args[0])
            return None if inner is None else (not inner)
        if is_snap_cond(c):
            return False
        r = repr(c)
        if "is_integer(" in r or r.endswith("endswith '%'"):
            return False
        if getattr(c, "op", None) == "isfloat":
            return True  # symbolic attribute values are parsed with float()
        if getattr(c, "op", None) == "==" and len(c.args) == 2:
            from sa.sym import is_num, to_rf
            a, b = c.args
            if is_num(a) and is_num(b) and (to_rf(a).is_const() != to_rf(b).is_const()):
                return False  # a generic real is not the particular constant it is compared with
            if is_num(a) and is_num(b) and not to_rf(a).is_const() and not to_rf(b).is_const() and not to_rf(a).equals(to_rf(b)):
                return False  # two different generic reals
        return None

    it.auto_decide = generic
    # the path-command hook must accept the pseudo command G
    base_add_cmd = it.hooks[("svg_types", "SVGPath._add_cmd")]

    def add_cmd(i, a, k):
        if a[1] == "G":
            selfv = a[0]
            d = selfv.f.get("d", "")
            cmds = list(d.cmds) if isinstance(d, PathData) else []
            selfv.f["d"] = PathData(cmds + [("G", tuple(a[2:]))])
            return None
        return base_add_cmd(i, a, k)

    it.hooks[("svg_types", "SVGPath._add_cmd")] = add_cmd
    def as_cmd_seq(i, a, k):
        g = geom_of(a[0])
        cmds = getattr(g, "cmds", None)
        if cmds is not None and all(c in ("M", "m") for c, _ in cmds):
            # a path that only moves the pen: its normal form is known exactly (absolute moves)
            out, x, y = [], 0, 0
            for c, args in cmds:
                x, y = (args[0], args[1]) if c == "M" or not out else (x + args[0], y + args[1])
                out.append(("M", (x, y)))
            return out
        return GeomTok("seq", g)

    if not interpret_as_cmd_seq:
        it.hooks[("svg_types", "SVGShape.as_cmd_seq")] = as_cmd_seq
    it.hooks[("svg_meta", "_LinkedDefault")] = lambda i, a, k: Linked(a[0])

    # a symbolic number printed into an attribute stays that number (re-parsing a printed float gives it back)
    ntos_clo = closure_of(it.repo, "svg_meta", "ntos")

    def ntos(i, a, k):
        from sa.sym import simplify_num
        v = simplify_num(a[0]) if isinstance(a[0], RF) else a[0]
        if isinstance(v, RF):
            return NumAttr(v)
        return i.call_closure(ntos_clo, a, k)

    it.hooks[("svg_meta", "ntos")] = ntos

    # path rewrites applied to geometry that came from the engine: keep them as terms
    def opaque_rewrite(name, kind):
        clo = method_of(it.repo, "svg_types", "SVGPath", name)

        def hook(i, a, k):
            selfv = a[0]
            d = selfv.f.get("d")
            if not (isinstance(d, PathData) and d.cmds and all(c == "G" for c, _ in d.cmds)):
                return i.call_closure(clo, a, k)
            params = [p.arg for p in clo.node.args.args][1:]
            bound = dict(zip(params, a[1:]))
            bound.update(k)
            inplace = bool(bound.pop("inplace", False))
            target = selfv if inplace else i.deepcopy(selfv)
            extra = tuple(bound[p] for p in params if p in bound)
            if kind == "round":
                # numeric fields are rounded by the real SVGShape.round_floats; the path data becomes round(g, ndigits)
                base = i.find_method(ClassRef("svg_types", "SVGShape"), name)
                if base:
                    m, cd, fnode = base
                    from sa.sym import Closure
                    target = i.call_closure(Closure(m, fnode, None, f"SVGShape.{name}"), [selfv] + list(a[1:]), k)
            target.f["d"] = PathData([("G", (GeomTok(kind, *(g for _, (g,) in d.cmds), *extra),))])
            return target
        it.hooks[("svg_types", f"SVGPath.{name}")] = hook

    for nm, kind in (("absolute", "absolute"), ("absolute_moveto", "absolute"), ("relative", "relative"), ("explicit_lines", "explicit-lines"),
                     ("expand_shorthand", "expand-shorthand"), ("arcs_to_cubics", "arcs-to-cubics"), ("move", "move"),
                     ("remove_empty_subpaths", "nonempty-subpaths"), ("round_floats", "round"), ("round_multiple", "round-multiple")):
        if it.find_method(ClassRef("svg_types", "SVGPath"), nm):
            opaque_rewrite(nm, kind)
    P = "svg_pathops"
    it.hooks[(P, "transform")] = lambda i, a, k: GeomTok("xf", a[0], a[1])
    it.hooks[(P, "union")] = lambda i, a, k: GeomTok("union", tuple(i.iterate(a[0])), tuple(i.iterate(a[1])))
    it.hooks[(P, "intersection")] = lambda i, a, k: GeomTok("isect", tuple(i.iterate(a[0])), tuple(i.iterate(a[1])))
    it.hooks[(P, "difference")] = lambda i, a, k: GeomTok("diff", tuple(i.iterate(a[0])), tuple(i.iterate(a[1])))
    it.hooks[(P, "remove_overlaps")] = lambda i, a, k: GeomTok("simplify", a[0], k.get("fill_rule", a[1] if len(a) > 1 else None))
    it.hooks[(P, "stroke")] = lambda i, a, k: GeomTok("stroke", a[0], tuple(a[1:]), tuple(sorted(k.items())))
    def bounding_box(i, a, k):
        # straight segments between constant points have a box the analysis can compute; anything else is four symbols
        src = a[0]
        while isinstance(src, GeomTok) and src.term[0] == "seq":
            src = src.term[1]
        cmds = getattr(src, "cmds", None) if isinstance(src, GeomTok) and src.term[0] == "path" else None
        if cmds and all(c in "MLHVZmlhvz" for c, _ in cmds):
            from sa.pathsem import ref_interp
            from sa.sym import to_rf
            try:
                pts = [p for seg in ref_interp(list(cmds)) for p in seg[1:] if isinstance(p, tuple) and len(p) == 2]
                if pts and all(to_rf(c).is_const() for p in pts for c in p):
                    xs = [to_rf(p[0]).const_value() for p in pts]
                    ys = [to_rf(p[1]).const_value() for p in pts]
                    return (min(xs), min(ys), max(xs), max(ys))
            except Exception:
                pass
        return tuple(RF.sym(f"bb{n}<{a[0]!r}>") for n in ("x1", "y1", "x2", "y2"))

    it.hooks[(P, "bounding_box")] = bounding_box

    def path_area(i, a, k):
        src = a[0]
        while isinstance(src, GeomTok) and src.term[0] == "seq":
            src = src.term[1]
        if isinstance(src, GeomTok) and src.term[0] == "path" and all(c in ("M", "m") for c, _ in getattr(src, "cmds", [("?", ())])):
            return 0  # a path that only moves the pen encloses nothing
        if callable(area):
            import inspect
            if len(inspect.signature(area).parameters) >= 2:
                return area(a[0], k.get("fill_rule", a[1] if len(a) > 1 else "nonzero"))
            return area(a[0])
        if area == "symbolic":
            return RF.sym(f"area_{abs(hash(repr(a[0]))) % 9973}")
        return area

    it.hooks[(P, "path_area")] = path_area

    # code that talks to the engine directly (not through one of the functions above) meets the abstract engine; a path
    # built from a geometry token is that token under the given fill type
    from sa.skia import SkPath, install_skia
    if "pathops" not in getattr(it, "ext_modules", {}):
        model = install_skia(it)
        base_skia_path = closure_of(it.repo, "svg_pathops", "skia_path") if "skia_path" in it.repo["svg_pathops"].functions else None

        def skia_path(i, a, k):
            src = a[0]
            rule = k.get("fill_rule", a[1] if len(a) > 1 else "nonzero")
            if isinstance(src, GeomTok):
                p = SkPath(model, {"nonzero": "FillType.WINDING", "evenodd": "FillType.EVEN_ODD"}.get(rule, repr(rule)))
                p.verbs = [("geometry", (src,))]
                return p
            if base_skia_path is None:
                raise Undecided("svg_pathops.skia_path is gone")
            return i.call_closure(base_skia_path, a, k)

        it.hooks[(P, "skia_path")] = skia_path
    return trace


class SvgOf:
    """Argument placeholder: an SVG object to be built by the repository's own SVG.__init__(root)."""

    def __init__(self, root: El):
        self.f = {"svg_root": root}
        self.rec = None


def make_svg(root: El, elements=None):
    return SvgOf(root)


def run(repo: Repo, cls_method, build: Callable[[], tuple], setup_extra: Optional[Callable[[Interp], None]] = None,
        max_paths=64, module="svg", **mk) -> List[Outcome]:
    """Interpret `Class.method` (or a module function when there is no dot) with arguments from build().
    `cls_method` may also be a python callable body(it, args, kwargs) that drives several calls itself."""
    if callable(cls_method):
        fn = PyCallable(cls_method)
    elif "." in cls_method:
        c, m = cls_method.split(".", 1)
        fn = method_of(repo, module, c, m)
    else:
        fn = closure_of(repo, module, cls_method)

    def setup(it):
        install_machine(it, **mk)
        if setup_extra:
            setup_extra(it)

    def entry(it, a, k):
        def conv(x):
            if isinstance(x, SvgOf):
                x.rec = it.construct(ClassRef("svg", "SVG"), [x.f["svg_root"]], {})
                x.f = x.rec.f
                return x.rec
            return x
        return it.call(fn, [conv(x) for x in a], {kk: conv(v) for kk, v in k.items()})

    return explore(repo, PyCallable(entry), [], fresh_args=build, setup=setup, max_paths=max_paths)


def ok_outcomes(outs: List[Outcome], where: str) -> List[Outcome]:
    from sa.core import AnalysisError
    for o in outs:
        if o.undecided:
            raise AnalysisError(f"{where}: abstract machine cannot interpret this code: {o.undecided}")
    return outs

"""Self-test of the rules: in-memory source variants on which a rule must fire / stay silent.

Because no check executes repository code, a variant does not need a scratch copy on
disk: the edited source text is handed to the loader as an overlay.  Every variant is
compile()d first (it must still be valid Python, like a change that "still compiles").
An edit is located by qualified function name through the AST and applied inside that
function's source segment; an edit whose locator no longer matches marks the variant
STALE (reported in the evidence, not a failure of the property check).
"""
from __future__ import annotations

import ast
import concurrent.futures as cf
from dataclasses import dataclass, field
from typing import Dict, List, Optional, Sequence, Tuple

from sa.core import AnalysisError, Repo, Report, PKG_REL, load_known


@dataclass
class Edit:
    module: str  # e.g. "svg"
    qualname: Optional[str]  # function/class qualname to scope the edit to, None = whole file
    old: str
    new: str
    count: int = 1  # occurrences expected inside the scope


@dataclass
class Variant:
    name: str
    edits: Sequence[Edit]
    expect: Sequence[Tuple[str, str]] = ()  # (rule prefix, function substring) ; () + silent=True => must be silent
    silent: bool = False
    note: str = ""
    allow_analysis_error: bool = False  # an exit-2 (anchor gone) counts as detected for this variant


class Stale(Exception):
    pass


def apply_edits(repo: Repo, edits: Sequence[Edit]) -> Dict[str, str]:
    out: Dict[str, str] = {}
    for e in edits:
        mod = repo[e.module]
        rel = f"{PKG_REL}/{e.module}.py"
        src = out.get(rel, mod.src)
        if e.qualname is None:
            lo, hi = 0, len(src)
        else:
            # locate in the *current* text (a previous edit may have shifted offsets)
            tree = ast.parse(src)
            target = None
            for n in ast.walk(tree):
                if isinstance(n, (ast.FunctionDef, ast.ClassDef, ast.AsyncFunctionDef)):
                    pass
            target = _find_qual(tree, e.qualname)
            if target is None:
                raise Stale(f"{e.module}.{e.qualname} not found")
            lines = src.splitlines(keepends=True)
            start_line = min([target.lineno] + [d.lineno for d in getattr(target, "decorator_list", [])])
            lo = sum(len(l) for l in lines[: start_line - 1])
            hi = sum(len(l) for l in lines[: target.end_lineno])
        seg = src[lo:hi]
        if seg.count(e.old) != e.count:
            raise Stale(f"{e.module}.{e.qualname}: expected {e.count} occurrence(s) of {e.old!r}, found {seg.count(e.old)}")
        seg = seg.replace(e.old, e.new)
        src = src[:lo] + seg + src[hi:]
        try:
            compile(src, rel, "exec")
        except SyntaxError as ex:
            raise Stale(f"variant does not compile: {ex}")
        out[rel] = src
    return out


def _find_qual(tree, qualname):
    parts = qualname.split(".")

    def rec(body, parts):
        for st in body:
            if isinstance(st, (ast.FunctionDef, ast.ClassDef, ast.AsyncFunctionDef)) and st.name == parts[0]:
                if len(parts) == 1:
                    return st
                rest = parts[1:]
                if rest and rest[0] == "<locals>":
                    rest = rest[1:]
                r = rec(st.body, rest)
                if r is not None:
                    return r
            elif isinstance(st, (ast.If, ast.Try, ast.With, ast.For, ast.While)):
                for fld in ("body", "orelse", "finalbody"):
                    r = rec(getattr(st, fld, []) or [], parts)
                    if r is not None:
                        return r
        return None

    return rec(tree.body, parts)


def _run_variant(args):
    prop, modname, root, v, clean_keys = args
    import importlib

    mod = importlib.import_module(modname)
    res = {"name": v.name, "kind": "silent" if v.silent else "fire", "note": v.note}
    try:
        base = Repo(root)
        overlay = apply_edits(base, v.edits)
    except Stale as e:
        res.update(status="STALE", detail=str(e))
        return res
    try:
        repo = Repo(root, overlay)
        rep = Report(prop, "selftest")
        try:
            mod.run(repo, rep)
        except AnalysisError:
            # a violation reported before a later rule gave up stands (same policy as the driver)
            if not any(f.key() not in clean_keys for f in rep.findings):
                raise
        keys = {f.key(): f for f in rep.findings}
        new = {k: f for k, f in keys.items() if k not in clean_keys}
        res["new_findings"] = [f"[{k[0]}] {k[1]}: {k[2][:80]}" for k in sorted(new)][:8]
        if v.silent:
            if new:
                res.update(status="FAILED", detail="silent-variant produced findings: " + "; ".join(res["new_findings"]))
            else:
                res.update(status="ok", detail="no new finding, as required")
        else:
            hit = [
                k for k in new
                if any(k[0].startswith(rp) and fs in k[1] for rp, fs in v.expect)
            ] if v.expect else list(new)
            if hit:
                res.update(status="ok", detail=f"fired: [{hit[0][0]}] {hit[0][1]}")
            elif new:
                res.update(status="FAILED", detail="fired, but not with the expected rule/function: " + "; ".join(res["new_findings"]))
            else:
                res.update(status="FAILED", detail="rule did not fire on a variant that breaks the clause")
    except AnalysisError as e:
        if v.allow_analysis_error and not v.silent:
            res.update(status="ok", detail=f"analysis error (fail-closed): {e}")
        else:
            res.update(status="FAILED", detail=f"analysis error on variant: {e}")
    return res


def run_selftest(prop, mod, repo: Repo, clean_report: Report, jobs=16):
    variants: List[Variant] = list(getattr(mod, "VARIANTS", []))
    clean_keys = {f.key() for f in clean_report.findings}
    tasks = [(prop, mod.__name__, repo.root, v, clean_keys) for v in variants]
    results = []
    if not tasks:
        return {"variants": [], "fired": 0, "silent_ok": 0, "stale": 0, "failed": 0}
    if jobs > 1 and len(tasks) > 3:
        try:
            with cf.ProcessPoolExecutor(max_workers=min(jobs, len(tasks))) as ex:
                results = list(ex.map(_run_variant, tasks))
        except Exception:
            results = [_run_variant(t) for t in tasks]
    else:
        results = [_run_variant(t) for t in tasks]
    out = {
        "variants": results,
        "fired": sum(1 for r in results if r["status"] == "ok" and r["kind"] == "fire"),
        "silent_ok": sum(1 for r in results if r["status"] == "ok" and r["kind"] == "silent"),
        "stale": sum(1 for r in results if r["status"] == "STALE"),
        "failed": sum(1 for r in results if r["status"] == "FAILED"),
    }
    for r in results:
        if r["status"] == "STALE":
            print(f"SELFTEST-STALE {prop} variant={r['name']}: {r['detail']}")
    print(f"{prop}: self-test variants={len(results)} fired={out['fired']} silent_ok={out['silent_ok']} "
          f"stale={out['stale']} failed={out['failed']}")
    return out

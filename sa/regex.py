"""E6: regular-expression automata built from `re._parser` syntax trees.

A pattern *string* (folded out of the source by E1, or a transcribed specification grammar) is
parsed with CPython's own regex parser, converted to a position (Glushkov) automaton over a
finite partition of the characters that matter, and determinised.  Provided:
  * 1-unambiguity test (Glushkov automaton deterministic) - for such a pattern with only greedy
    quantifiers Python's backtracking `match` returns the *longest* prefix in the language, which
    lets the tokenizer be modelled as iterated longest-prefix;
  * language inclusion / difference with shortest witnesses, nullability, first sets;
  * bounded enumeration of words.
The patterns are data; no repository code is run.
"""
from __future__ import annotations

import re
from collections import deque
from typing import Dict, FrozenSet, Iterable, List, Optional, Sequence, Set, Tuple

try:
    import re._parser as sre_parse  # py3.11+
    import re._constants as sre_c
except ImportError:  # pragma: no cover
    import sre_parse  # type: ignore
    import sre_constants as sre_c  # type: ignore

from sa.core import AnalysisError


class RegexUnsupported(AnalysisError):
    pass


# ---- syntax -----------------------------------------------------------------------
class Leaf:
    def __init__(self, pred, text):
        self.pred = pred  # callable(char) -> bool
        self.text = text


def _category(cat):
    name = str(cat)
    if name.endswith("CATEGORY_DIGIT"):
        return lambda ch: ch.isdigit()
    if name.endswith("CATEGORY_NOT_DIGIT"):
        return lambda ch: not ch.isdigit()
    if name.endswith("CATEGORY_SPACE"):
        return lambda ch: ch.isspace()
    if name.endswith("CATEGORY_NOT_SPACE"):
        return lambda ch: not ch.isspace()
    if name.endswith("CATEGORY_WORD"):
        return lambda ch: ch.isalnum() or ch == "_"
    if name.endswith("CATEGORY_NOT_WORD"):
        return lambda ch: not (ch.isalnum() or ch == "_")
    raise RegexUnsupported(f"regex category {name}")


class Rx:
    """Regex AST: ('leaf', Leaf) | ('cat', [..]) | ('alt', [..]) | ('rep', node, min, max) | ('eps',)"""


def parse(pattern: str, flags: int = 0):
    try:
        p = sre_parse.parse(pattern, flags)
    except re.error as e:
        raise RegexUnsupported(f"pattern {pattern!r} does not parse: {e}")
    fl = p.state.flags if hasattr(p, "state") else p.pattern.flags
    icase = bool(fl & re.IGNORECASE)
    info = {"mentioned": set(), "anchored_start": False, "anchored_end": False, "icase": icase, "lazy": False,
            "groups": p.state.groups - 1 if hasattr(p, "state") else 0}
    items = list(p)
    if items and items[0][0] == sre_c.AT and str(items[0][1]).endswith("AT_BEGINNING"):
        info["anchored_start"] = True
        items = items[1:]
    if items and items[-1][0] == sre_c.AT and str(items[-1][1]).endswith("AT_END"):
        info["anchored_end"] = True
        items = items[:-1]
    node = _seq(items, info)
    return node, info


def _lit_pred(code, icase):
    ch = chr(code)
    if icase and ch.lower() != ch.upper():
        lo, up = ch.lower(), ch.upper()
        return (lambda c: c == lo or c == up), {lo, up}
    return (lambda c: c == ch), {ch}


def _seq(items, info):
    parts = [_node(op, av, info) for op, av in items]
    parts = [p for p in parts if p != ("eps",)]
    if not parts:
        return ("eps",)
    if len(parts) == 1:
        return parts[0]
    return ("cat", parts)


def _node(op, av, info):
    icase = info["icase"]
    if op == sre_c.LITERAL:
        pred, ment = _lit_pred(av, icase)
        info["mentioned"] |= ment
        return ("leaf", Leaf(pred, repr(chr(av))))
    if op == sre_c.NOT_LITERAL:
        pred, ment = _lit_pred(av, icase)
        info["mentioned"] |= ment
        return ("leaf", Leaf(lambda c, p=pred: not p(c), f"[^{chr(av)}]"))
    if op == sre_c.ANY:
        return ("leaf", Leaf(lambda c: c != "\n", "."))
    if op == sre_c.IN:
        negate = False
        preds = []
        for o, a in av:
            if o == sre_c.NEGATE:
                negate = True
            elif o == sre_c.LITERAL:
                pr, ment = _lit_pred(a, icase)
                info["mentioned"] |= ment
                preds.append(pr)
            elif o == sre_c.RANGE:
                lo, hi = a
                if hi - lo > 512:
                    raise RegexUnsupported("character range too large")
                for code in range(lo, hi + 1):
                    info["mentioned"].add(chr(code))
                    if icase:
                        info["mentioned"] |= {chr(code).lower(), chr(code).upper()}
                if icase:
                    preds.append(lambda c, lo=lo, hi=hi: any(lo <= ord(x) <= hi for x in {c, c.lower(), c.upper()} if len(x) == 1))
                else:
                    preds.append(lambda c, lo=lo, hi=hi: lo <= ord(c) <= hi)
            elif o == sre_c.CATEGORY:
                preds.append(_category(a))
            else:
                raise RegexUnsupported(f"set item {o}")
        if negate:
            return ("leaf", Leaf(lambda c, ps=tuple(preds): not any(p(c) for p in ps), "[^...]"))
        return ("leaf", Leaf(lambda c, ps=tuple(preds): any(p(c) for p in ps), "[...]"))
    if op == sre_c.CATEGORY:
        return ("leaf", Leaf(_category(av), str(av)))
    if op == sre_c.SUBPATTERN:
        sub = av[-1]
        return _seq(list(sub), info)
    if op == sre_c.BRANCH:
        alts = [_seq(list(b), info) for b in av[1]]
        return ("alt", alts)
    if op in (sre_c.MAX_REPEAT, sre_c.MIN_REPEAT) or str(op) == "POSSESSIVE_REPEAT":
        lo, hi, sub = av
        if op == sre_c.MIN_REPEAT:
            info["lazy"] = True
        body = _seq(list(sub), info)
        hi = None if hi == sre_c.MAXREPEAT else hi
        return ("rep", body, lo, hi)
    if op == sre_c.AT:
        nm = str(av)
        if nm.endswith("AT_BEGINNING") or nm.endswith("AT_END"):
            info.setdefault("inner_anchor", True)
            return ("eps",)
        raise RegexUnsupported(f"anchor {nm}")
    raise RegexUnsupported(f"regex construct {op}")


def _expand(node):
    """Rewrite bounded repeats into cat/opt/star so that only ('star', x) and ('opt', x) remain."""
    k = node[0]
    if k in ("leaf", "eps"):
        return node
    if k == "cat":
        return ("cat", [_expand(c) for c in node[1]])
    if k == "alt":
        return ("alt", [_expand(c) for c in node[1]])
    if k in ("star", "opt"):
        return (k, _expand(node[1]))
    if k == "rep":
        _, body, lo, hi = node
        body = _expand(body)
        parts = [body] * lo
        if hi is None:
            parts.append(("star", body))
        else:
            if hi - lo > 16:
                raise RegexUnsupported("bounded repeat too large")
            opt = None
            for _ in range(hi - lo):
                opt = ("opt", body if opt is None else ("cat", [body, opt]))
            if opt is not None:
                parts.append(opt)
        if not parts:
            return ("eps",)
        return parts[0] if len(parts) == 1 else ("cat", parts)
    raise RegexUnsupported(k)


# ---- Glushkov construction ---------------------------------------------------------
class Glushkov:
    def __init__(self, node):
        self.leaves: List[Leaf] = []
        node = _expand(node)
        self.nullable, self.first, self.last, self.follow = self._build(node)

    def _build(self, node):
        follow: Dict[int, Set[int]] = {}

        def rec(n):
            k = n[0]
            if k == "eps":
                return True, set(), set()
            if k == "leaf":
                i = len(self.leaves)
                self.leaves.append(n[1])
                follow[i] = set()
                return False, {i}, {i}
            if k == "cat":
                nullable, first, last = True, set(), set()
                for c in n[1]:
                    cn, cf, cl = rec(c)
                    for p in last:
                        follow[p] |= cf
                    if nullable:
                        first |= cf
                    last = (last | cl) if cn else set(cl)
                    nullable = nullable and cn
                return nullable, first, last
            if k == "alt":
                nullable, first, last = False, set(), set()
                for c in n[1]:
                    cn, cf, cl = rec(c)
                    nullable = nullable or cn
                    first |= cf
                    last |= cl
                return nullable, first, last
            if k in ("star", "opt"):
                cn, cf, cl = rec(n[1])
                if k == "star":
                    for p in cl:
                        follow[p] |= cf
                return True, cf, cl
            raise RegexUnsupported(k)

        nullable, first, last = rec(node)
        return nullable, first, last, follow


class Alphabet:
    """Finite set of representative characters: every mentioned character plus representatives of the rest."""

    def __init__(self, mentioned: Iterable[str], extra: Iterable[str] = ()):
        chars = set(mentioned) | set(extra)
        for rep in ("#", "β", "\x0b", "~", "@", "\n"):
            chars.add(rep)
        self.chars = sorted(chars)

    def refine(self, leaves: Sequence[Leaf]) -> List[str]:
        """One representative per block of the partition induced by the leaf predicates."""
        sig: Dict[Tuple[bool, ...], str] = {}
        for ch in self.chars:
            s = tuple(bool(l.pred(ch)) for l in leaves)
            sig.setdefault(s, ch)
        return sorted(sig.values())


class DFA:
    def __init__(self, alphabet: List[str], trans: List[Dict[str, int]], accept: Set[int], names=None):
        self.alphabet = alphabet
        self.trans = trans
        self.accept = accept

    @staticmethod
    def from_glushkov(g: Glushkov, alphabet: List[str]) -> "DFA":
        start = frozenset({-1})
        states = {start: 0}
        trans: List[Dict[str, int]] = [{}]
        accept: Set[int] = set()
        if g.nullable:
            accept.add(0)
        q = deque([start])
        while q:
            S = q.popleft()
            si = states[S]
            for ch in alphabet:
                T = set()
                for p in S:
                    nxt = g.first if p == -1 else g.follow[p]
                    for n in nxt:
                        if g.leaves[n].pred(ch):
                            T.add(n)
                if not T:
                    continue
                T = frozenset(T)
                if T not in states:
                    states[T] = len(trans)
                    trans.append({})
                    if T & g.last:
                        accept.add(states[T])
                    q.append(T)
                trans[si][ch] = states[T]
        return DFA(alphabet, trans, accept)

    def run(self, word: str) -> Optional[int]:
        s = 0
        for ch in word:
            s = self.trans[s].get(ch)
            if s is None:
                return None
        return s

    def accepts(self, word: str) -> bool:
        s = self.run(word)
        return s is not None and s in self.accept

    def longest_prefix(self, word: str, start: int = 0) -> Optional[int]:
        """Length of the longest prefix of word[start:] in the language, or None."""
        s = 0
        best = 0 if 0 in self.accept else None
        for i in range(start, len(word)):
            s = self.trans[s].get(word[i])
            if s is None:
                break
            if s in self.accept:
                best = i - start + 1
        return best

    def words(self, maxlen: int) -> Iterable[str]:
        q = deque([("", 0)])
        while q:
            w, s = q.popleft()
            if s in self.accept:
                yield w
            if len(w) < maxlen:
                for ch in self.alphabet:
                    t = self.trans[s].get(ch)
                    if t is not None:
                        q.append((w + ch, t))

    def n_states(self):
        return len(self.trans)


def glushkov_deterministic(g: Glushkov, alphabet: List[str]) -> Optional[str]:
    """None if the position automaton is deterministic, else a description of the conflict."""
    for p in [-1] + list(range(len(g.leaves))):
        nxt = sorted(g.first if p == -1 else g.follow[p])
        for ch in alphabet:
            hits = [n for n in nxt if g.leaves[n].pred(ch)]
            if len(hits) > 1:
                src = "start" if p == -1 else f"position {p} ({g.leaves[p].text})"
                return f"after {src}, character {ch!r} can continue at positions {hits}"
    return None


def difference_witness(a: DFA, b: DFA, maxlen=64) -> Optional[str]:
    """Shortest word in L(a) \\ L(b) (same alphabet required), or None if L(a) is included in L(b)."""
    assert a.alphabet == b.alphabet
    start = (0, 0)
    seen = {start}
    q = deque([(start, "")])
    while q:
        (sa, sb), w = q.popleft()
        if sa in a.accept and (sb is None or sb not in b.accept):
            return w
        if len(w) >= maxlen:
            continue
        for ch in a.alphabet:
            ta = a.trans[sa].get(ch)
            if ta is None:
                continue
            tb = None if sb is None else b.trans[sb].get(ch)
            st = (ta, tb)
            if st not in seen:
                seen.add(st)
                q.append((st, w + ch))
    return None


class Compiled:
    def __init__(self, pattern: str, flags: int = 0):
        self.pattern = pattern
        self.node, self.info = parse(pattern, flags)
        self.g = Glushkov(self.node)

    def leaves(self):
        return self.g.leaves

    def first_chars(self, alphabet: List[str]) -> Set[str]:
        return {ch for ch in alphabet for p in self.g.first if self.g.leaves[p].pred(ch)}


def common_alphabet(compiled: Sequence[Compiled], extra: Iterable[str] = ()) -> List[str]:
    ment = set()
    leaves: List[Leaf] = []
    for c in compiled:
        ment |= c.info["mentioned"]
        leaves += c.g.leaves
    return Alphabet(ment, extra).refine(leaves)


def backtrack_match(node, s: str, pos: int = 0) -> Optional[int]:
    """End position of Python's `pattern.match(s, pos)` for the regex AST `node` (greedy quantifiers, ordered
    alternation, backtracking) - a model of the matching *semantics* applied to pattern data."""
    node = _expand(node)

    def m(n, i, k):
        kind = n[0]
        if kind == "eps":
            return k(i)
        if kind == "leaf":
            if i < len(s) and n[1].pred(s[i]):
                return k(i + 1)
            return None
        if kind == "cat":
            parts = n[1]

            def go(j, i2):
                if j == len(parts):
                    return k(i2)
                return m(parts[j], i2, lambda i3: go(j + 1, i3))

            return go(0, i)
        if kind == "alt":
            for a in n[1]:
                r = m(a, i, k)
                if r is not None:
                    return r
            return None
        if kind == "opt":
            r = m(n[1], i, k)
            return r if r is not None else k(i)
        if kind == "star":
            def loop(i2):
                r = m(n[1], i2, lambda i3: loop(i3) if i3 > i2 else None)
                return r if r is not None else k(i2)

            return loop(i)
        raise RegexUnsupported(kind)

    return m(node, pos, lambda i: i)


def findall_spans(node, s: str) -> List[str]:
    """Model of pattern.findall(s) for a pattern without groups: leftmost, non-overlapping matches."""
    out, i = [], 0
    while i <= len(s):
        e = backtrack_match(node, s, i)
        if e is None:
            i += 1
            continue
        out.append(s[i:e])
        i = e if e > i else i + 1
    return [t for t in out]


# ---- ambiguity of iterations (catastrophic backtracking) -----------------------------------
def _intersect_witness(a: DFA, b: DFA, nonempty=True, maxlen=64) -> Optional[str]:
    """A word accepted by both automata (non-empty when asked), breadth first."""
    start = (0, 0)
    seen = {start}
    q = deque([(start, "")])
    while q:
        (sa, sb), w = q.popleft()
        if sa in a.accept and sb in b.accept and (w or not nonempty):
            return w
        if len(w) >= maxlen:
            continue
        for ch in a.alphabet:
            ta, tb = a.trans[sa].get(ch), b.trans[sb].get(ch)
            if ta is None or tb is None:
                continue
            if (ta, tb) not in seen:
                seen.add((ta, tb))
                q.append(((ta, tb), w + ch))
    return None


def ambiguous_iterations(pattern: str, flags: int = 0) -> List[Tuple[str, str]]:
    """Loops X* / X+ of the pattern whose body X can match one string both as a single iteration and as several
    (L(X) and L(X X+) intersect).  A backtracking matcher (CPython's re) tries exponentially many splits of such a
    string before it gives up on a non-matching continuation.  Returns [(witness, description)]."""
    node, info = parse(pattern, flags)
    node = _expand(node)
    out = []
    alpha = [chr(i) for i in range(32, 127)] + ["\t", "\n", "é"]

    def walk(n):
        k = n[0]
        if k == "star":
            body = n[1]
            try:
                one = DFA.from_glushkov(Glushkov(body), alpha)
                many = DFA.from_glushkov(Glushkov(("cat", [body, body, ("star", body)])), alpha)
            except RegexUnsupported:
                one = many = None
            if one is not None:
                w = _intersect_witness(one, many)
                if w is not None:
                    out.append((w, f"an iteration body that matches {w!r} both in one and in several rounds"))
            walk(body)
        elif k in ("cat", "alt"):
            for c in n[1]:
                walk(c)
        elif k == "opt":
            walk(n[1])

    walk(node)
    return out

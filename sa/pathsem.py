"""Reference semantics of SVG path data (SVG 1.1 section 8.3) over symbolic numbers, and the harness that
runs picosvg's path rewrites through the symbolic evaluator with `d` modelled as a command list.

`ref_interp` is written from the specification, independently of the repository: it is the oracle the
rewrites are compared against ("describes the same curve": same segment kinds, same absolute points)."""
from __future__ import annotations

from typing import Any, List, Optional, Sequence, Tuple

from sa import spec
from sa.poly import RF
from sa.sym import (ClassRef, Closure, Ext, Interp, Outcome, PyCallable, Rec, SymStr, Undecided, explore, method_of,
                    to_rf, simplify_num)

Cmd = Tuple[str, tuple]


def ref_interp(cmds: Sequence[Cmd]):
    """-> list of segments with absolute points:
    ('M', p) ('L', p0, p1) ('Q', p0, c, p1) ('C', p0, c1, c2, p1) ('A', p0, rx, ry, rot, large, sweep, p1) ('Z', p0, start)"""
    cur = (RF.of(0), RF.of(0))
    start = cur
    prev_kind = None
    prev_ctrl = None  # last control point of the previous curve (absolute)
    out = []
    for i, (c, args) in enumerate(cmds):
        args = [to_rf(a) for a in args]
        rel = c.islower()
        if i == 0 and c == "m":
            rel = False
        ox, oy = (cur if rel else (RF.of(0), RF.of(0)))
        u = c.upper()

        def P(ix, iy):
            return (args[ix] + ox, args[iy] + oy)

        kind = u
        ctrl = None
        if u == "M":
            p = P(0, 1)
            out.append(("M", p))
            cur = start = p
        elif u == "Z":
            out.append(("Z", cur, start))
            cur = start
        elif u == "L":
            p = P(0, 1)
            out.append(("L", cur, p))
            cur = p
        elif u == "H":
            p = (args[0] + ox, cur[1])
            out.append(("L", cur, p))
            cur = p
            kind = "L"
        elif u == "V":
            p = (cur[0], args[0] + oy)
            out.append(("L", cur, p))
            cur = p
            kind = "L"
        elif u == "C":
            c1, c2, p = P(0, 1), P(2, 3), P(4, 5)
            out.append(("C", cur, c1, c2, p))
            ctrl, cur = c2, p
        elif u == "S":
            if prev_kind == "C":
                c1 = (cur[0] * 2 - prev_ctrl[0], cur[1] * 2 - prev_ctrl[1])
            else:
                c1 = cur
            c2, p = P(0, 1), P(2, 3)
            out.append(("C", cur, c1, c2, p))
            ctrl, cur, kind = c2, p, "C"
        elif u == "Q":
            c1, p = P(0, 1), P(2, 3)
            out.append(("Q", cur, c1, p))
            ctrl, cur = c1, p
        elif u == "T":
            if prev_kind == "Q":
                c1 = (cur[0] * 2 - prev_ctrl[0], cur[1] * 2 - prev_ctrl[1])
            else:
                c1 = cur
            p = P(0, 1)
            out.append(("Q", cur, c1, p))
            ctrl, cur, kind = c1, p, "Q"
        elif u == "A":
            p = P(5, 6)
            out.append(("A", cur, args[0], args[1], args[2], args[3], args[4], p))
            cur = p
        else:
            raise ValueError(c)
        prev_kind, prev_ctrl = kind, ctrl
    return out


def seg_equal(a, b) -> bool:
    if a[0] != b[0] or len(a) != len(b):
        return False
    for x, y in zip(a[1:], b[1:]):
        if isinstance(x, tuple):
            if not (to_rf(x[0]).equals(y[0]) and to_rf(x[1]).equals(y[1])):
                return False
        else:
            if not to_rf(x).equals(y):
                return False
    return True


def segs_equal(a, b) -> Optional[int]:
    """None if equal, else index of the first differing segment."""
    if len(a) != len(b):
        return min(len(a), len(b))
    for i, (x, y) in enumerate(zip(a, b)):
        if not seg_equal(x, y):
            return i
    return None


def show_cmds(cmds):
    return " ".join(f"{c}{','.join(repr(simplify_num(a)) for a in args)}" for c, args in cmds)


# ---- `d` as a command list ------------------------------------------------------------------
class PathData(Ext):
    stands_for_str = True

    def __init__(self, cmds=()):
        self.cmds: List[Cmd] = list(cmds)

    def sym_truth(self, it):
        return bool(self.cmds)

    def sym_copy(self):
        return PathData(self.cmds)

    def printed(self):
        """The text CPython prints for this path data when every number is a constant (repr of the float, integral values without ".0" -
        the library's own number printer is checked by C10); None when a number is symbolic."""
        from fractions import Fraction
        from sa.sym import simplify_num
        parts = []
        for c, args in self.cmds:
            if c == "G":
                return None
            toks = []
            for a in args:
                v = simplify_num(a) if not isinstance(a, (int, float, Fraction)) else a
                if not isinstance(v, (int, float, Fraction)) or isinstance(v, bool):
                    return None
                f = float(v)
                toks.append(str(int(f)) if f.is_integer() else repr(f))
            parts.append(c + ",".join(toks))
        return " ".join(parts)

    def sym_contains(self, it, item):
        from sa.sym import Undecided as _U
        text = self.printed()
        if text is None or not isinstance(item, str):
            raise _U("membership in symbolic path data")
        # separators are the printer's business: only characters that occur inside numbers / letters are decided here
        if any(ch in " ," for ch in item):
            raise _U("membership of a separator in path data")
        return item in text

    def sym_getitem(self, it, k):
        if k == 0:
            if not self.cmds:
                from sa.sym import PyRaise
                raise PyRaise("IndexError")
            return self.cmds[0][0]  # path_segment writes the letter first (checked by C10)
        if isinstance(k, slice) and k.start == 1 and k.stop is None:
            return PathTail(self.cmds)
        raise Undecided("path data subscript other than d[0] / d[1:]")

    def sym_getattr(self, it, attr):
        from sa.sym import PyCallable
        if attr == "strip":
            return PyCallable(lambda i, a, k: self)
        raise Undecided(f"str.{attr} on path data")

    def sym_eq(self, it, other):
        if isinstance(other, str):
            if other == "":
                return not self.cmds
            raise Undecided("comparison of path data with a literal")
        return isinstance(other, PathData) and repr(other.cmds) == repr(self.cmds)

    def sym_hashkey(self):
        return ("path-data", repr(self.cmds))

    def sym_join(self, sep, items):
        """' '.join(subpath data...) is path data again."""
        out = []
        for x in items:
            if isinstance(x, PathData):
                out.extend(x.cmds)
            elif x != "":
                raise Undecided("joining path data with raw text")
        return PathData(out)

    def __repr__(self):
        return f"d<{show_cmds(self.cmds)}>"


class PathTail(Ext):
    def __init__(self, cmds):
        self.cmds = list(cmds)

    def sym_add(self, it, other, reflected):
        if reflected and isinstance(other, str) and len(other) == 1 and self.cmds:
            return PathData([(other, self.cmds[0][1])] + self.cmds[1:])
        raise Undecided("path tail concatenation")


def install_path_hooks(it: Interp, arc_stub=None):
    """Model SVGPath.d as PathData: _add/_add_cmd/_arc append commands; iteration yields them exploded."""

    def get_d(selfv) -> PathData:
        d = selfv.f.get("d", "")
        if isinstance(d, PathData):
            return d
        if d == "":
            nd = PathData()
            selfv.f["d"] = nd
            return nd
        raise Undecided(f"path data is a string: {d!r}")

    def add_cmd(itp, a, k):
        selfv, cmd, args = a[0], a[1], tuple(a[2:])
        ar = spec.CMD_ARITY.get(cmd)
        from sa.sym import PyRaise
        if ar is None:
            raise PyRaise("ValueError")
        if (ar == 0 and args) or (ar and len(args) % ar != 0):
            raise PyRaise("ValueError")
        d = get_d(selfv)
        nd = PathData(d.cmds)
        if ar and len(args) > ar:
            for g in range(len(args) // ar):
                nd.cmds.append((cmd, args[g * ar:(g + 1) * ar]))
        else:
            nd.cmds.append((cmd, args))
        selfv.f["d"] = nd
        return None

    def add(itp, a, k):
        selfv, snip = a[0], a[1]
        if isinstance(snip, tuple) and snip and snip[0] == "__seg__":
            return add_cmd(itp, [selfv, snip[1]] + list(snip[2]), {})
        if isinstance(snip, str) and snip.strip() in ("Z", "z"):
            return add_cmd(itp, [selfv, snip.strip()], {})
        raise Undecided(f"_add of a raw snippet {snip!r}")

    def seg(itp, a, k):
        return ("__seg__", a[0], tuple(a[1:]))

    def _known(cmds):
        if any(c == "G" for c, _ in cmds):
            raise Undecided("the code reads the individual commands of a path computed by the geometry engine (Skia); "
                            "their number and kind are not known to the abstract machine")
        return list(cmds)

    def it_cmds(itp, a, k):
        return _known(get_d(a[0]).cmds)

    def parse(itp, a, k):
        d = a[0]
        if isinstance(d, PathData):
            return _known(d.cmds)
        if d == "":
            return []
        raise Undecided("parse_svg_path on a string")

    it.hooks[("svg_types", "SVGPath._add_cmd")] = add_cmd
    it.hooks[("svg_types", "SVGPath._add")] = add
    it.hooks[("svg_meta", "path_segment")] = seg
    it.hooks[("svg_types", "SVGPath.__iter__")] = it_cmds
    it.hooks[("svg_path_iter", "parse_svg_path")] = parse
    if arc_stub is not None:
        it.hooks[("arc_to_cubic", "arc_to_cubic")] = arc_stub


def sym_cmds(letters: Sequence[str], prefix="a") -> List[Cmd]:
    out = []
    for i, l in enumerate(letters):
        n = spec.CMD_ARITY[l]
        out.append((l, tuple(RF.sym(f"{prefix}{i}_{j}") for j in range(n))))
    return out


def new_path(repo, cmds, **fields) -> Rec:
    it = Interp(repo)
    c = ClassRef("svg_types", "SVGPath")
    f = {}
    for n, (m, dn) in it.class_fields(c):
        if dn is not None:
            try:
                f[n] = it.eval(dn, {"__mod__": m})
            except Exception:
                f[n] = None
        else:
            f[n] = None
    f.update(fields)
    f["d"] = PathData(cmds)
    return Rec(c, f, mutable=True)


def is_snap_cond(c) -> bool:
    """The near-start snapping test of _rewrite_path: `next_pos != start and next_pos.almost_equals(start)`."""
    r = repr(c)
    return "abs(" in r and "<=" in r and " and " in r


def run_rewrite(repo, method: str, cmds: Sequence[Cmd], extra_args=(), kwargs=None, arc_stub=None, max_paths=512,
                no_snap=False) -> List[Outcome]:
    fn = method_of(repo, "svg_types", "SVGPath", method)

    def setup(it):
        install_path_hooks(it, arc_stub)
        if no_snap:
            it.auto_decide = lambda c: False if is_snap_cond(c) else None

    def fresh():
        return ([new_path(repo, cmds)] + list(extra_args), dict(kwargs or {}))

    return explore(repo, fn, [], fresh_args=fresh, setup=setup, max_paths=max_paths)


def out_cmds(value) -> List[Cmd]:
    if isinstance(value, Rec):
        d = value.f.get("d")
        if isinstance(d, PathData):
            return [(c, tuple(a)) for c, a in d.cmds]
        if d == "":
            return []
    if isinstance(value, (list, tuple)):
        return [(c, tuple(a)) for c, a in value]
    raise Undecided(f"rewrite returned {value!r}")

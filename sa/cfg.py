"""E3: statement-level control-flow graph for the statement kinds the repository uses.

Nodes are simple statements, branch tests (`if`/`while` test, `for` iterator) and three
synthetic nodes ENTRY, RETURN (normal exit) and RAISE (exceptional exit).  Implicit
exceptions are modelled only inside `try` bodies (every statement of the body may jump
to every handler).  `match`, `async`, `global`, `nonlocal` do not occur in the repo and
make the builder refuse (exit 2) if they appear.
"""
from __future__ import annotations

import ast
from typing import Callable, Dict, Iterable, List, Optional, Set, Tuple

from sa.core import AnalysisError, unparse


class Node:
    __slots__ = ("id", "kind", "ast", "label")

    def __init__(self, id, kind, astnode=None, label=""):
        self.id = id
        self.kind = kind  # entry|return_exit|raise_exit|stmt|test|iter|join
        self.ast = astnode
        self.label = label

    def __repr__(self):
        if self.ast is not None:
            t = unparse(self.ast).split("\n")[0]
            return f"<{self.id}:{self.kind}:{t[:60]}>"
        return f"<{self.id}:{self.kind}>"

    @property
    def lineno(self):
        return getattr(self.ast, "lineno", 0)


class CFG:
    def __init__(self, func):
        self.func = func
        self.nodes: List[Node] = []
        self.succ: Dict[int, List[Tuple[int, str]]] = {}
        self.pred: Dict[int, List[Tuple[int, str]]] = {}
        self.entry = self._new("entry")
        self.ret = self._new("return_exit")
        self.exc = self._new("raise_exit")

    def _new(self, kind, astnode=None, label=""):
        n = Node(len(self.nodes), kind, astnode, label)
        self.nodes.append(n)
        self.succ[n.id] = []
        self.pred[n.id] = []
        return n

    def edge(self, a: Node, b: Node, label="next"):
        if (b.id, label) not in self.succ[a.id]:
            self.succ[a.id].append((b.id, label))
            self.pred[b.id].append((a.id, label))

    # ---- analyses ----------------------------------------------------------------
    def reachable(self, start: Node, forward=True, skip: Optional[Set[int]] = None) -> Set[int]:
        adj = self.succ if forward else self.pred
        seen = set()
        stack = [start.id]
        while stack:
            n = stack.pop()
            for m, _ in adj[n]:
                if m not in seen and not (skip and m in skip):
                    seen.add(m)
                    stack.append(m)
        return seen

    def live_nodes(self) -> Set[int]:
        return self.reachable(self.entry) | {self.entry.id}

    def dominators(self) -> Dict[int, Set[int]]:
        live = self.live_nodes()
        dom = {n: set(live) for n in live}
        dom[self.entry.id] = {self.entry.id}
        changed = True
        order = sorted(live)
        while changed:
            changed = False
            for n in order:
                if n == self.entry.id:
                    continue
                preds = [p for p, _ in self.pred[n] if p in live]
                if not preds:
                    new = {n}
                else:
                    new = set.intersection(*(dom[p] for p in preds)) | {n}
                if new != dom[n]:
                    dom[n] = new
                    changed = True
        return dom

    def postdominators(self, exit_node: Optional[Node] = None) -> Dict[int, Set[int]]:
        """Post-dominators with respect to `exit_node` (default: the normal return exit).
        Nodes that cannot reach the exit get the empty set (they are not on any normal path)."""
        ex = exit_node or self.ret
        can = self.reachable(ex, forward=False) | {ex.id}
        pd = {n: set(can) for n in can}
        pd[ex.id] = {ex.id}
        changed = True
        while changed:
            changed = False
            for n in sorted(can, reverse=True):
                if n == ex.id:
                    continue
                succs = [s for s, _ in self.succ[n] if s in can]
                new = (set.intersection(*(pd[s] for s in succs)) if succs else set()) | {n}
                if new != pd[n]:
                    pd[n] = new
                    changed = True
        out = {n.id: set() for n in self.nodes}
        out.update(pd)
        return out

    def paths(self, start: Optional[Node] = None, ends: Optional[Set[int]] = None, limit=20000):
        """Enumerate paths from start to any end node; each edge is traversed at most once per path
        (so every loop body is entered at most once around its back edge)."""
        start = start or self.entry
        ends = ends or {self.ret.id, self.exc.id}
        out = []
        stack = [(start.id, (start.id,), frozenset())]
        count = 0
        while stack:
            n, path, used = stack.pop()
            if n in ends and len(path) > 1 or (n in ends and n == start.id and not self.succ[n]):
                out.append(path)
                count += 1
                if count > limit:
                    raise AnalysisError(f"path enumeration exceeded {limit} paths in {getattr(self.func, 'name', '?')}")
                if not self.succ[n]:
                    continue
            for m, lab in self.succ[n]:
                e = (n, m, lab)
                if e in used:
                    continue
                stack.append((m, path + (m,), used | {e}))
        return out

    def node_of(self, astnode) -> Optional[Node]:
        for n in self.nodes:
            if n.ast is astnode:
                return n
        return None

    def stmt_nodes(self) -> Iterable[Node]:
        live = self.live_nodes()
        return [n for n in self.nodes if n.ast is not None and n.id in live]


FORBIDDEN = (ast.AsyncFunctionDef, ast.AsyncFor, ast.AsyncWith, ast.Global, ast.Nonlocal) + (
    (ast.Match,) if hasattr(ast, "Match") else ()
)


class _Builder:
    def __init__(self, func):
        self.g = CFG(func)
        self.loop_stack: List[Tuple[Node, Node]] = []  # (continue target, break target)
        self.handler_stack: List[List[Node]] = []  # handler entry nodes of enclosing try blocks
        self.finally_stack: List[Node] = []

    def build(self):
        g = self.g
        func = g.func
        body = func.body if not isinstance(func, ast.Lambda) else [ast.Return(value=func.body)]
        last = self.seq(body, [(g.entry, "next")])
        for n, lab in last:
            g.edge(n, g.ret, lab)
        return g

    # `frontier` is a list of (node, label) pairs whose next edge is still dangling
    def seq(self, stmts, frontier):
        for st in stmts:
            frontier = self.stmt(st, frontier)
        return frontier

    def link(self, frontier, node):
        for n, lab in frontier:
            self.g.edge(n, node, lab)

    def exc_target(self, node):
        """Connect `node` to the innermost handlers (or the raise exit) as possible exception flow."""
        if self.handler_stack:
            for h in self.handler_stack[-1]:
                self.g.edge(node, h, "exc")
        # an unhandled exception inside try still may escape when no handler matches: not modelled

    def stmt(self, st, frontier):
        g = self.g
        if isinstance(st, FORBIDDEN):
            raise AnalysisError(f"statement kind {type(st).__name__} is outside what the CFG builder understands "
                                f"(line {st.lineno})")
        if isinstance(st, (ast.FunctionDef, ast.ClassDef)):
            n = g._new("stmt", st, "def")
            self.link(frontier, n)
            return [(n, "next")]
        if isinstance(st, ast.If):
            t = g._new("test", st.test, "if")
            t.ast = st.test
            self.link(frontier, t)
            if self.handler_stack:
                self.exc_target(t)
            a = self.seq(st.body, [(t, "true")])
            b = self.seq(st.orelse, [(t, "false")]) if st.orelse else [(t, "false")]
            return a + b
        if isinstance(st, (ast.For,)):
            it = g._new("iter", st, "for")
            self.link(frontier, it)
            if self.handler_stack:
                self.exc_target(it)
            after = g._new("join", None, "for-exit")
            self.loop_stack.append((it, after))
            body_end = self.seq(st.body, [(it, "iterate")])
            self.loop_stack.pop()
            self.link(body_end, it)
            else_end = self.seq(st.orelse, [(it, "exhausted")]) if st.orelse else [(it, "exhausted")]
            self.link(else_end, after)
            return [(after, "next")]
        if isinstance(st, ast.While):
            t = g._new("test", st.test, "while")
            self.link(frontier, t)
            if self.handler_stack:
                self.exc_target(t)
            after = g._new("join", None, "while-exit")
            self.loop_stack.append((t, after))
            body_end = self.seq(st.body, [(t, "true")])
            self.loop_stack.pop()
            self.link(body_end, t)
            infinite = isinstance(st.test, ast.Constant) and bool(st.test.value)
            if not infinite:
                else_end = self.seq(st.orelse, [(t, "false")]) if st.orelse else [(t, "false")]
                self.link(else_end, after)
            return [(after, "next")]
        if isinstance(st, ast.Try):
            handlers = [g._new("stmt", h, "except") for h in st.handlers]
            fin = g._new("join", None, "finally") if st.finalbody else None
            self.handler_stack.append(handlers if handlers else ([fin] if fin else []))
            start = g._new("join", None, "try")
            self.link(frontier, start)
            body_end = self.seq(st.body, [(start, "next")])
            self.handler_stack.pop()
            body_end = self.seq(st.orelse, body_end) if st.orelse else body_end
            ends = list(body_end)
            for hn, h in zip(handlers, st.handlers):
                ends += self.seq(h.body, [(hn, "next")])
            if fin is not None:
                self.link(ends, fin)
                ends = self.seq(st.finalbody, [(fin, "next")])
            return ends
        if isinstance(st, ast.With):
            n = g._new("stmt", st, "with")
            self.link(frontier, n)
            if self.handler_stack:
                self.exc_target(n)
            return self.seq(st.body, [(n, "next")])
        if isinstance(st, ast.Return):
            n = g._new("stmt", st, "return")
            self.link(frontier, n)
            if self.handler_stack:
                self.exc_target(n)
            g.edge(n, g.ret, "return")
            return []
        if isinstance(st, ast.Raise):
            n = g._new("stmt", st, "raise")
            self.link(frontier, n)
            if self.handler_stack and self.handler_stack[-1]:
                self.exc_target(n)
            else:
                g.edge(n, g.exc, "raise")
            return []
        if isinstance(st, ast.Continue):
            n = g._new("stmt", st, "continue")
            self.link(frontier, n)
            g.edge(n, self.loop_stack[-1][0], "continue")
            return []
        if isinstance(st, ast.Break):
            n = g._new("stmt", st, "break")
            self.link(frontier, n)
            g.edge(n, self.loop_stack[-1][1], "break")
            return []
        if isinstance(st, ast.Assert):
            n = g._new("stmt", st, "assert")
            self.link(frontier, n)
            g.edge(n, g.exc, "assert-fails")
            return [(n, "next")]
        # simple statement
        n = g._new("stmt", st, type(st).__name__.lower())
        self.link(frontier, n)
        if self.handler_stack:
            self.exc_target(n)
        return [(n, "next")]


def build_cfg(func) -> CFG:
    return _Builder(func).build()


# ---- evaluation-order helpers ------------------------------------------------------

def ordered_calls(node) -> List[ast.Call]:
    """Calls inside an expression/statement in evaluation order (arguments before the call itself).
    Does not descend into lambdas / nested defs; generator expressions are included at their
    textual position (callers that care treat them as lazily consumed by the enclosing call)."""
    out: List[ast.Call] = []

    def rec(n):
        if isinstance(n, (ast.Lambda, ast.FunctionDef, ast.AsyncFunctionDef, ast.ClassDef)):
            return
        if isinstance(n, ast.Call):
            rec(n.func)
            for a in n.args:
                rec(a)
            for k in n.keywords:
                rec(k.value)
            out.append(n)
            return
        for c in ast.iter_child_nodes(n):
            rec(c)

    if isinstance(node, ast.For):
        rec(node.iter)
    elif isinstance(node, ast.With):
        for it in node.items:
            rec(it.context_expr)
    elif isinstance(node, ast.ExceptHandler):
        pass
    elif isinstance(node, (ast.FunctionDef, ast.ClassDef)):
        pass
    else:
        rec(node)
    return out


def node_header(n: Node):
    """The part of the AST that is evaluated *at* this CFG node (not the nested bodies)."""
    a = n.ast
    if a is None:
        return None
    if isinstance(a, ast.For):
        return a.iter
    if isinstance(a, ast.With):
        return ast.Tuple(elts=[i.context_expr for i in a.items], ctx=ast.Load())
    if isinstance(a, (ast.ExceptHandler, ast.FunctionDef, ast.ClassDef)):
        return None
    return a

"""The path-data parser interpreted on a bounded-exhaustive corpus built from the SVG path grammar.

The corpus is generated from the grammar (numbers in every lexical form the grammar allows, glued and separated in every
way it allows, compact arc flags, implicit repeats), plus strings outside the grammar.  The repository's parser is
interpreted by the analyser's evaluator (regular-expression calls on literals are folded); the result is compared with a
reference reading of the grammar written from the SVG 1.1 BNF.  No assumption is made about the shape of the tokenizer loop."""
from __future__ import annotations

import itertools
import re
from fractions import Fraction
from typing import List, Optional, Tuple

from sa import spec
from sa.core import AnalysisError, Repo, Report
from sa.sym import closure_of, explore

NUMBER = re.compile(r"[-+]?(?:[0-9]+(?:\.[0-9]*)?|\.[0-9]+)(?:[eE][-+]?[0-9]+)?")
WSP = " \t\n\r"
ARITY = {"m": 2, "l": 2, "h": 1, "v": 1, "c": 6, "s": 4, "q": 4, "t": 2, "a": 7, "z": 0}


def reference(s: str, exploded: bool):
    """The SVG 1.1 path grammar read literally: list of (letter, args) or "ValueError"."""
    i, n = 0, len(s)
    out = []

    def skip(i, comma=True):
        seen_comma = False
        while i < n and (s[i] in WSP or (comma and s[i] == "," and not seen_comma)):
            if s[i] == ",":
                seen_comma = True
            i += 1
        return i

    i = skip(i, comma=False)
    while i < n:
        ch = s[i]
        if ch.lower() not in ARITY:
            return "ValueError"
        i += 1
        ar = ARITY[ch.lower()]
        args: List[Fraction] = []
        while True:
            j = skip(i, comma=bool(args))
            if j >= n or (s[j].lower() in ARITY and s[j] not in "eE"):
                i = j
                break
            pos = len(args) % 7 if ch.lower() == "a" else -1
            if pos in (3, 4):
                if s[j] not in "01":
                    return "ValueError"
                args.append(Fraction(int(s[j])))
                i = j + 1
                continue
            m = NUMBER.match(s, j)
            if not m:
                return "ValueError"
            txt = m.group(0)
            try:
                args.append(Fraction(txt) if "." not in txt[-1:] else Fraction(txt + "0"))
            except ValueError:
                return "ValueError"
            i = m.end()
        if ar == 0:
            if args:
                return "ValueError"
            out.append((ch, ()))
            continue
        if not args or len(args) % ar:
            return "ValueError"
        if not exploded:
            out.append((ch, tuple(args)))
        else:
            letter = ch
            for g in range(len(args) // ar):
                if g > 0 and ch in "mM":
                    letter = "l" if ch == "m" else "L"
                out.append((letter, tuple(args[g * ar:(g + 1) * ar])))
    return out


def corpus() -> List[str]:
    nums = ["0", "1", "12", ".5", "0.5", "-1", "+2", "-.5", "1e1", "1E-2", "1.5e+1", "05", "007", "00.5"]
    out = set()
    # every letter with one and two argument groups, three separator styles
    for l, ar in ARITY.items():
        for letter in (l, l.upper()):
            if ar == 0:
                out.update({letter, f"M0,0{letter}", f"M1 1 {letter} ", f"{letter}1"})
                continue
            for groups in (1, 2):
                vals = [nums[(k * 3 + groups) % len(nums)] for k in range(ar * groups)]
                if l == "a":
                    for k in range(len(vals)):
                        if k % 7 in (3, 4):
                            vals[k] = "1" if k % 2 else "0"
                for sep in (" ", ",", " , "):
                    out.add(letter + sep.join(vals))
                    out.add("M0 0" + letter + " " + sep.join(vals) + " ")
                out.add(letter + " ".join(vals[:-1]))  # one argument short
    # glued numbers
    for a, b in itertools.product(["1", "1.5", ".5", "-1", "1e2", "05"], ["-2", ".5", "+3", "-.25", "1"]):
        out.add(f"M{a}{b}")
        out.add(f"L{a}{b} {b}{a}" if not b[0].isdigit() and not a[0].isdigit() else f"L{a} {b}")
    out.update({"M1.5.5", "M.5.5", "M1.2.3.4", "M1-2-3-4", "M1e2-3", "M1e-2.5", "M0.5.5L1.5.5.5.5", "M00", "M0 0 00 00", "M1,2,3,4", "M1 2 3 4 5 6", "m1 2 3 4",
                "M1,,2", "M1,2,", "M,1,2", "M 1 2", " M1 2", "M1 2 z", "M1 2Z M3 4", "M1 2zL3 4", "M1 2 L", "L", "M", "", "  ", "1 2", "M1 2 X3 4", "Mabc", "M1 2 3", "M1",
                "M1e", "M1e+", "M+.", "M.", "M-", "M1 2 L3 4 5", "M--1 2", "M1 2 \n L3\t4", "M1 2\nL3,4", "H1V2h3v4", "M0 0H1 2 3", "T1 2 3 4", "S1 2 3 4 5 6 7 8"})
    # every white-space character of the grammar (space, tab, LF, CR, FF is not one) separates numbers, also where it is the only separator
    out.update({"M0,0 L1,2\n3,4\n5,6", "H3\n4", "M1\n2", "M1\r\n2 L3\t4\n5 6", "C1 2\n3 4\n5 6", "M1 2\n\n3 4", "l1 2\t3 4\r5 6", "M1,\n2", "M1\n,2", "a1 1 0 0\n1 2 2",
                "M1 2\n", "\nM1 2", "M 1\t2\tL\t3\t4", "v1\n-2", "M1\n.5"})
    # compact arc flags
    for flags in ("00", "01", "10", "11"):
        for sep in ("", " ", ","):
            out.add(f"M0 0a1 1 0 {flags[0]}{sep}{flags[1]}{sep}2 2")
            out.add(f"M0 0A1,1,0,{flags[0]}{sep}{flags[1]}{sep}.5-2")
    out.update({"a1 1 0 0110 10", "a1 1 0 01 10 10", "a1 1 0 2 1 1 1", "a1 1 0 0 2 1 1", "a1 1 0 0 1 1", "A1 1 0 00 1 1 2 2 0 11 3 3", "a1 1 0 1 1 1 1 1 1 0 0 0 2 2",
                "a1-1 0 011-1", "a.5.5 0 1,0.5.5", "a1 1 0 -1 0 1 1", "a1 1 0 1.0 0 1 1", "a1 1 0 01"})
    return sorted(out)


GARBAGE = ["M1 2#3 4", "L1e 2", "M(1,2)", "M1 2 C1 2 3 4 5 6px", "M1;2", "M1 2 L3 4%", "M1 2?", "L 1 2 3 x4", "M1_2", "M1 2 c1 2 3 4 5 6 ;", "q1 2 3 4)", "M1 2 L3'4", "M0x10 2",
           "a1 1 0 0 1 2#2", "H1px", "V 2em", "M1 2 t3 4 !"]


def check_parser(repo: Repo, rep: Report, rule_grammar: str, rule_exceptions: str):
    spi = repo["svg_path_iter"]
    F = "svg_path_iter.parse_svg_path"
    rep.saw(F, "svg_path_iter._parse_args", "svg_path_iter._explode_cmd", "svg_meta.check_cmd")
    fn = closure_of(repo, "svg_path_iter", "parse_svg_path")
    strings = corpus()
    wrong, escaped = [], []
    n = 0
    for s in strings:
        for exploded in (False, True):
            want = reference(s, exploded)
            outs = explore(repo, fn, [s], {"exploded": exploded}, max_paths=8)
            for o in outs:
                n += 1
                if o.undecided:
                    raise AnalysisError(f"{F}: the evaluator cannot interpret the parser on {s!r}: {o.undecided}")
                if o.raised:
                    if o.raised != "ValueError":
                        escaped.append(f"{s!r}: {o.raised} escapes")
                    continue  # rejecting with ValueError is always allowed by the property
                try:
                    got = [(c, tuple(Fraction(str(a)) if not isinstance(a, (int, Fraction)) else Fraction(a) for a in args)) for c, args in o.value]
                except (ValueError, TypeError):
                    wrong.append(f"{s!r}: result {list(o.value)!r} is not a list of (letter, numbers)")
                    continue
                if want == "ValueError":
                    continue  # nothing is promised about strings outside the grammar, except which exceptions may escape
                if got != want:
                    wrong.append(f"{s!r} (exploded={exploded}) is parsed as {_show(got)}; the grammar reads {_show(want)}")
    # stray characters (neither command letters, separators nor part of a number) inside the arguments: rejected, not skipped
    for g in GARBAGE:
        for o in explore(repo, fn, [g], {"exploded": False}, max_paths=8):
            n += 1
            if o.undecided:
                raise AnalysisError(f"{F}: the evaluator cannot interpret the parser on {g!r}: {o.undecided}")
            if not o.raised:
                wrong.append(f"{g!r} contains characters outside the path grammar but is silently parsed as {_show([(c, tuple(Fraction(str(a)) for a in args)) for c, args in o.value])} instead of being rejected")
            elif o.raised != "ValueError":
                escaped.append(f"{g!r}: {o.raised} escapes")
    if wrong:
        rep.fail(rule_grammar, F, "parser vs grammar on the generated corpus", f"{len(wrong)} of {n} cases; first: {wrong[0]}", spi, spi.functions.get("parse_svg_path"))
    else:
        rep.ok(rule_grammar, F, f"{len(strings)} strings generated from the path grammar (all letters, number forms, glued numbers, compact arc flags, implicit repeats) and outside it, exploded and not: "
                                "every conforming string is read exactly as the grammar reads it, or rejected with ValueError", True)
    if escaped:
        rep.fail(rule_exceptions, F, "exceptions on malformed input", f"{len(escaped)} cases; first: {escaped[0]}", spi, spi.functions.get("parse_svg_path"))
    else:
        rep.ok(rule_exceptions, F + " [exceptions]", f"no exception other than ValueError on {len(strings)} strings", True)


def _show(cmds):
    if isinstance(cmds, str):
        return cmds
    return " ".join(c + ",".join(str(float(a)).rstrip("0").rstrip(".") for a in args) for c, args in cmds)[:120]


def check_command_roundtrip(repo: Repo, rep: Report, rule: str):
    """SVGPath.from_commands(cmds) read back command by command gives cmds again (letters, order, argument values), for
    sequences with repeated movetos, implicit-repeat shapes, closepaths and every letter."""
    from sa.pathsem import PathData, install_path_hooks, new_path, out_cmds
    from sa.poly import RF
    from sa.sym import ClassRef, method_of
    st = repo["svg_types"]
    F = "svg_types.SVGPath.from_commands"
    rep.saw(F, "svg_types.SVGPath.update_path")
    S = RF.sym
    k = [0]

    def a(n):
        k[0] += 1
        return tuple(S(f"v{k[0]}_{i}") for i in range(n))

    seqs = [
        [("M", a(2)), ("M", a(2)), ("L", a(2))], [("M", a(2)), ("L", a(2)), ("M", a(2)), ("M", a(2))], [("m", a(2)), ("m", a(2)), ("l", a(2)), ("z", ())],
        [("M", a(2)), ("L", a(2)), ("L", a(2)), ("Z", ()), ("M", a(2)), ("Z", ())], [("M", a(2)), ("Z", ()), ("Z", ())], [("M", a(2)), ("L", a(2)), ("L", a(2))],
        [("M", a(2)), ("C", a(6)), ("S", a(4)), ("Q", a(4)), ("T", a(2)), ("A", a(7)), ("H", a(1)), ("V", a(1)), ("Z", ())],
        [("M", a(2)), ("c", a(6)), ("s", a(4)), ("q", a(4)), ("t", a(2)), ("a", a(7)), ("h", a(1)), ("v", a(1)), ("z", ())],
        [("M", a(2))], [],
    ]
    fn = method_of(repo, "svg_types", "SVGPath", "from_commands")
    bad = None
    n = 0
    for cmds in seqs:
        outs = explore(repo, fn, [], fresh_args=lambda cmds=cmds: ([ClassRef("svg_types", "SVGPath"), [(c, tuple(x)) for c, x in cmds]], {}), setup=lambda it: install_path_hooks(it), max_paths=16)
        for o in outs:
            n += 1
            if o.undecided:
                raise AnalysisError(f"{F}: abstract machine cannot interpret this code: {o.undecided}")
            if o.raised:
                bad = f"from_commands({_showsym(cmds)}) raises {o.raised}"
                continue
            got = out_cmds(o.value)
            if [(c, tuple(map(repr, x))) for c, x in got] != [(c, tuple(map(repr, x))) for c, x in cmds]:
                bad = f"from_commands({_showsym(cmds)}) reads back as {_showsym(got)}"
    # the same through the text: integer-valued commands are printed (from_commands -> _add_cmd -> path_segment/ntos, uninterpreted hooks off) and the
    # printed string is read back by SVGPath.__iter__ and by the reference grammar reader
    tseqs = [
        [("M", (1, 2)), ("L", (3, -4)), ("M", (5, 6)), ("M", (7, 8)), ("C", (1, 2, 3, 4, 5, 6)), ("A", (2, 3, 0, 1, 0, 9, 9)), ("H", (4,)), ("Z", ())],
        [("m", (1, 2)), ("l", (3, 4)), ("l", (-5, -6)), ("z", ()), ("m", (0, 0)), ("q", (1, 1, 2, 0)), ("t", (2, 0)), ("s", (1, 1, 2, 2)), ("v", (-3,)), ("a", (1, 1, 0, 0, 1, 2, 2)), ("c", (0, 0, 1, 1, 2, 2))],
        [("M", (10, 20)), ("L", (30, 40)), ("L", (50, 60)), ("Z", ()), ("Z", ())],
        [("M", (0, 0)), ("A", (5, 5, 0, 1, 1, 10, 0)), ("A", (5, 5, 0, 0, 0, 0, 0))],
    ]
    it_fn = method_of(repo, "svg_types", "SVGPath", "__iter__")
    rep.saw("svg_types.SVGPath.__iter__", "svg_types.SVGPath._add_cmd", "svg_meta.path_segment")
    for cmds in tseqs:
        for o in explore(repo, fn, [], fresh_args=lambda cmds=cmds: ([ClassRef("svg_types", "SVGPath"), list(cmds)], {}), max_paths=8):
            n += 1
            if o.undecided:
                raise AnalysisError(f"{F}: the evaluator cannot interpret the printing of {_showsym(cmds)}: {o.undecided}")
            if o.raised:
                bad = f"from_commands({_showsym(cmds)}) raises {o.raised}"
                continue
            d = o.value.f.get("d")
            if not isinstance(d, str):
                raise AnalysisError(f"{F}: printed path data is not a constant string for constant commands: {d!r}")
            ref = reference(d, True)
            norm = lambda cs: [(c, tuple(Fraction(str(a)) for a in args)) for c, args in cs]
            if ref == "ValueError" or norm(ref) != norm(cmds):
                bad = f"from_commands({_showsym(cmds)}) prints {d!r}, which the path grammar reads as {ref if ref == 'ValueError' else _show(norm(ref))}"
                continue
            for o2 in explore(repo, it_fn, [o.value], max_paths=8):
                if o2.undecided:
                    raise AnalysisError(f"svg_types.SVGPath.__iter__: the evaluator cannot interpret reading {d!r}: {o2.undecided}")
                if o2.raised:
                    bad = f"reading back {d!r} raises {o2.raised}"
                    continue
                back = o2.value if isinstance(o2.value, list) else list(o2.value)
                if norm([(c, tuple(a)) for c, a in back]) != norm(cmds):
                    bad = f"{d!r} (printed from {_showsym(cmds)}) is read back as {_show(norm([(c, tuple(a)) for c, a in back]))}"
    if bad:
        rep.fail(rule, F, "command sequences through from_commands / update_path", bad[:400], st, st.functions.get("SVGPath.from_commands"))
    else:
        rep.ok(rule, F, f"{len(seqs)} command sequences (repeated and trailing movetos, double closepath, every letter): read back unchanged; {len(tseqs)} integer-valued sequences printed, the text read back by __iter__ and by the grammar: same commands", True)


def _showsym(cmds):
    return " ".join(c + ",".join(repr(x) for x in args) for c, args in cmds)[:160]

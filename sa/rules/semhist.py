"""C15 decided as stated: for histories of public operations on a schematic document, the final serialisation equals the
one obtained when the object is serialised and re-built between every two steps.  Both variants are interpreted by the
abstract machine; lazily cached shape edits, functools caches and instance state are modelled by the evaluator."""
from __future__ import annotations

import concurrent.futures as cf
import itertools
import os
from typing import Dict, List, Tuple

from sa.core import AnalysisError, Repo, Report
from sa.dom import El, ETREE_PI
from sa.machine import N, make_svg, run
from sa.sym import ClassRef, Rec, method_of

XL = "{http://www.w3.org/1999/xlink}href"

# (name, positional args, has an inplace parameter)
EDITORS = [
    ("shapes_to_paths", (), True), ("expand_shorthand", (), True), ("absolute", (), True), ("apply_style_attributes", (), True), ("resolve_use", (), True),
    ("resolve_nested_svgs", (), True), ("simplify", (), True), ("evenodd_to_nonzero_winding", (), True), ("normalize_opacity", (), True), ("round_floats", (2,), True),
    ("remove_empty_subpaths", (), True), ("remove_unpainted_shapes", (), True), ("clip_to_viewbox", (), True), ("remove_title_meta_desc", (), True),
    ("remove_nonsvg_content", (), True), ("remove_processing_instructions", (), True), ("remove_anonymous_symbols", (), True),
    ("set_attributes", ((("viewBox", "0 0 6 6"), ("fill", "green")),), True), ("remove_attributes", (("fill",),), True), ("topicosvg", (), True),
]
QUERIES = [("shapes", ()), ("bounding_box", ()), ("view_box", ()), ("tolerance", None), ("checkpicosvg", ()), ("toetree", ()), ("depth_first", ()), ("breadth_first", ())]
CACHE_EDITORS = ["shapes_to_paths", "expand_shorthand", "absolute", "round_floats", "apply_style_attributes", "normalize_opacity", "evenodd_to_nonzero_winding",
                 "remove_empty_subpaths", "set_attributes", "remove_attributes"]
DEPENDENT = ["absolute", "round_floats", "clip_to_viewbox", "remove_unpainted_shapes", "simplify", "shapes_to_paths", "normalize_opacity", "topicosvg"]


def doc():
    from sa.rules.sem import pd
    stop = El("stop", {"offset": "0"})
    defs = El("defs", {}, [El("linearGradient", {"id": "g"}, [stop, El("stop", {"offset": "1"})]), El("path", {"id": "t", "d": pd(("M", (7, 7)), ("l", (1, 0)), ("l", (0, 1)), ("z", ()))})])
    from fractions import Fraction as Fr
    r = El("rect", {"id": "r", "x": "1.23456", "y": "1.65432", "width": "2.11111", "height": "2.22222", "style": "fill:url(#g)"})
    p = El("path", {"id": "p", "d": pd(("m", (Fr("1.23456"), Fr("1.98765"))), ("h", (Fr("2.11111"),)), ("q", (1, 1, 2, 0)), ("t", (2, 0)), ("z", ())), "fill-rule": "evenodd", "fill-opacity": "0.25"})
    g = El("g", {"id": "grp", "opacity": "0.5", "style": "stroke-width:3"}, [r, p])
    u = El("use", {XL: "#t", "x": "1", "id": "u"})
    q = El("path", {"id": "q", "d": pd(("M", (20, 20)), ("L", (30, 20)), ("L", (30, 30)), ("Z", ())), "stroke": "blue", "transform": "tQ"})
    nested = El("svg", {"id": "n", "x": "1", "y": "1", "width": "3", "height": "3"}, [El("circle", {"id": "c", "cx": "1", "cy": "1", "r": "1"})])
    return El("svg", {"viewBox": "0 0 10 10", "fill": "red"}, [El(ETREE_PI), El("title", {}), defs, g, u, q, nested, El("image", {"id": "img"})], name="root")


def doc_sized():
    """The same document with its extent given by width / height instead of a viewBox."""
    root = doc()
    del root.attrib["viewBox"]
    root.attrib["width"], root.attrib["height"] = "10", "10"
    return root


DOCS = {"viewbox": doc, "sized": doc_sized}


def _area(gm):
    return 7


def _bbox_setup(it):
    # bounding boxes as concrete numbers per shape id marker (keeps clip_to_viewbox / bounding_box on one path)
    def bbox(i, a, k):
        r = repr(a[0])
        if "(20, 20)" in r:
            return (5, 5, 15, 15)
        return (1, 1, 3, 3)
    it.hooks[("svg_pathops", "bounding_box")] = bbox


def _struct(root):
    from sa.rules.sem import _full_struct
    return repr(_full_struct(root))


def _num(v):
    from fractions import Fraction
    try:
        return str(Fraction(str(v)) if not isinstance(v, (int, float, Fraction)) else Fraction(v))
    except (ValueError, TypeError, ZeroDivisionError):
        return repr(v)


def _apply(it, repo, cur, step, checks, label):
    """Apply one step to `cur`; returns the object the history continues with."""
    name, args, mode = step[:3]
    kw = dict(step[3]) if len(step) > 3 else {}
    if mode == "query":
        if args is None:
            it.getattr(cur, name)
        else:
            v = it.call(method_of(repo, "svg", "SVG", name), [cur] + list(args), {})
            if name in ("depth_first", "breadth_first"):
                list(it.iterate(v))
        return cur
    m = method_of(repo, "svg", "SVG", name)
    if mode == "inplace":
        res = it.call(m, [cur] + list(args), dict(kw, inplace=True))
        if res is not cur:
            checks.append(f"{label}: {name}(inplace=True) does not return the receiver")
        return cur
    before = _struct(it.call(method_of(repo, "svg", "SVG", "toetree"), [cur], {}))
    res = it.call(m, [cur] + list(args), dict(kw))
    if not isinstance(res, Rec) or res is cur:
        checks.append(f"{label}: {name}() (copying form) does not return a new SVG")
        return cur
    after = _struct(it.call(method_of(repo, "svg", "SVG", "toetree"), [cur], {}))
    if after != before:
        checks.append(f"{label}: {name}() (copying form) changes the receiver's serialisation")
    return res


def run_history(repo: Repo, steps) -> Tuple[str, List[str]]:
    """Returns (verdict text or '', extra problems)."""
    mkdoc = doc
    if steps and steps[0][0] == "@doc":
        mkdoc = DOCS[steps[0][1]]
        steps = steps[1:]
    label = ("" if mkdoc is doc else "on the document sized by width/height: ") + " ; ".join(f"{st[0]}({'inplace' if st[2] == 'inplace' else 'copy' if st[2] == 'copy' else 'query'}{', ' + ', '.join(f'{k}={v}' for k, v in st[3]) if len(st) > 3 else ''})" for st in steps)
    results = {}
    problems: List[str] = []
    for variant in ("kept", "reparsed"):
        def body(it, a, k, variant=variant):
            cur = a[0]
            chk = problems if variant == "kept" else []
            for st in steps:
                cur = _apply(it, repo, cur, st, chk, label)
                if variant == "reparsed":
                    tree = it.call(method_of(repo, "svg", "SVG", "toetree"), [cur], {})
                    cur = it.construct(ClassRef("svg", "SVG"), [tree], {})
            # what the object says about itself, then its serialisation
            shapes = it.call(method_of(repo, "svg", "SVG", "shapes"), [cur], {})
            said = tuple((sh.cls.name, repr(sh.f.get("d")), repr(sh.f.get("fill")), _num(sh.f.get("opacity"))) for sh in it.iterate(shapes) if isinstance(sh, Rec))
            from sa.sym import PyRaise
            try:
                vb = it.call(method_of(repo, "svg", "SVG", "view_box"), [cur], {})
                vb = tuple(_num(x) for x in it.iterate(vb)) if vb is not None else None
            except PyRaise as e:
                vb = "raises " + e.exc_type
            return (said + (("view_box", vb),), it.call(method_of(repo, "svg", "SVG", "toetree"), [cur], {}))
        outs = run(repo, body, lambda: ([make_svg(mkdoc())], {}), setup_extra=_bbox_setup, max_paths=32, area=_area)
        res = []
        for o in outs:
            if o.undecided:
                raise AnalysisError(f"history [{label}]: abstract machine cannot interpret this code: {o.undecided}")
            res.append(("raises " + o.raised) if o.raised else repr(o.value[0]) + " || " + _struct(o.value[1]))
        results[variant] = sorted(set(res))
    if results["kept"] != results["reparsed"]:
        from sa.rules.sem import _struct_diffs
        import ast as _ast
        why = "different outcome"
        try:
            a, b = results["kept"][0], results["reparsed"][0]
            if a.startswith("raises") or b.startswith("raises"):
                why = f"{a[:60]} vs {b[:60]}"
            else:
                (sa_, ta), (sb_, tb) = a.split(" || ", 1), b.split(" || ", 1)
                if ta != tb:
                    why = "; ".join(_struct_diffs(_ast.literal_eval(tb), _ast.literal_eval(ta))[:2])
                else:
                    why = f"shapes() reports {sa_[:160]} on the object and {sb_[:160]} after re-parsing its serialisation"
        except Exception:
            pass
        return f"[{label}] ends differently than with a serialise / re-parse between the steps: {why}", problems
    return "", problems


def run_forms(repo: Repo, step) -> List[str]:
    """The copying form returns what the in-place form produces on a copy."""
    name, args = step[0], step[1]
    kw = dict(step[3]) if len(step) > 3 else {}
    res = {}
    for form in ("copy", "inplace"):
        def body(it, a, k, form=form):
            m = method_of(repo, "svg", "SVG", name)
            if form == "copy":
                out = it.call(m, [a[0]] + list(args), dict(kw))
            else:
                it.call(m, [a[0]] + list(args), dict(kw, inplace=True))
                out = a[0]
            return it.call(method_of(repo, "svg", "SVG", "toetree"), [out], {}) if isinstance(out, Rec) else None
        outs = run(repo, body, lambda: ([make_svg(doc())], {}), setup_extra=_bbox_setup, max_paths=32, area=_area)
        vals = []
        for o in outs:
            if o.undecided:
                raise AnalysisError(f"{name}: abstract machine cannot interpret this code: {o.undecided}")
            vals.append(("raises " + o.raised) if o.raised else (_struct(o.value) if o.value is not None else "None"))
        res[form] = sorted(set(vals))
    if res["copy"] != res["inplace"]:
        return [f"x: {name}({', '.join(f'{k}={v}' for k, v in kw.items())}) as a copying operation gives a different document than the in-place form on a copy "
                f"({res['copy'][0][:60]} ... vs {res['inplace'][0][:60]} ...)"]
    return []


def _worker(task):
    root, overlay, histories = task
    repo = Repo(root, overlay)
    out = []
    for steps in histories:
        try:
            if steps and steps[0] == "forms":
                out.append((steps, "", run_forms(repo, steps[1]), None))
                continue
            verdict, problems = run_history(repo, steps)
            out.append((steps, verdict, problems, None))
        except AnalysisError as e:
            out.append((steps, "", [], str(e)))
    return out


def histories(tier: str):
    ed = {n: (n, a, ip) for n, a, ip in EDITORS}
    qs = {n: (n, a) for n, a in QUERIES}
    second_quick = [("shapes", (), "query"), ("bounding_box", (), "query"), ("view_box", (), "query"), ("toetree", (), "query"), ("depth_first", (), "query"),
                    ("absolute", (), "inplace"), ("absolute", (), "copy"), ("shapes_to_paths", (), "copy"), ("simplify", (), "inplace"), ("topicosvg", (), "copy"),
                    ("remove_unpainted_shapes", (), "inplace"), ("clip_to_viewbox", (), "inplace"), ("set_attributes", ed["set_attributes"][1], "inplace"),
                    ("apply_style_attributes", (), "inplace"), ("round_floats", (2,), "copy"), ("resolve_use", (), "inplace")]
    all_steps = [(n, a, "inplace") for n, a, _ in EDITORS] + [(n, a, "copy") for n, a, _ in EDITORS] + [(n, a, "query") for n, a in QUERIES]
    out = []
    firsts = [("shapes", (), "query")] + [(n, ed[n][1], "inplace") for n in CACHE_EDITORS]
    for f in firsts:
        for s in (all_steps if tier == "thorough" else second_quick):
            out.append((f, s))
    if tier == "thorough":
        for f in all_steps:
            for s in all_steps:
                if (f, s) not in out:
                    out.append((f, s))
    # every editor twice in a row (second application meets an already processed document), both forms
    for n, a, _ in EDITORS:
        kw = (("drop_unsupported", True),) if n == "topicosvg" else ()
        for m1, m2 in (("inplace", "inplace"), ("copy", "copy")):
            st1 = (n, a, m1, kw) if kw else (n, a, m1)
            st2 = (n, a, m2, kw) if kw else (n, a, m2)
            out.append((st1, st2))
    # parse, flush, edit an ancestor, parse again (what was remembered about ancestors at the first flush must not survive)
    for e1 in ("shapes_to_paths", "absolute"):
        for mid in ("set_attributes", "remove_attributes"):
            for e2 in ("absolute", "round_floats", "expand_shorthand"):
                out.append(((e1, ed[e1][1], "inplace"), ("toetree", (), "query"), (mid, ed[mid][1], "inplace"), (e2, ed[e2][1], "inplace")))
    # an operation that loads the shapes and drops them again without writing them back (nothing to flush, so whatever the flush
    # would have reset stays as it is), then an ancestor's inheritable attribute is edited, then the shapes are loaded again
    for e1 in ("remove_unpainted_shapes", "simplify", "topicosvg", "clip_to_viewbox", "remove_empty_subpaths"):
        for mid in ("set_attributes", "remove_attributes"):
            for e2 in (("absolute", ed["absolute"][1], "inplace"), ("round_floats", ed["round_floats"][1], "inplace"), ("shapes", (), "query"), ("expand_shorthand", (), "inplace")):
                out.append(((e1, ed[e1][1], "inplace"), (mid, ed[mid][1], "inplace"), e2))
    # query, then an in-place edit, then something that depends on what the query may have memoised
    for qn in ("shapes", "view_box", "bounding_box", "tolerance"):
        for en in (CACHE_EDITORS if tier == "thorough" else ["shapes_to_paths", "expand_shorthand", "absolute", "set_attributes", "apply_style_attributes"]):
            for dn in (DEPENDENT if tier == "thorough" else ["absolute", "clip_to_viewbox", "round_floats", "remove_unpainted_shapes"]):
                out.append(((qn, qs[qn][1], "query"), (en, ed[en][1], "inplace"), (dn, ed[dn][1], "inplace")))
    # the extent of the document comes from width / height: what a query remembered about it must not survive an edit of those attributes
    size_edits = [("set_attributes", ((("width", "6"), ("height", "6")),), "inplace"), ("set_attributes", ((("viewBox", "0 0 4 4"),),), "inplace"), ("remove_attributes", (("height",),), "inplace")]
    for qn in ("view_box", "tolerance", "shapes"):
        for e in size_edits:
            for dn in ("clip_to_viewbox", "absolute", "topicosvg", "view_box"):
                last = (dn, (), "query") if dn == "view_box" else (dn, ed[dn][1], "inplace")
                out.append((("@doc", "sized"), (qn, qs[qn][1], "query"), e, last))
    return out


def check_histories(repo: Repo, rep: Report, rule: str, ret_rule: str):
    svg = repo["svg"]
    F = "svg.SVG"
    hs = histories(rep.tier if rep.tier in ("quick", "thorough") else "quick")
    forms = [("forms", (n, a, "copy")) for n, a, _ in EDITORS] + [("forms", ("topicosvg", (), "copy", (("drop_unsupported", True),))), ("forms", ("topicosvg", (), "copy", (("ndigits", 1),))),
                                                               ("forms", ("topicosvg", (), "copy", (("allow_text", True),)))]
    hs = list(hs) + forms
    jobs = int(os.environ.get("VERIF_JOBS", "16"))
    chunk = max(1, len(hs) // (jobs * 4) or 1)
    tasks = [(repo.root, repo.overlay, hs[i:i + chunk]) for i in range(0, len(hs), chunk)]
    results = []
    if rep.tier == "selftest" or jobs <= 1:
        for t in tasks:
            results += _worker(t)
    else:
        with cf.ProcessPoolExecutor(max_workers=jobs) as ex:
            for r in ex.map(_worker, tasks):
                results += r
    errs = [e for _, _, _, e in results if e]
    bad = [(s, v) for s, v, _, _ in results if v]
    extra = [p for _, _, ps, _ in results for p in ps]
    if errs and not bad and not extra:
        raise AnalysisError(errs[0])
    by_first: Dict[str, List[str]] = {}
    for steps, v in bad:
        culprit = next((st[0] for st in steps if len(st) > 2 and st[2] == "inplace"), steps[0][0])
        by_first.setdefault(culprit, []).append(v)
    for culprit, vs in by_first.items():
        rep.fail(rule, f"svg.SVG.{culprit}", f"histories starting with {culprit}", f"{len(vs)} of {len(hs)} histories; first: {vs[0]}", svg, svg.functions.get(f"SVG.{culprit}"))
    if not bad:
        rep.ok(rule, F + " [histories]", f"{len(hs)} histories of 2-3 public operations (in-place, copying, queries) on a schematic document: final serialisation equals the serialise-and-re-parse-between-steps variant", True)
    by_op: Dict[str, List[str]] = {}
    for p in extra:
        op = p.split(": ", 1)[1].split("(")[0]
        by_op.setdefault(op, []).append(p)
    for op, ps in by_op.items():
        rep.fail(ret_rule, f"svg.SVG.{op}", "return value / receiver of the two forms", ps[0], svg, svg.functions.get(f"SVG.{op}"))
    if not extra:
        rep.ok(ret_rule, F + " [forms]", "in-place forms return the receiver; copying forms return a new object and leave the receiver's serialisation unchanged", True)

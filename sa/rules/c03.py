"""C03 - clip paths are rendered into exactly the clipped geometry (rule/CTM provenance clauses)."""
from __future__ import annotations

import ast
import re

from sa.core import AnalysisError, Repo, Report, call_name, kwarg, parent, unparse, walk_no_nested
from sa.rules.common import calls_named, rtext, enclosing
from sa.selftest import Edit, Variant

from sa.texts import T as _TX

EXPLANATION = _TX["C03"]["explanation"] + " Not decided: " + _TX["C03"]["not_decided"] + "."
ASSUMPTIONS = _TX["C03"]["assumptions"]
P = "C03"


def run(repo: Repo, rep: Report):
    for rid, txt in [
        ("R-SITE.rule-provenance", "interpreted on schematic documents: the clipped shape is intersected under its own fill-rule, every clip operand under its clip-rule (_simplify, clip_to_viewbox)"),
        ("R-SITE.clip-region", "_resolve_clip_path interpreted on a schematic clipPath: union of the children (each under its own clip-rule, <use> instantiated first), transformed child > clipPath > referencing CTM, intersected with the clipPath's own clip"),
        ("R-SITE.clip-stacking", "_traverse interpreted on a schematic document: a context's clips are the ancestors' clips followed by its own, resolved with its own CTM (siblings sharing a clipPath included)"),
        ("R-ORDER.clip-application", "_simplify interpreted on schematic documents: every emitted piece (fill and stroke) is intersected with all stacked clips after being stroked and transformed; no clip-path/clipPath survives"),
        ("R-SITE.cascade", "children of a clipPath are rendered with the properties of their own context (clip-rule on the clipPath element reaches them; the clip-rule in effect at the referencing element does not)"),
    ]:
        rep.rule(rid, txt)
    # the boolean plumbing (C13) is a necessary condition here too
    from sa.rules import c13, sem
    c13.run(repo, rep)
    sem.check_resolve_clip_path(repo, rep, "R-SITE.clip-region")
    sem.check_clip_cascade(repo, rep, "R-SITE.cascade")
    sem.check_clip_rule_context(repo, rep, "R-SITE.cascade")
    sem.check_traverse(repo, rep, {"clips": "R-SITE.clip-stacking"})
    sem.check_simplify(repo, rep, {"clip": "R-ORDER.clip-application"})
    sem.check_clip_to_viewbox(repo, rep, "R-SITE.rule-provenance")


_S = "svg"
VARIANTS = [
    Variant("children of a clipPath take the clip-rule of the element that references the clip",
            [Edit(_S, "SVG._resolve_clip_path", "from_element(e).apply_transform(", "from_element(e, **({\"clip-rule\": self._ref_rule} if self._ref_rule and \"clip-rule\" not in e.attrib else {})).apply_transform("),
             Edit(_S, "SVG._traverse", "                    clips += (\n", "                    self._ref_rule = child.attrib.get(\"clip-rule\")\n                    clips += (\n"),
             Edit(_S, "SVG._resolve_clip_path", "        clip_path_el = self.resolve_url(clip_path_url, \"clipPath\")\n", "        clip_path_el = self.resolve_url(clip_path_url, \"clipPath\")\n        self._ref_rule = self.__dict__.get(\"_ref_rule\")\n")],
            [("R-SITE.cascade", "_traverse")], allow_analysis_error=True),
    Variant("silent: clips paired with the fill_rule of the resolved clip (always nonzero, as its clip_rule)", [Edit(_S, "SVG._simplify", "*(c.clip_rule for c in context.clips),", "*(c.fill_rule for c in context.clips),")], silent=True),
    Variant("shape clipped under the clip's rule", [Edit(_S, "SVG._simplify", "                                    p.fill_rule,\n                                    *(c.clip_rule for c in context.clips),", "                                    *(c.clip_rule for c in context.clips),\n                                    p.fill_rule,")], [("R-ORDER.clip-application", "_simplify")]),
    Variant("view-box clip under the wrong rule", [Edit(_S, "SVG.clip_to_viewbox", "fill_rules=(shape.fill_rule, clip_path.clip_rule)", "fill_rules=(clip_path.clip_rule, shape.fill_rule)")], [("R-SITE.rule-provenance", "clip_to_viewbox")]),
    Variant("union of clip children uses fill_rule", [Edit("svg_types", "union", "[s.clip_rule for s in shapes]", "[s.fill_rule for s in shapes]")], [("R-SITE.pathop-wrappers", "union")]),
    Variant("nested clip not intersected", [Edit(_S, "SVG._resolve_clip_path", "            clip = SVGPath.from_commands(intersection([clip, clip_clop]))\n", "")], [("R-SITE.clip-region", "_resolve_clip_path")]),
    Variant("clip resolved with the parent's CTM", [Edit(_S, "SVG._traverse", "self._resolve_clip_path(child.attrib[\"clip-path\"], transform),", "self._resolve_clip_path(child.attrib[\"clip-path\"], context.transform),")],
            [("R-SITE.clip-stacking", "_traverse")]),
    Variant("clip replaces the parent's clips", [Edit(_S, "SVG._traverse", "                    clips += (", "                    clips = (")], [("R-SITE.clip-stacking", "_traverse")]),
    Variant("clip memoised by url", [Edit(_S, "SVG._traverse", "                    clips += (\n                        self._resolve_clip_path(child.attrib[\"clip-path\"], transform),\n                    )\n",
                                          "                    key = child.attrib[\"clip-path\"]\n                    if key not in seen_clips:\n                        seen_clips[key] = self._resolve_clip_path(key, transform)\n                    clips += (seen_clips[key],)\n"),
                                     Edit(_S, "SVG._traverse", "            child_idxs = defaultdict(int)\n", "            child_idxs = defaultdict(int)\n            seen_clips = {}\n")],
            [("R-SITE.clip-stacking", "_traverse")]),
    Variant("clip before transform", [Edit(_S, "SVG._simplify", "                if context.transform != Affine2D.identity():\n                    paths = [p.apply_transform(context.transform) for p in paths]\n\n", ""),
                                      Edit(_S, "SVG._simplify", "                if len(paths) != 1 or paths[0] != initial_path:", "                if context.transform != Affine2D.identity():\n                    paths = [p.apply_transform(context.transform) for p in paths]\n\n                if len(paths) != 1 or paths[0] != initial_path:")],
            [("R-ORDER.clip-application", "_simplify")]),
    Variant("use children of clipPath read before instantiation", [Edit(_S, "SVG._resolve_clip_path", "        self._resolve_use(clip_path_el)\n\n        transform = _element_transform(clip_path_el, transform)\n", "        transform = _element_transform(clip_path_el, transform)\n"),
                                                                   Edit(_S, "SVG._resolve_clip_path", "        clip = SVGPath.from_commands(union(clip_paths))\n", "        self._resolve_use(clip_path_el)\n        clip = SVGPath.from_commands(union(clip_paths))\n")],
            [("R-SITE.clip-region", "_resolve_clip_path")]),
    Variant("silent: comment", [Edit(_S, "SVG._resolve_clip_path", "        clip = SVGPath.from_commands(union(clip_paths))\n", "        # union of the children\n        clip = SVGPath.from_commands(union(clip_paths))\n")], silent=True),
]

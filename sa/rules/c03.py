"""C03 - clip paths are rendered into exactly the clipped geometry (rule/CTM provenance clauses)."""
from __future__ import annotations

import ast
import re

from sa.core import AnalysisError, Repo, Report, call_name, kwarg, parent, unparse, walk_no_nested
from sa.rules.common import calls_named, rtext, enclosing
from sa.selftest import Edit, Variant

EXPLANATION = (
    "Set-theoretic exactness is Skia's (not decided). Decided necessary conditions: (1) at every path-operation call the shape being clipped "
    "is paired with its fill_rule and every operand coming from a clipPath with its clip_rule, positionally; (2) the clip region is the union "
    "of the clipPath's children, intersected with the clipPath's own clip-path, each child transformed child-first, then clipPath, then the "
    "referencing element's CTM, with <use> children resolved before the children are read; (3) a child's clip tuple extends its parent's, is "
    "resolved - unconditionally, not behind a memo keyed without the CTM - with the child's own CTM, under the guard 'absent, empty or none'; "
    "(4) in _simplify every emitted piece is intersected with all stacked clips after stroking and transforming, clip-path is deleted; (5) "
    "every shape read for rendering is read with its inherited attributes (sibling call sites of from_element agree) - the site in "
    "_resolve_clip_path does not (known finding F10); the boolean-operation plumbing itself is C13 and is re-checked here."
)
ASSUMPTIONS = ["Skia's intersection/union are exact for the fill types given (C13 decides that they are given correctly)"]
P = "C03"


def run(repo: Repo, rep: Report):
    svg = repo["svg"]
    for rid, txt in [
        ("R-SITE.rule-provenance", "fill_rule for the clipped shape, clip_rule for clip operands, positionally, at every path-operation call"),
        ("R-SITE.clip-region", "_resolve_clip_path: union of children, nested clip intersected, transform order, use resolved first"),
        ("R-SITE.clip-stacking", "_traverse: clips extend the parent's, resolved with the child's CTM on every path where a clip is present"),
        ("R-ORDER.clip-application", "_simplify: stroke, then transform, then intersect every piece with all clips; clip-path deleted"),
        ("R-SITE.cascade", "every from_element used for rendering receives the inherited attributes"),
    ]:
        rep.rule(rid, txt)
    # the boolean plumbing (C13) is a necessary condition here too
    from sa.rules import c13
    c13.run(repo, rep)

    # ---- (1) rule provenance at the call sites in svg.py
    fn = svg.func("SVG._simplify")
    F = "svg.SVG._simplify"
    rep.saw(F)
    inter = [c for c in ast.walk(fn) if isinstance(c, ast.Call) and call_name(c) == "intersection"]
    ok = False
    for c in inter:
        ops = unparse(c.args[0]) if c.args else ""
        fr = kwarg(c, "fill_rules")
        m = re.fullmatch(r"\((\w+), \*context\.clips\)", ops)
        if m and fr is not None:
            p = m.group(1)
            if re.fullmatch(rf"\({p}\.fill_rule, \*\((\w+)\.clip_rule for \1 in context\.clips\)\)", unparse(fr)):
                ok = True
    if ok:
        rep.ok("R-SITE.rule-provenance", f"{F}: intersection((p, *clips), fill_rules=(p.fill_rule, *(c.clip_rule for c in clips)))", "positional pairing", True)
    else:
        rep.fail("R-SITE.rule-provenance", F, "intersection((p, *context.clips), fill_rules=(p.fill_rule, *(c.clip_rule for c in context.clips)))",
                 "the clipped shape is not paired with its fill-rule and the clips with their clip-rule (in this order)", svg, inter[0] if inter else fn)
    cv = svg.func("SVG.clip_to_viewbox")
    inter = [c for c in ast.walk(cv) if isinstance(c, ast.Call) and call_name(c) == "intersection"]
    if inter and unparse(inter[0].args[0]) == "(shape, clip_path)" and kwarg(inter[0], "fill_rules") is not None \
            and unparse(kwarg(inter[0], "fill_rules")) == "(shape.fill_rule, clip_path.clip_rule)":
        rep.ok("R-SITE.rule-provenance", "svg.SVG.clip_to_viewbox: (shape.fill_rule, clip_path.clip_rule)")
    else:
        rep.fail("R-SITE.rule-provenance", "svg.SVG.clip_to_viewbox", "intersection((shape, clip_path), fill_rules=(shape.fill_rule, clip_path.clip_rule))",
                 "view-box clipping no longer pairs the shape with its fill-rule and the rectangle with its clip-rule", svg, cv)

    # ---- (2) clip region construction
    rc = svg.func("SVG._resolve_clip_path")
    F = "svg.SVG._resolve_clip_path"
    rep.saw(F)
    body = rc.body
    txt = [unparse(s) for s in body]
    def idx(needle):
        return next((i for i, t in enumerate(txt) if needle in t), -1)
    i_url, i_use, i_tr, i_paths, i_union = idx("self.resolve_url(p0" ) , idx("self._resolve_use(clip_path_el)"), idx("transform = _element_transform(clip_path_el, transform)"), idx("clip_paths = ["), idx("SVGPath.from_commands(union(clip_paths))")
    i_url = idx("clip_path_el = self.resolve_url(clip_path_url, 'clipPath')")
    if -1 not in (i_url, i_use, i_tr, i_paths, i_union) and i_url < i_use < i_paths < i_union and i_tr < i_paths:
        rep.ok("R-SITE.clip-region", f"{F}: resolve url > instantiate <use> children > read children > union", "statement order", True)
    else:
        rep.fail("R-SITE.clip-region", F, "resolve_url; _resolve_use(clip_path_el); clip_paths = [...]; union(clip_paths)",
                 "the clip region is no longer built as: resolve the clipPath, instantiate its <use> children, read the children, union them", svg, rc)
    cp = [s for s in body if isinstance(s, ast.Assign) and unparse(s.targets[0]) == "clip_paths"]
    if cp and isinstance(cp[0].value, ast.ListComp):
        lc = cp[0].value
        elt = unparse(lc.elt)
        if re.fullmatch(r"from_element\((\w+)(, .*)?\)\.apply_transform\(_element_transform\(\1, transform\)\)", elt) and unparse(lc.generators[0].iter) == "clip_path_el" \
                and not lc.generators[0].ifs:
            rep.ok("R-SITE.clip-region", f"{F}: every child transformed by its own transform, then clipPath transform, then the caller's CTM", "", True)
        else:
            rep.fail("R-SITE.clip-region", F, elt, "children of the clipPath are not all transformed child-first into the referencing element's coordinate system", svg, cp[0])
    nested = [n for n in walk_no_nested(rc) if isinstance(n, ast.If) and "'clip-path' in clip_path_el.attrib" in unparse(n.test)]
    ok = False
    if nested:
        t = unparse(nested[0])
        ok = "self._resolve_clip_path(clip_path_el.attrib['clip-path'], transform)" in t and re.search(r"intersection\(\[clip, \w+\]\)", t) is not None
    if ok:
        rep.ok("R-SITE.clip-region", f"{F}: a clip-path on the clipPath is resolved in the same coordinate system and intersected", "", True)
    else:
        rep.fail("R-SITE.clip-region", F, "clip = SVGPath.from_commands(intersection([clip, clip_clop]))", "a clipPath that is itself clipped is no longer intersected with its own clip", svg, rc)
    rets = [r for r in walk_no_nested(rc) if isinstance(r, ast.Return)]
    if len(rets) == 1 and unparse(rets[0].value) == "clip":
        rep.ok("R-SITE.clip-region", f"{F}: single exit returning the computed region")
    else:
        rep.fail("R-SITE.clip-region", F, "return clip", "clip resolution has additional exits (cached or partial results)", svg, rc)

    # ---- (3) stacking in _traverse
    tr = svg.func("SVG._traverse")
    F = "svg.SVG._traverse"
    rep.saw(F)
    guard = [n for n in ast.walk(tr) if isinstance(n, ast.If) and "resolve_clip_paths" in unparse(n.test) and "clip-path" in unparse(n.test)]
    ok = False
    if guard:
        g = guard[0]
        gt = unparse(g.test)
        cond_ok = "child.attrib.get('clip-path')" in gt and "child.attrib['clip-path'] != 'none'" in gt and gt.count(" and ") == 2
        body_ok = len(g.body) == 1 and unparse(g.body[0]) == "clips += (self._resolve_clip_path(child.attrib['clip-path'], transform),)" and not g.orelse
        before = [unparse(s) for s in parent(g).body[: parent(g).body.index(g)]]
        ctm_ok = "transform = _element_transform(child, context.transform)" in before and "clips = context.clips" in before
        ok = cond_ok and body_ok and ctm_ok
    if ok:
        rep.ok("R-SITE.clip-stacking", f"{F}: clips = parent's + (resolve(child clip-path, child CTM),) exactly when clip-path is present, non-empty and not 'none'", "unconditional call inside the guard", True)
    else:
        rep.fail("R-SITE.clip-stacking", F, "clips += (self._resolve_clip_path(child.attrib['clip-path'], transform),)",
                 "a child's clip is no longer resolved on every occasion with the child's own CTM and appended to the parent's clips "
                 "(e.g. looked up in a memo keyed without the transform, or replacing the parent's clips)", svg, guard[0] if guard else tr)

    # ---- (4) application in _simplify
    fn = svg.func("SVG._simplify")
    F = "svg.SVG._simplify"
    shape_if = [n for n in ast.walk(fn) if isinstance(n, ast.If) and unparse(n.test) == "_is_shape(el.tag)"]
    sb = shape_if[0].body if shape_if else []
    def pos(pred):
        return next((i for i, s in enumerate(sb) if pred(unparse(s))), -1)
    i_stroke = pos(lambda t: "self._stroke(" in t)
    i_tr = pos(lambda t: "apply_transform(context.transform)" in t)
    i_clip = pos(lambda t: t.startswith("if context.clips:"))
    if -1 not in (i_stroke, i_tr, i_clip) and i_stroke < i_tr < i_clip:
        rep.ok("R-ORDER.clip-application", f"{F}: stroke, then transform, then clip", "top-level statement order of the shape branch", True)
    else:
        rep.fail("R-ORDER.clip-application", F, "stroke < apply_transform < intersection with clips", "pieces are no longer clipped after being stroked and transformed into the clip's coordinate system", svg, shape_if[0] if shape_if else fn)
    if i_clip >= 0:
        ci = sb[i_clip]
        loops = [s for s in ci.body if isinstance(s, ast.For) and unparse(s.iter) == "paths"]
        ok = bool(loops) and not ci.orelse and "update_path(intersection(" in unparse(loops[0]).replace("\n", "") and not any(isinstance(x, (ast.If, ast.Continue, ast.Break)) for x in ast.walk(loops[0]))
        if ok:
            rep.ok("R-ORDER.clip-application", f"{F}: every piece (fill and stroke) is intersected", "loop over all paths without conditions")
        else:
            rep.fail("R-ORDER.clip-application", F, "for p in paths: p.update_path(intersection(...), inplace=True)", "not every emitted piece is intersected with the clips", svg, ci)
    if "_del_attrs(el, 'clip-path', 'transform')" in unparse(fn):
        rep.ok("R-ORDER.clip-application", f"{F}: clip-path attribute deleted from every visited element")
    else:
        rep.fail("R-ORDER.clip-application", F, "_del_attrs(el, 'clip-path', 'transform')", "the clip-path attribute survives", svg, fn)

    # ---- (5) cascade at from_element sites
    sites = []
    for q, f in svg.functions.items():
        for c in ast.walk(f):
            if isinstance(c, ast.Call) and call_name(c) == "from_element" and _owner(c) is f:
                sites.append((q, f, c))
    rep.floor("from_element call sites in svg.py", len(sites), 4)
    for q, f, c in sites:
        has_ctx = any(k.arg is None for k in c.keywords)  # **inherited
        site = f"svg.{q}: {unparse(c)}"
        if has_ctx:
            rep.ok("R-SITE.cascade", site, "reads the shape with the inherited context")
        elif q == "SVG._simplify":
            # allowed: the element just received its inherited attributes via _inherit_attrib(context.attrib, el)
            main = [l for l in f.body if isinstance(l, ast.For)]
            pre = "_inherit_attrib(context.attrib, el)" in unparse(f)
            if pre:
                rep.ok("R-SITE.cascade", site, "element attributes were materialised by _inherit_attrib(context.attrib, el) earlier in the iteration")
            else:
                rep.fail("R-SITE.cascade", f"svg.{q}", c, "shape is read without inherited attributes", svg, c)
        else:
            rep.fail("R-SITE.cascade", f"svg.{q}", c, "a shape that is rendered (as part of a clip region) is read from its own attributes only: clip-rule (and any other "
                     "inherited property) set on the clipPath element or an ancestor is ignored, unlike at the sibling call sites of from_element", svg, c)


def _owner(node):
    p = parent(node)
    while p is not None and not isinstance(p, (ast.FunctionDef, ast.AsyncFunctionDef)):
        p = parent(p)
    return p


_S = "svg"
VARIANTS = [
    Variant("clips use fill_rule", [Edit(_S, "SVG._simplify", "*(c.clip_rule for c in context.clips),", "*(c.fill_rule for c in context.clips),")], [("R-SITE.rule-provenance", "_simplify")]),
    Variant("union of clip children uses fill_rule", [Edit("svg_types", "union", "[s.clip_rule for s in shapes]", "[s.fill_rule for s in shapes]")], [("R-SITE.pathop-wrappers", "union")]),
    Variant("nested clip not intersected", [Edit(_S, "SVG._resolve_clip_path", "            clip = SVGPath.from_commands(intersection([clip, clip_clop]))\n", "")], [("R-SITE.clip-region", "_resolve_clip_path")]),
    Variant("clip resolved with the parent's CTM", [Edit(_S, "SVG._traverse", "self._resolve_clip_path(child.attrib[\"clip-path\"], transform),", "self._resolve_clip_path(child.attrib[\"clip-path\"], context.transform),")],
            [("R-SITE.clip-stacking", "_traverse")]),
    Variant("clip replaces the parent's clips", [Edit(_S, "SVG._traverse", "                    clips += (", "                    clips = (")], [("R-SITE.clip-stacking", "_traverse")]),
    Variant("clip memoised by url", [Edit(_S, "SVG._traverse", "                    clips += (\n                        self._resolve_clip_path(child.attrib[\"clip-path\"], transform),\n                    )\n",
                                          "                    key = child.attrib[\"clip-path\"]\n                    if key not in seen_clips:\n                        seen_clips[key] = self._resolve_clip_path(key, transform)\n                    clips += (seen_clips[key],)\n"),
                                     Edit(_S, "SVG._traverse", "            child_idxs = defaultdict(int)\n", "            child_idxs = defaultdict(int)\n            seen_clips = {}\n")],
            [("R-SITE.clip-stacking", "_traverse")]),
    Variant("clip before transform", [Edit(_S, "SVG._simplify", "                if context.transform != Affine2D.identity():\n                    paths = [p.apply_transform(context.transform) for p in paths]\n\n", ""),
                                      Edit(_S, "SVG._simplify", "                if len(paths) != 1 or paths[0] != initial_path:", "                if context.transform != Affine2D.identity():\n                    paths = [p.apply_transform(context.transform) for p in paths]\n\n                if len(paths) != 1 or paths[0] != initial_path:")],
            [("R-ORDER.clip-application", "_simplify")]),
    Variant("use children of clipPath read before instantiation", [Edit(_S, "SVG._resolve_clip_path", "        self._resolve_use(clip_path_el)\n\n        transform = _element_transform(clip_path_el, transform)\n", "        transform = _element_transform(clip_path_el, transform)\n"),
                                                                   Edit(_S, "SVG._resolve_clip_path", "        clip = SVGPath.from_commands(union(clip_paths))\n", "        self._resolve_use(clip_path_el)\n        clip = SVGPath.from_commands(union(clip_paths))\n")],
            [("R-SITE.clip-region", "_resolve_clip_path")]),
    Variant("silent: comment", [Edit(_S, "SVG._resolve_clip_path", "        clip = SVGPath.from_commands(union(clip_paths))\n", "        # union of the children\n        clip = SVGPath.from_commands(union(clip_paths))\n")], silent=True),
]

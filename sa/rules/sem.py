"""Semantic site checks: methods of class SVG interpreted by the abstract machine (sa.machine) on schematic
documents; what they *do* (resulting tree, geometry terms, traversal contexts, event traces) is compared with
reference expectations written from the SVG specification / README.  Independent of how the code is spelled."""
from __future__ import annotations

from fractions import Fraction
from typing import Dict, List, Optional, Tuple

from sa.core import AnalysisError, Repo, Report
from sa.dom import AffTok, El, ETREE_COMMENT, ETREE_PI, parse_affine
from sa.machine import GeomTok, N, NumAttr, Trace, geom_of, make_svg, ok_outcomes, run
from sa.pathsem import PathData
from sa.poly import RF
from sa.sym import ClassRef, Cond, Ext, PyCallable, Rec, SymStr, Undecided

S = RF.sym


def pd(*letters_pts):
    return PathData([(l, tuple(S(x) if isinstance(x, str) else x for x in a)) for l, a in letters_pts])


# =========================================================================================== traversal
class ClipTok(Ext):
    def __init__(self, url, transform):
        self.url, self.transform = url, transform

    def sym_eq(self, it, other):
        return isinstance(other, ClipTok) and other.url == self.url and repr(other.transform) == repr(self.transform)

    def sym_copy(self):
        return self

    def __repr__(self):
        return f"Clip({self.url} @ {self.transform!r})"


def _trav_doc():
    p1 = El("path", {"d": pd(("M", (0, 0))), "id": "p1"}, name="p1")
    p2 = El("path", {"d": pd(("M", (1, 1))), "transform": "tB", "clip-path": "url(#c)", "fill": "blue"}, name="p2")
    p3 = El("path", {"d": pd(("M", (2, 2))), "stroke": "green"}, name="p3")
    g2 = El("g", {"clip-path": "none", "fill": "yellow"}, [p3], name="g2")
    p2b = El("path", {"d": pd(("M", (1, 2))), "transform": "tD", "clip-path": "url(#c)"}, name="p2b")
    g1 = El("g", {"transform": "tA", "opacity": "0.5", "clip-path": "url(#c)", "stroke-width": "3"}, [p1, El(ETREE_COMMENT, name="c1"), p2, p2b, g2], name="g1")
    p4 = El("path", {"d": pd(("M", (3, 3))), "clip-path": ""}, name="p4")
    clip = El("clipPath", {"id": "c"}, [El("rect", {"width": "4", "height": "3"}, name="cr")], name="clip")
    defs = El("defs", {}, [clip], name="defs")
    root = El("svg", {"viewBox": "0 0 10 10", "fill": "red"}, [El(ETREE_COMMENT, name="c0"), defs, g1, El(ETREE_PI, name="pi"), p4], name="root")
    return root


def _ref_traverse(root: El):
    """Reference: document-order walk skipping comments/PIs, nth-of-type per tag among element siblings."""
    out = []

    def rec(el, path, tf, clips, inherited):
        out.append((el.name, path, tf, clips))
        counts: Dict[str, int] = {}
        for ch in el.children:
            if not isinstance(ch.tag, str):
                continue
            loc = ch.local()
            n = counts.get(loc, 0)
            counts[loc] = n + 1
            ctf = ((f"parse({ch.attrib['transform']})",) if ch.attrib.get("transform") else ()) + tf
            cclips = clips
            cp = ch.attrib.get("clip-path")
            if cp and cp != "none":
                cclips = clips + ((cp, ctf),)
            rec(ch, f"{path}/{loc}[{n}]", ctf, cclips, None)

    rec(root, "/svg[0]", (), (), None)
    return out


def check_traverse(repo: Repo, rep: Report, rules: Dict[str, str]):
    """rules: subset of {'paths','ctm','clips','attrib','order'} -> rule id to report under."""
    svg = repo["svg"]
    F = "svg.SVG._traverse"
    rep.saw(F, "svg.SVG.depth_first", "svg.SVG.breadth_first", "svg._element_transform", "svg._attrib_to_pass_on")
    holder = {}

    def build():
        root = _trav_doc()
        holder["root"] = root
        return ([make_svg(root)], {})

    def extra(it):
        it.hooks[("svg", "SVG._resolve_clip_path")] = lambda i, a, k: ClipTok(a[1], a[2] if len(a) > 2 else k.get("transform", AffTok()))

    outs = ok_outcomes(run(repo, "SVG.depth_first", build, setup_extra=extra), F)
    fn = svg.func("SVG._traverse")
    if len(outs) != 1:
        raise AnalysisError(f"{F}: traversal of the schematic document forks into {len(outs)} paths")
    if outs[0].raised:
        for rid in dict.fromkeys(rules.values()):
            rep.fail(rid, F, "depth_first() on a document with comments and processing instructions",
                     f"the traversal raises {outs[0].raised} ({outs[0].raise_msg}) on the schematic document (comments / processing instructions among the children)", svg, fn)
        return
    ctxs = list(outs[0].value)
    ref = _ref_traverse(holder["root"])
    got_names = [c.f["element"].name for c in ctxs]
    fn = svg.func("SVG._traverse")
    if "order" in rules or "paths" in rules:
        if got_names != [r[0] for r in ref]:
            rep.fail(rules.get("order", rules.get("paths")), F, "depth_first() element order",
                     f"depth-first traversal visits {got_names}; document order without comments/processing instructions is {[r[0] for r in ref]}", svg, fn)
            return
        rep.ok(rules.get("order", rules.get("paths")), F + " [order]", f"{len(ctxs)} elements in document order, comments and processing instructions skipped", True)
    by = {r[0]: r for r in ref}
    bad = {k: [] for k in rules}
    for c in ctxs:
        name = c.f["element"].name
        _, path, tf, clips = by[name]
        if "paths" in rules and c.f["path"] != path:
            bad["paths"].append(f"{name}: path {c.f['path']!r}, expected {path!r} (/name[n], n counted per tag among element siblings)")
        if "ctm" in rules:
            got = c.f["transform"].app if isinstance(c.f["transform"], AffTok) else None
            if got != tf:
                bad["ctm"].append(f"{name}: CTM applies {got}, expected own transform first then the ancestors' {tf}")
        if "clips" in rules:
            got = tuple((cl.url, cl.transform.app) for cl in c.f["clips"]) if all(isinstance(cl, ClipTok) for cl in c.f["clips"]) else None
            if got != clips:
                bad["clips"].append(f"{name}: clips {got}, expected the ancestors' clips followed by its own resolved with its own CTM {clips}")
        if "attrib" in rules:
            at = c.f["attrib"]
            exp_fill = {"root": "red", "defs": "red", "clip": "red", "cr": "red", "g1": "red", "p1": "red", "p2": "blue", "p2b": "red", "g2": "yellow", "p3": "yellow", "p4": "red"}[name]
            exp_sw = "3" if name in ("g1", "p1", "p2", "p2b", "g2", "p3") else "1"
            exp_stroke = "green" if name == "p3" else "none"
            if at.get("fill") != exp_fill or str(at.get("stroke-width")) != exp_sw or at.get("stroke") != exp_stroke:
                bad["attrib"].append(f"{name}: context has fill={at.get('fill')} stroke={at.get('stroke')} stroke-width={at.get('stroke-width')}; cascade gives fill={exp_fill} stroke={exp_stroke} stroke-width={exp_sw}")
            if any(k in at for k in ("opacity", "transform", "clip-path", "id")):
                bad["attrib"].append(f"{name}: context carries non-inherited attributes {sorted(k for k in at if k in ('opacity', 'transform', 'clip-path', 'id'))}")
    for k, rid in rules.items():
        if k == "order":
            continue
        what = {"paths": "element paths", "ctm": "accumulated transforms", "clips": "clip stacks", "attrib": "inherited attribute contexts"}[k]
        if bad[k]:
            rep.fail(rid, F, f"{what} on the schematic document", f"{len(bad[k])} contexts wrong; first: {bad[k][0]}", svg, fn)
        else:
            rep.ok(rid, F + f" [{what}]", f"{len(ctxs)} contexts equal the reference ({what})", True)
    # breadth-first: level order, and no clip resolution when asked not to
    outs = ok_outcomes(run(repo, "SVG.breadth_first", lambda: (build()[0], {"resolve_clip_paths": False}), setup_extra=extra), F)
    if outs[0].raised:
        raise AnalysisError(f"{F}: breadth_first did not complete")
    b = list(outs[0].value)
    depth = [c.f["path"].count("/") for c in b]
    if "order" in rules:
        if depth != sorted(depth) or any(c.f["clips"] for c in b):
            rep.fail(rules["order"], "svg.SVG.breadth_first", "breadth_first(resolve_clip_paths=False)", "not level order / clips resolved although disabled", svg, svg.func("SVG.breadth_first"))
        else:
            rep.ok(rules["order"], "svg.SVG.breadth_first", "level order; no clip resolution when disabled")


# =========================================================================================== clip region
def check_clip_cascade(repo: Repo, rep: Report, rule: str):
    """Children of a clipPath are rendered with the properties the cascade gives them: clip-rule set on the clipPath
    element applies to children that do not set their own."""
    svg = repo["svg"]
    F = "svg.SVG._resolve_clip_path"

    def build():
        c = El("clipPath", {"id": "c", "clip-rule": "evenodd"},
               [El("rect", {"width": "4", "height": "3", "clip-rule": "nonzero"}, name="r1"), El("path", {"d": pd(("M", (0, 0)), ("L", (1, 1)))}, name="pth")], name="c")
        root = El("svg", {"viewBox": "0 0 10 10"}, [El("defs", {}, [c]), El("path", {"d": pd(("M", (5, 5)))})], name="root")
        return ([make_svg(root), "url(#c)", AffTok.atom("CTM")], {})

    outs = ok_outcomes(run(repo, "SVG._resolve_clip_path", build), F)
    fn = svg.func("SVG._resolve_clip_path")
    for o in outs:
        if o.raised:
            rep.fail(rule, F, "clip-rule on the clipPath element", f"raises {o.raised}", svg, fn)
            return
        g = unseq(geom_of(o.value)) if isinstance(o.value, Rec) else None
        if not (isinstance(g, GeomTok) and g.term[0] == "union"):
            raise AnalysisError(f"{F}: unexpected clip term {g!r}"[:200])
        rules = tuple(g.term[2])
        if rules != ("nonzero", "evenodd"):
            calls = [c for c in __import__("ast").walk(fn) if isinstance(c, __import__("ast").Call) and getattr(c.func, "id", None) == "from_element"]
            rep.fail(rule, F, "clip-rule set on the clipPath element is not inherited by its children",
                     f"children of <clipPath clip-rule='evenodd'> (one with its own clip-rule='nonzero', one without) are interpreted under {rules}; "
                     "the cascade gives (nonzero, evenodd): inherited properties set on the clipPath element or its ancestors are ignored when the children are read",
                     svg, calls[0] if calls else fn)
            return
    rep.ok(rule, F + " [cascade]", "children of a clipPath inherit clip-rule from the clipPath element", True)


def check_clip_rule_context(repo: Repo, rep: Report, rule: str):
    """The children of a clipPath are read in the clipPath's own context: the clip-rule (or fill-rule) in effect at the element that
    references the clip - own attribute or inherited from a group - does not reach them.  Decided on the traversal of a document
    whose clipPath neither carries nor inherits a clip-rule (so the known deviation about the clipPath's own attribute is not involved)."""
    svg = repo["svg"]
    F = "svg.SVG._traverse"
    fn = svg.func("SVG._resolve_clip_path")

    def build():
        c = El("clipPath", {"id": "c"}, [El("path", {"d": pd(("M", (0, 0)), ("L", (4, 0)), ("L", (4, 4)), ("Z", ()), ("M", (1, 1)), ("L", (3, 1)), ("L", (3, 3)), ("Z", ()))}, name="star"),
                                         El("rect", {"width": "4", "height": "3", "clip-rule": "evenodd"}, name="r1")], name="c")
        tri = lambda i: pd(("M", (i, i)), ("L", (i + 2, i)), ("L", (i + 2, i + 2)), ("Z", ()))
        kids = [El("defs", {}, [c]),
                El("g", {"clip-rule": "evenodd", "fill-rule": "evenodd", "id": "grp"}, [El("path", {"id": "in-group", "d": tri(1), "clip-path": "url(#c)"}, name="in-group")], name="grp"),
                El("path", {"id": "own-attr", "d": tri(4), "clip-path": "url(#c)", "clip-rule": "evenodd"}, name="own-attr"),
                El("path", {"id": "own-style", "d": tri(6), "clip-path": "url(#c)", "style": "clip-rule:evenodd"}, name="own-style"),
                El("g", {"id": "clipped-group", "clip-path": "url(#c)", "clip-rule": "evenodd"}, [El("path", {"id": "child", "d": tri(8)}, name="child")], name="clipped-group"),
                El("path", {"id": "plain", "d": tri(10), "clip-path": "url(#c)"}, name="plain")]
        return ([make_svg(El("svg", {"viewBox": "0 0 20 20"}, kids, name="root"))], {})

    outs = ok_outcomes(run(repo, "SVG.depth_first", build), F)
    probs, n = [], 0
    for o in outs:
        if o.raised:
            probs.append(f"the traversal raises {o.raised} ({o.raise_msg})")
            continue
        for ctx in o.value:
            name = ctx.f["element"].name
            if name not in ("in-group", "own-attr", "own-style", "clipped-group", "child", "plain"):
                continue
            clips = list(ctx.f["clips"])
            if len(clips) != 1:
                probs.append(f"{name}: {len(clips)} clips in its context (1 expected)")
                continue
            g = unseq(geom_of(clips[0])) if isinstance(clips[0], Rec) else None
            if not (isinstance(g, GeomTok) and g.term[0] == "union"):
                raise AnalysisError(f"{F}: unexpected clip term {g!r}"[:200])
            n += 1
            rules = tuple(g.term[2])
            if rules != ("nonzero", "evenodd"):
                probs.append(f"the clip of <{name}> (clip-rule evenodd in effect there) reads the children of the clipPath under rules {rules}; they are (nonzero, evenodd): "
                             "a child without its own clip-rule takes it from the clipPath's ancestors, never from the referencing element")
    if probs:
        u = list(dict.fromkeys(probs))
        rep.fail(rule, F, "clip-rule in effect at the referencing element", f"{len(u)} deviations; first: {u[0]}", svg, fn)
    elif n < 6:
        raise AnalysisError(f"{F}: only {n} clipped contexts were seen")
    else:
        rep.ok(rule, F + " [referencing context]", f"{n} clipped contexts (rule by group, attribute, style, on a clipped group, none): the clipPath's children are read under their own rules", True)


def check_resolve_clip_path(repo: Repo, rep: Report, rule: str):
    svg = repo["svg"]
    F = "svg.SVG._resolve_clip_path"
    rep.saw(F)
    holder = {}

    def build():
        shape = El("circle", {"id": "shp", "r": N("sr")}, name="shape")
        c = El("clipPath", {"id": "c", "transform": "tC", "clip-path": "url(#d)"},
               [El("rect", {"width": N("w1"), "height": N("h1"), "transform": "t1", "clip-rule": "evenodd"}, name="r1"),
                El("use", {"{http://www.w3.org/1999/xlink}href": "#shp"}, name="u"),
                El("path", {"d": pd(("M", (0, 0)), ("L", (1, 1)))}, name="pth")], name="c")
        d = El("clipPath", {"id": "d"}, [El("ellipse", {"rx": N("ex"), "ry": N("ey")}, name="e1")], name="d")
        root = El("svg", {"viewBox": "0 0 10 10"}, [El("defs", {}, [shape, c, d]), El("path", {"d": pd(("M", (5, 5)))})], name="root")
        holder["root"] = root
        return ([make_svg(root), "url(#c)", AffTok.atom("CTM")], {})

    outs = ok_outcomes(run(repo, "SVG._resolve_clip_path", build), F)
    fn = svg.func("SVG._resolve_clip_path")
    probs = []
    n_ok = 0
    for o in outs:
        if o.raised:
            probs.append(f"raises {o.raised} on the schematic clipPath")
            continue
        clip = o.value
        g = geom_of(clip) if isinstance(clip, Rec) else None
        if not isinstance(g, GeomTok) or g.term[0] != "isect":
            probs.append(f"a clipPath that is itself clipped must yield the intersection of its region with its own clip; got {g!r}"[:300])
            continue
        ops, rules = g.term[1], g.term[2]
        if len(ops) != 2:
            probs.append(f"intersection of {len(ops)} operands (2 expected: the region and the nested clip)")
            continue
        region = ops[0].term[1] if ops[0].term[0] == "seq" else ops[0]
        if not (isinstance(region, GeomTok) and region.term[0] == "union"):
            probs.append(f"clip region is {region!r}; it must be the union of the clipPath's children"[:300])
            continue
        kids, krules = region.term[1], region.term[2]
        if len(kids) != 3:
            probs.append(f"union of {len(kids)} children; the clipPath has 3 (rect, instantiated use, path)")
            continue
        exp_tf = [("parse(t1)", "parse(tC)", "CTM"), None, ("parse(tC)", "CTM")]
        for i, (kid, etf) in enumerate(zip(kids, exp_tf)):
            inner = kid.term[1] if kid.term[0] == "seq" else kid
            if not (isinstance(inner, GeomTok) and inner.term[0] == "xf"):
                probs.append(f"child {i} of the clipPath is not transformed into the referencing element's coordinate system: {inner!r}"[:300])
                continue
            app = inner.term[2].app if isinstance(inner.term[2], AffTok) else None
            if etf is not None and app != etf:
                probs.append(f"child {i} is transformed by {app}; expected own transform, then the clipPath's, then the referencing element's CTM: {etf}")
            if i == 1 and (app is None or app[-2:] != ("parse(tC)", "CTM") or "shape" not in repr(inner.term[1]) and "SVGCircle" not in repr(inner.term[1])):
                probs.append(f"the <use> child was not instantiated before the children were read (child 1 is {inner!r})"[:300])
        if tuple(krules) != ("evenodd", "nonzero", "nonzero"):
            probs.append(f"children are combined under rules {tuple(krules)}; each child must be interpreted under its own clip-rule (evenodd, nonzero, nonzero)")
        nested = ops[1]
        if "SVGEllipse" not in repr(nested):
            probs.append("the clipPath's own clip-path (url(#d)) is not what the region is intersected with")
        else:
            nk = clip_children(nested)
            if [k[1] for k in nk] != [("parse(tC)", "CTM")]:
                probs.append(f"the clipPath's own clip-path is placed by {[k[1] for k in nk]}; it applies in the coordinate system of the clipPath that references it: its transform, then the referencing element's CTM (parse(tC), CTM)")
        if not probs:
            n_ok += 1
    if probs:
        rep.fail(rule, F, "_resolve_clip_path(url(#c), CTM) on the schematic document", f"{len(probs)} deviations; first: {probs[0]}", svg, fn)
    elif n_ok:
        rep.ok(rule, F, "region = intersection(union(children each under its own clip-rule, transformed own > clipPath > CTM, <use> instantiated first), nested clip)", True)
    else:
        raise AnalysisError(f"{F}: no completed path")


# =========================================================================================== _simplify
def _simplify_doc():
    """Scenario 1: a translucent group (kept) with a clipped evenodd path and a stroked transformed path, an opaque
    single-child group (flattened), a transformed gradient-filled rect, a plain gradient-filled path, junk in defs."""
    clip = El("clipPath", {"id": "c"}, [El("rect", {"width": "4", "height": "3"}, name="cr")], name="clip")
    g_used = El("linearGradient", {"id": "g1", "x1": "0.25", "gradientTransform": "tG"}, [El("stop", {"offset": "0", "id": "s0"}), El("stop", {"offset": "1"})], name="g1")
    g_unused = El("radialGradient", {"id": "gU"}, [El("stop", {"offset": "0"})], name="gU")
    g_plain = El("linearGradient", {"id": "g2"}, [El("stop", {"offset": "0"})], name="g2")
    defs = El("defs", {}, [clip, g_used, g_unused, g_plain, El("path", {"id": "junk", "d": pd(("M", (9, 9)))}, name="junk")], name="defs")
    p1 = El("path", {"d": pd(("M", ("a", "b")), ("L", ("c", "d"))), "clip-path": "url(#c)", "fill-rule": "evenodd", "id": "p1"}, name="p1")
    p2 = El("path", {"d": pd(("M", (1, 1)), ("L", (2, 2))), "transform": "tB", "stroke": "blue", "stroke-width": "2", "id": "p2"}, name="p2")
    ga = El("g", {"transform": "tA", "opacity": "0.5", "id": "ga"}, [p1, El(ETREE_COMMENT, name="cm"), p2], name="ga")
    p5 = El("path", {"d": pd(("M", (5, 5)), ("L", (6, 6))), "id": "p5"}, name="p5")
    gb = El("g", {"fill": "green", "data-name": "layer"}, [p5], name="gb")
    rect = El("rect", {"x": "1", "width": "2", "height": "3", "fill": "url(#g1)", "transform": "tR", "id": "R"}, name="R")
    p6 = El("path", {"d": pd(("M", (7, 7)), ("L", (8, 8))), "fill": "url(#g2)", "id": "p6"}, name="p6")
    # a point-sized path: with the (inherited) round cap its stroke is a dot
    dot = El("path", {"d": pd(("M", (15, 15)), ("L", (15, 15))), "stroke": "green", "stroke-width": "2", "id": "dot"}, name="dot")
    root = El("svg", {"viewBox": "0 0 10 10", "fill": "red", "stroke-linecap": "round", "overflow": "visible"}, [defs, ga, gb, rect, p6, dot], name="root")
    return root


def _simplify_doc2():
    """Scenario 2: stacked clips (group clip + own clip), siblings sharing one clipPath under different transforms,
    a stroked clipped path; a second defs further down."""
    c = El("clipPath", {"id": "c"}, [El("rect", {"width": "4", "height": "3"}, name="cr")], name="c")
    c2 = El("clipPath", {"id": "c2"}, [El("circle", {"r": "5"}, name="cc")], name="c2")
    q1 = El("path", {"d": pd(("M", (1, 1)), ("L", (2, 2))), "clip-path": "url(#c)", "stroke": "blue", "id": "q1"}, name="q1")
    q2 = El("path", {"d": pd(("M", (3, 3)), ("L", (4, 4))), "clip-path": "url(#c)", "transform": "tB", "id": "q2"}, name="q2")
    gq = El("g", {"clip-path": "url(#c2)", "transform": "tA", "id": "gq"}, [q1, q2], name="gq")
    q3 = El("path", {"d": pd(("M", (5, 5)), ("L", (6, 6))), "id": "q3", "clip-path": "none"}, name="q3")
    c3 = El("clipPath", {"id": "c3"}, [El("path", {"d": pd(("M", (0, 0)), ("L", (8, 0)), ("L", (6, 8)), ("L", (2, 8)), ("Z", ()))}, name="trap")], name="c3")
    q4 = El("path", {"d": pd(("M", (7, 7)), ("L", (8, 8)), ("L", (7, 8)), ("Z", ())), "id": "q4", "clip-path": "url(#c3)"}, name="q4")
    root = El("svg", {"viewBox": "0 0 10 10"}, [gq, El("defs", {}, [c, c2, c3], name="defs"), q3, q4], name="root")
    return root


def _simplify_doc3():
    """Scenario 3: gradients.  Two shapes with the same gradient fill and the same transform but different geometry;
    a gradient used only from inside a kept group; a gradient used by an untransformed shape; a template chain."""
    def grad(i, **kw):
        return El("linearGradient", dict({"id": i}, **kw), [El("stop", {"offset": "0"}), El("stop", {"offset": "1"})], name=i)
    tt = El("linearGradient", {"id": "tt", "y2": "0.9", "x2": "0.8", "spreadMethod": "reflect"}, [El("stop", {"offset": "0.3", "id": "tts"})], name="tt")
    tmpl = El("linearGradient", {"id": "t0", "x2": "0.5", "gradientUnits": "userSpaceOnUse", "{http://www.w3.org/1999/xlink}href": "#tt"}, [], name="t0")
    h1 = El("linearGradient", {"id": "h1", "{http://www.w3.org/1999/xlink}href": "#t0", "x1": "0.1"}, [], name="h1")
    h2 = El("linearGradient", {"id": "h2", "{http://www.w3.org/1999/xlink}href": "#tt", "x2": "0.6"}, [El("stop", {"offset": "0.7"}), El("stop", {"offset": "1"})], name="h2")
    # a user-space gradient with its own gradientTransform, used by a shape that is merely translated
    gu = El("linearGradient", {"id": "gu", "gradientUnits": "userSpaceOnUse", "x1": "1", "y1": "2", "x2": "5", "y2": "2", "gradientTransform": "tG2"},
            [El("stop", {"offset": "0"}), El("stop", {"offset": "1"})], name="gu")
    rt = El("rect", {"x": "2", "width": "6", "height": "2", "fill": "url(#gu)", "transform": "translate(3,4)", "id": "Rt"}, name="Rt")
    defs = El("defs", {}, [grad("g1"), grad("g3"), grad("g4"), tt, tmpl, h1, h2, gu], name="defs")
    ra = El("rect", {"x": "1", "width": "2", "height": "3", "fill": "url(#g1)", "transform": "tR", "id": "Ra"}, name="Ra")
    rb = El("rect", {"x": "5", "width": "4", "height": "1", "fill": "url(#g1)", "transform": "tR", "id": "Rb"}, name="Rb")
    k1 = El("path", {"d": pd(("M", (1, 1)), ("L", (2, 2))), "fill": "url(#g3)", "id": "k1"}, name="k1")
    k2 = El("path", {"d": pd(("M", (3, 3)), ("L", (4, 4))), "id": "g1_1"}, name="k2")  # an id a gradient clone would like to take
    gk = El("g", {"opacity": "0.25", "id": "gk"}, [k1, k2], name="gk")
    u = El("path", {"d": pd(("M", (5, 5)), ("L", (6, 6))), "fill": "url(#g4)", "id": "u", "opacity": "0.5"}, name="u")
    w = El("path", {"d": pd(("M", (7, 7)), ("L", (8, 8))), "fill": "url(#h1)", "id": "w"}, name="w")
    w2 = El("path", {"d": pd(("M", (7, 9)), ("L", (8, 9))), "fill": "url(#h2)", "id": "w2"}, name="w2")
    root = El("svg", {"viewBox": "0 0 10 10"}, [defs, ra, rb, gk, u, w, w2, rt], name="root")
    return root


def run_simplify(repo: Repo, doc=None):
    key = ("simplify", repo.digest(), getattr(doc, "__qualname__", None))
    if key in _MEMO:
        return _MEMO[key]
    _MEMO[key] = res = _run_simplify(repo, doc)
    return res


def _run_simplify(repo: Repo, doc=None):
    def build():
        root = (doc or _simplify_doc)()
        return ([make_svg(root)], {})

    outs = ok_outcomes(run(repo, "SVG._simplify", build, max_paths=128), "svg.SVG._simplify")
    return outs


def _paths_under(el):
    return [n for n in el.subtree() if isinstance(n.tag, str) and n.local() in ("path", "rect", "circle", "ellipse", "line", "polygon", "polyline")]


def _geom(n):
    d = n.attrib.get("d")
    if isinstance(d, PathData) and len(d.cmds) == 1 and d.cmds[0][0] == "G":
        return d.cmds[0][1][0]
    return d


def unseq(g):
    while isinstance(g, GeomTok) and g.term[0] == "seq":
        g = g.term[1]
    return g


class Piece:
    """Decomposition of an output geometry term: isect(xf(stroke?(base)), clips...)."""

    def __init__(self, g):
        self.raw = g
        self.clips, self.rules, self.app, self.stroke, self.base, self.shape_of_order = [], (), None, None, None, []
        g = unseq(g)
        order = []
        while isinstance(g, GeomTok) and g.term[0] in ("isect", "xf", "stroke", "round"):
            k = g.term[0]
            order.append(k)
            if k == "isect":
                ops = g.term[1]
                self.clips = list(ops[1:]) + self.clips
                self.rules = tuple(g.term[2]) if not self.rules else self.rules
                g = unseq(ops[0])
            elif k == "xf":
                self.app = (g.term[2].app if isinstance(g.term[2], AffTok) else ("?",)) + (self.app or ())
                g = unseq(g.term[1])
            elif k == "stroke":
                self.stroke = g.term[2]
                g = unseq(g.term[1])
            else:
                g = unseq(g.term[1])
        self.base = g
        self.order = list(reversed(order))  # innermost operation first

    def base_text(self):
        return repr(self.base)


def clip_children(c):
    """[(shape text, app)] of a resolved clip operand (union of transformed children, possibly intersected)."""
    c = unseq(c)
    out = []
    if isinstance(c, GeomTok) and c.term[0] == "isect":
        for op in c.term[1]:
            out += clip_children(op)
        return out
    if isinstance(c, GeomTok) and c.term[0] == "union":
        for kid in c.term[1]:
            k = Piece(kid)
            out.append((k.base_text(), k.app))
        return out
    return [(repr(c), None)]


def _by_id(root):
    out = {}
    for n in root.subtree():
        if isinstance(n.tag, str) and "id" in n.attrib:
            out.setdefault(str(n.attrib["id"]), []).append(n)
    return out


_STROKE_DEFAULTS = {"stroke": "none", "stroke-width": "1", "stroke-linecap": "butt", "stroke-linejoin": "miter", "stroke-miterlimit": "4",
                    "stroke-dasharray": "none", "stroke-dashoffset": "0", "stroke-opacity": "1"}
_CATS = ("structure", "transform", "clip", "stroke-order", "stroke-args", "gradient", "refs", "document-order")


def _grammar_facts(root, P):
    """Facts every simplified document must satisfy (README grammar)."""
    els = [n for n in root.subtree() if isinstance(n.tag, str)]
    kids = [c for c in root.children if isinstance(c.tag, str)]
    if not kids or kids[0].local() != "defs":
        P("structure", f"first child of the root is {kids[0].local() if kids else None}, not defs")
    if sum(1 for n in els if n.local() == "defs") != 1:
        P("structure", "the document does not have exactly one defs")
    defs = next((n for n in els if n.local() == "defs"), None)
    if defs is not None:
        non_grad = [c.local() for c in defs.children if c.local() not in ("linearGradient", "radialGradient")]
        if non_grad:
            P("structure", f"defs keeps non-gradient children {non_grad}")
        for gch in defs.children:
            if "id" not in gch.attrib:
                P("structure", "a gradient without id stays in defs")
            if any("href" in k for k in gch.attrib):
                P("structure", "a gradient keeps an href")
    for n in els:
        for a in ("clip-path", "transform"):
            if a in n.attrib:
                P("structure", f"<{n.local()} id={n.attrib.get('id')}> keeps attribute {a}")
        if n.local() in ("clipPath", "use", "svg") and n is not root:
            P("structure", f"a <{n.local()}> element survives")
        if n.local() in ("linearGradient", "radialGradient") and (n.parent is None or n.parent.local() != "defs"):
            P("structure", "a gradient lives outside defs")
    inheritable = {"fill", "stroke", "stroke-linecap", "fill-rule", "clip-rule", "opacity", "display", "stroke-width", "style", "overflow", "color", "fill-opacity",
                   "stroke-opacity", "stroke-linejoin", "stroke-miterlimit", "stroke-dasharray", "stroke-dashoffset", "clip-path", "transform"}
    left = sorted(inheritable & set(root.attrib))
    if left:
        P("structure", f"the root keeps inheritable presentation attributes {left}")
    for g in [n for n in els if n.local() == "g"]:
        n_ch = len([c for c in g.children if isinstance(c.tag, str)])
        if set(g.attrib) != {"opacity"} or n_ch < 2:
            kids_ids = [str(c.attrib.get("id", c.local())) for c in g.children if isinstance(c.tag, str)]
            P("structure", f"a kept group has attributes {sorted(g.attrib)} and {n_ch} children {kids_ids} (only opacity, at least two children allowed)")
    for n in _paths_under(root):
        for a in n.attrib:
            if a.startswith("stroke") and str(n.attrib[a]) != _STROKE_DEFAULTS.get(a):
                P("structure", f"output shape {n.attrib.get('id')} keeps stroke attribute {a}={n.attrib[a]}")
    ids = _by_id(root)
    for gid, lst in ids.items():
        if len(lst) > 1:
            P("refs", f"id {gid!r} occurs {len(lst)} times")
    grads = {str(c.attrib.get("id")) for c in (defs.children if defs is not None else [])}
    for n in _paths_under(root):
        f = str(n.attrib.get("fill", ""))
        if f.startswith("url(#") and f[5:-1] not in grads:
            P("refs", f"fill {f} of {n.attrib.get('id')} points at no gradient in defs (defs has {sorted(grads)})")
    used = {str(n.attrib.get("fill", ""))[5:-1] for n in _paths_under(root) if str(n.attrib.get("fill", "")).startswith("url(#")}
    for gid in sorted(grads - used):
        P("refs", f"gradient {gid} stays in defs although no shape references it")
    return defs


def _check_doc1(root, P):
    defs = _grammar_facts(root, P)
    els = [n for n in root.subtree() if isinstance(n.tag, str)]
    shapes = [n for n in _paths_under(root) if n.parent is not None and n.parent.local() != "defs"]
    groups = [n for n in els if n.local() == "g"]
    if not groups:
        P("structure", "the translucent group with several children was flattened")
    if any(n.attrib.get("id") == "gb" or n.attrib.get("data-name") for n in els):
        P("structure", "the opaque single-child group was not flattened")
    pieces = {id(n): Piece(_geom(n)) for n in shapes}
    def find(base_part):
        return [n for n in shapes if base_part in pieces[id(n)].base_text()]
    p1 = find("(a, b)")
    if len(p1) != 1:
        P("clip", f"the clipped path p1 yields {len(p1)} pieces (1 expected)")
    else:
        pc = pieces[id(p1[0])]
        if len(pc.clips) != 1:
            P("clip", f"p1 is intersected with {len(pc.clips)} clips; it has exactly one")
        if pc.app != ("parse(tA)",):
            P("transform", f"p1 is transformed by {pc.app}; its accumulated transform is (parse(tA),)")
        if pc.order[:2] != ["xf", "isect"] and pc.clips:
            P("clip", f"p1: operations applied innermost-first are {pc.order}; the piece must be transformed into the clip's coordinate system before it is intersected")
        if pc.clips:
            if pc.rules[:1] != ("evenodd",):
                P("clip", f"the clipped shape is interpreted under rule {pc.rules[:1]}; its own fill-rule is evenodd")
            if pc.rules[1:] != ("nonzero",):
                P("clip", f"the clip operand is interpreted under {pc.rules[1:]}; the resolved clip's clip-rule is nonzero")
            kids = clip_children(pc.clips[0])
            if [k[1] for k in kids] != [("parse(tA)",)] or "SVGRect" not in kids[0][0]:
                P("clip", f"the clip region of p1 is {kids}; expected the clipPath's rect in the coordinate system of p1 (parse(tA),)")
        if p1[0].attrib.get("fill-rule", "nonzero") != "nonzero":
            P("clip", "a clipped path is not marked nonzero although Skia's result is")
        if p1[0].attrib.get("fill") != "red":
            P("structure", f"p1 lost the fill inherited from the root (fill={p1[0].attrib.get('fill')})")
    p2 = find("(1, 1)")
    fillp = [n for n in p2 if pieces[id(n)].stroke is None]
    strokep = [n for n in p2 if pieces[id(n)].stroke is not None]
    if len(strokep) != 1 or len(fillp) > 1:
        P("stroke-order", f"the stroked path yields {len(fillp)} fill pieces and {len(strokep)} stroke pieces")
    for n in p2:
        pc = pieces[id(n)]
        if pc.app != ("parse(tB)", "parse(tA)"):
            P("transform", f"a piece of p2 is transformed by {pc.app}; own transform first, then the group's: (parse(tB), parse(tA))")
        if pc.stroke is not None and pc.order[:2] != ["stroke", "xf"]:
            P("stroke-order", f"operations on the stroke piece, innermost first, are {pc.order}; the outline must be computed in the shape's own coordinate system, before the transform")
        if pc.stroke is not None:
            args = pc.stroke
            if not (len(args) >= 7 and args[0] == "round" and args[1] == "miter" and args[2] == 2 and args[3] == 4 and args[5] in ([], ()) and args[6] == 0):
                P("stroke-args", f"Skia is asked to stroke with {args}; the shape's cascade gives cap=round (inherited), join=miter, width=2, miterlimit=4, no dashes")
            elif abs(Fraction(args[4]) - Fraction(1, 100)) > Fraction(1, 10 ** 9):
                P("stroke-args", f"the stroker tolerance is {float(Fraction(args[4]))}; the document (viewBox 10 x 10) has tolerance 0.01")
            if n.attrib.get("fill") != "blue":
                P("stroke-args", f"the stroke piece is filled with {n.attrib.get('fill')}, the stroke paint is blue")
        if n.parent is None or n.parent.local() != "g":
            P("document-order", "a piece of the stroked path left its group")
    dots = [n for n in find("(15, 15)") if pieces[id(n)].stroke is not None]
    if len(dots) != 1:
        P("stroke-order", f"the point-sized stroked path (round cap: a dot) yields {len(dots)} stroke pieces (1 expected)")
    if fillp and strokep:
        sib = [c for c in fillp[0].parent.children]
        if fillp[0].parent is not strokep[0].parent or sib.index(fillp[0]) > sib.index(strokep[0]):
            P("document-order", "the stroke piece does not follow the fill piece in document order")
    if groups:
        g = groups[0]
        seq = []
        for c in g.children:
            if not isinstance(c.tag, str):
                continue
            pc = pieces.get(id(c))
            seq.append("p1" if pc and "(a, b)" in pc.base_text() else ("p2-stroke" if pc and pc.stroke is not None else ("p2-fill" if pc and "(1, 1)" in pc.base_text() else "?")))
        if seq not in (["p1", "p2-fill", "p2-stroke"], ["p1", "p2-stroke"]):
            P("document-order", f"children of the kept group are {seq}; document order is p1, fill piece of p2, stroke piece of p2")
    top = [str(c.attrib.get("id", c.local())) for c in root.children if isinstance(c.tag, str)]
    tail = [c for c in root.children if isinstance(c.tag, str)][5:]
    if len(top) < 5 or top[0] != "defs" or root.children[1].local() != "g" or top[2:5] != ["p5", "R", "p6"] or not tail or any("15" not in pieces[id(c)].base_text() for c in tail if id(c) in pieces):
        P("document-order", f"top-level order is {top}; expected defs, the kept group, p5, R, p6, the piece(s) of the dot")
    p5 = [n for n in shapes if n.attrib.get("id") == "p5"]
    if len(p5) == 1 and p5[0].attrib.get("fill") != "green":
        P("structure", f"p5 lost the fill inherited from its flattened group (fill={p5[0].attrib.get('fill')})")
    R = [n for n in shapes if n.attrib.get("id") == "R"]
    grads = {str(c.attrib.get("id")): c for c in (defs.children if defs is not None else [])}
    if len(R) != 1:
        P("gradient", f"the transformed gradient-filled rect appears {len(R)} times")
    else:
        pc = pieces[id(R[0])]
        if pc.app != ("parse(tR)",):
            P("transform", f"R is transformed by {pc.app}, its transform is (parse(tR),)")
        fill = str(R[0].attrib.get("fill", ""))
        if fill == "url(#g1)":
            P("gradient", "a transformed shape keeps referencing the untransformed gradient")
        tgt = fill[5:-1] if fill.startswith("url(#") else None
        if tgt in grads:
            _check_clone(grads[tgt], "parse(tG)", "parse(tR)", "('x', '1')", P, stops=2)
    if "g2" not in grads:
        P("refs", "gradient g2 was removed although p6 references it")
    if "g1" in grads:
        P("refs", "the original gradient g1 stays in defs although its only user now references the clone")


def _check_clone(clone, own, ctm, bbox_marker, P, stops):
    gt = clone.attrib.get("gradientTransform")
    tok = parse_affine(gt) if isinstance(gt, str) else gt
    flat = " ".join(tok.app) if isinstance(tok, AffTok) else ""
    want = [w for w in (own, "rect_to_rect", ctm) if w]
    pos = [flat.find(w) for w in want]
    if -1 in pos or pos != sorted(pos):
        P("gradient", f"clone {clone.attrib.get('id')}: gradientTransform is {flat[:200]!r}; it must apply the gradient's own transform, then unit-square->bounding-box, then the shape's CTM")
    if "bbx1<" not in flat or "'xf'" in flat or bbox_marker not in flat:
        P("gradient", f"clone {clone.attrib.get('id')}: the bounding box folded into the clone is not that of the referencing, untransformed shape ({bbox_marker})")
    if clone.attrib.get("gradientUnits") != "userSpaceOnUse":
        P("gradient", "clone of a bounding-box gradient is not switched to userSpaceOnUse")
    if len([c for c in clone.children if c.local() == "stop"]) != stops:
        P("gradient", "clone lost the stops of the original")


def _check_doc2(root, P):
    _grammar_facts(root, P)
    shapes = [n for n in _paths_under(root) if n.parent is not None and n.parent.local() != "defs"]
    pieces = {id(n): Piece(_geom(n)) for n in shapes}
    def find(base_part):
        return [n for n in shapes if base_part in pieces[id(n)].base_text()]
    q1 = find("(1, 1)")
    if not q1 or not any(pieces[id(n)].stroke is not None for n in q1):
        P("clip", f"the stroked clipped path yields {len(q1)} pieces, none of them a stroke outline")
    for n in q1:
        pc = pieces[id(n)]
        kinds = [clip_children(c) for c in pc.clips]
        want = [[("SVGCircle", ("parse(tA)",))], [("SVGRect", ("parse(tA)",))]]
        got = [[(("SVGCircle" if "SVGCircle" in k[0] else "SVGRect" if "SVGRect" in k[0] else k[0]), k[1]) for k in kk] for kk in kinds]
        if got != want:
            P("clip", f"a piece of q1 ({'stroke' if pc.stroke is not None else 'fill'}) is intersected with {got}; the cascade gives the group's clip then its own, both in q1's coordinate system: {want}")
        if pc.clips and pc.order[-1:] != ["isect"]:
            P("clip", f"q1: clip applied before {pc.order[-1]}")
        if pc.app != ("parse(tA)",):
            P("transform", f"a piece of q1 is transformed by {pc.app}; expected (parse(tA),)")
    q2 = find("(3, 3)")
    if len(q2) != 1:
        P("clip", f"q2 yields {len(q2)} pieces")
    for n in q2:
        pc = pieces[id(n)]
        got = [[(("SVGCircle" if "SVGCircle" in k[0] else "SVGRect" if "SVGRect" in k[0] else k[0]), k[1]) for k in clip_children(c)] for c in pc.clips]
        want = [[("SVGCircle", ("parse(tA)",))], [("SVGRect", ("parse(tB)", "parse(tA)"))]]
        if got != want:
            P("clip", f"q2 is intersected with {got}; its own clip must be resolved in its own coordinate system (siblings share the clipPath but not the transform): {want}")
        if pc.app != ("parse(tB)", "parse(tA)"):
            P("transform", f"q2 is transformed by {pc.app}; expected (parse(tB), parse(tA))")
    q3 = [n for n in shapes if n.attrib.get("id") == "q3"]
    if len(q3) != 1 or Piece(_geom(q3[0])).clips:
        P("clip", "a path with clip-path='none' is clipped or lost")
    q4 = find("(7, 7)")
    if len(q4) != 1:
        P("clip", f"q4 yields {len(q4)} pieces")
    for n in q4:
        pc = pieces[id(n)]
        kids = [clip_children(c) for c in pc.clips]
        if len(kids) != 1 or len(kids[0]) != 1 or "(6, 8)" not in kids[0][0][0]:
            P("clip", f"q4 (clipped by a four-sided polygon that is not a rectangle) is intersected with {kids}; expected exactly its clipPath's polygon")
    order = []
    for n in shapes:
        pc = pieces[id(n)]
        order.append("q1" if "(1, 1)" in pc.base_text() else "q2" if "(3, 3)" in pc.base_text() else "q4" if "(7, 7)" in pc.base_text() else "q3")
    if [o for i, o in enumerate(order) if i == 0 or order[i - 1] != o] != ["q1", "q2", "q3", "q4"]:
        P("document-order", f"shapes come out as {order}; document order is q1, q2, q3, q4")


def _check_doc3(root, P):
    defs = _grammar_facts(root, P)
    shapes = {str(n.attrib.get("id")): n for n in _paths_under(root) if n.parent is not None and n.parent.local() != "defs"}
    grads = {str(c.attrib.get("id")): c for c in (defs.children if defs is not None else [])}
    fa = str(shapes["Ra"].attrib.get("fill", "")) if "Ra" in shapes else ""
    fb = str(shapes["Rb"].attrib.get("fill", "")) if "Rb" in shapes else ""
    if not fa or not fb:
        P("gradient", "the transformed rects lost their identity or fill")
        return
    if fa == fb:
        P("gradient", f"two shapes with different bounding boxes share one rewritten gradient ({fa}); an objectBoundingBox gradient must be rewritten per shape")
    for f, marker in ((fa, "('x', '1')"), (fb, "('x', '5')")):
        tgt = f[5:-1] if f.startswith("url(#") else None
        if tgt == "g1":
            P("gradient", "a transformed shape keeps referencing the untransformed gradient")
        elif tgt in grads:
            _check_clone(grads[tgt], "", "parse(tR)", marker, P, stops=2)
    if "k1" not in shapes or str(shapes["k1"].attrib.get("fill")) != "url(#g3)" or "g3" not in grads:
        P("refs", "a gradient referenced from inside a retained group (g3) was removed or its reference rewritten")
    if "u" in shapes and str(shapes["u"].attrib.get("fill")) != "url(#g4)":
        P("gradient", f"an untransformed shape had its gradient fill rewritten to {shapes['u'].attrib.get('fill')}: nothing to fold in, ids would drift on every pass")
    if "g4" not in grads:
        P("refs", "gradient g4 was removed although the untransformed shape u references it")
    if "w" in shapes:
        h1 = grads.get("h1")
        if str(shapes["w"].attrib.get("fill")) != "url(#h1)" or h1 is None:
            P("refs", "gradient h1 (which uses a template) was lost")
        else:
            got = {k: str(h1.attrib.get(k)) for k in ("x1", "x2", "y2", "gradientUnits", "spreadMethod")}
            want = {"x1": "0.1", "x2": "0.5", "y2": "0.9", "gradientUnits": "userSpaceOnUse", "spreadMethod": "reflect"}
            if got != want:
                P("gradient", f"template resolution through a chain h1 -> t0 -> tt gives {got}; own attributes win, missing ones come from the nearest template that has them: {want}")
            stops = [c for c in h1.children if c.local() == "stop"]
            if len(stops) != 1 or str(stops[0].attrib.get("offset")) != "0.3":
                P("gradient", "template resolution: a gradient without stops must take the stops of the nearest template that has some")
            if any("id" in c.attrib for c in stops):
                P("refs", "stops copied from a template keep their ids")
    if "w2" in shapes:
        h2 = grads.get("h2")
        if h2 is None:
            P("refs", "gradient h2 (own stops, template for attributes) was lost")
        else:
            got = {k: str(h2.attrib.get(k)) for k in ("x2", "y2", "spreadMethod")}
            if got != {"x2": "0.6", "y2": "0.9", "spreadMethod": "reflect"} or [str(c.attrib.get("offset")) for c in h2.children] != ["0.7", "1"]:
                P("gradient", f"template resolution: h2 ends with {got} and stops {[str(c.attrib.get('offset')) for c in h2.children]}; its own x2 and its own two stops must win over the template's")
    for t in ("t0", "tt"):
        if t in grads:
            P("refs", f"the template {t} stays in defs although no shape references it")
    if "Rt" in shapes:
        ft = str(shapes["Rt"].attrib.get("fill", ""))
        tgt = ft[5:-1] if ft.startswith("url(#") else None
        if tgt == "gu" or tgt not in grads:
            P("gradient", f"the translated shape Rt ends with fill {ft}; its user-space gradient must be rewritten to follow the shape")
        else:
            cl = grads[tgt]
            gtv = cl.attrib.get("gradientTransform")
            tok = parse_affine(gtv) if isinstance(gtv, str) else gtv
            flat = " ".join(tok.app) if isinstance(tok, AffTok) else ""
            i1, i2 = flat.find("parse(tG2)"), flat.find("translate(3,4)")
            coords = {k: str(cl.attrib.get(k)) for k in ("x1", "y1", "x2", "y2")}
            if i1 < 0 or i2 < 0 or i1 > i2:
                P("gradient", f"the gradient of the translated shape Rt has gradientTransform {flat[:160]!r} and points {coords}: a point of the gradient goes through its own gradientTransform first, "
                              "then through the shape's translation (moving x1..y2 instead is only the same when gradientTransform is a translation)")
            if "rect_to_rect" in flat:
                P("gradient", "a userSpaceOnUse gradient was mapped from the unit square to a bounding box")


def _simplify_doc4():
    """Scenario 4: opacity, transform and clip-path on the root element apply to the whole document."""
    c = El("clipPath", {"id": "c"}, [El("rect", {"width": "4", "height": "3"}, name="cr")], name="c")
    a = El("path", {"d": pd(("M", (1, 1)), ("L", (2, 2))), "id": "a"}, name="a")
    b = El("path", {"d": pd(("M", (3, 3)), ("L", (4, 4))), "id": "b", "opacity": "0.5"}, name="b")
    return El("svg", {"viewBox": "0 0 10 10", "opacity": "0.25", "transform": "tRoot", "clip-path": "url(#c)", "fill": "red"}, [El("defs", {}, [c]), a, b], name="root")


def _check_doc4(root, P):
    _grammar_facts(root, P)
    shapes = [n for n in _paths_under(root) if n.parent is not None and n.parent.local() != "defs"]
    if len(shapes) != 2:
        P("structure", f"{len(shapes)} shapes come out of a document with two paths")
        return
    for n, own in zip(shapes, (Fraction(1), Fraction(1, 2))):
        op = Fraction(str(n.attrib.get("opacity", "1")))
        p = n.parent
        while p is not None:
            op *= Fraction(str(p.attrib.get("opacity", "1")))
            p = p.parent
        if op != own * Fraction(1, 4):
            P("structure", f"path {n.attrib.get('id')}: the opacities on its ancestor chain multiply to {op}; the root's opacity 0.25 applies to the whole document ({own * Fraction(1, 4)} expected)")
        pc = Piece(_geom(n))
        if pc.app != ("parse(tRoot)",):
            P("transform", f"path {n.attrib.get('id')} is transformed by {pc.app}; the root's transform applies to the whole document")
        kids = [clip_children(cl) for cl in pc.clips]
        if len(kids) != 1 or [k[1] for k in kids[0]] != [("parse(tRoot)",)]:
            P("clip", f"path {n.attrib.get('id')} is intersected with {kids}; the root's clip-path applies to the whole document, in the root's coordinate system")
    if shapes[0].parent is shapes[1].parent and shapes[0].parent is root:
        P("structure", "two overlapping paths under a translucent root are not kept in one translucent group")


_SIMPLIFY_SCENARIOS = [("scenario 1 (groups, clip, stroke, transformed gradient)", _simplify_doc, _check_doc1),
                       ("scenario 2 (stacked and shared clips)", _simplify_doc2, _check_doc2),
                       ("scenario 3 (gradient rewriting and references)", _simplify_doc3, _check_doc3),
                       ("scenario 4 (opacity, transform and clip-path on the root)", _simplify_doc4, _check_doc4)]


def check_simplify(repo: Repo, rep: Report, rules: Dict[str, str]):
    """rules: category -> rule id; categories: structure, transform, clip, stroke-order, stroke-args, gradient, refs, document-order"""
    svg = repo["svg"]
    F = "svg.SVG._simplify"
    rep.saw(F, "svg.SVG._resolve_clip_path", "svg.SVG._transformed_gradient", "svg.SVG._apply_gradient_template", "svg.SVG._apply_gradient_translation",
            "svg.SVG._remove_orphaned_gradients", "svg.SVG._add_to_defs", "svg.SVG._stroke", "svg.to_element", "svg.from_element", "svg._try_remove_group", "svg._inherit_attrib")
    fn = svg.func("SVG._simplify")
    probs: Dict[str, List[str]] = {k: [] for k in _CATS}
    n_paths = 0
    for title, doc, chk in _SIMPLIFY_SCENARIOS:
        outs = run_simplify(repo, doc)
        for o in outs:
            n_paths += 1
            if o.raised:
                for k in probs:
                    probs[k].append(f"{title}: _simplify raises {o.raised} ({o.raise_msg})")
                continue
            root = o.args[0].f["svg_root"]

            def P(cat, msg, title=title):
                probs[cat].append(f"{title}: {msg}")

            chk(root, P)
    what = {"structure": "output structure/attributes", "transform": "accumulated transform applied to every piece", "clip": "clip application",
            "stroke-order": "stroke before transform", "stroke-args": "stroke parameters from the cascade", "gradient": "gradient rewriting for transformed shapes",
            "refs": "ids and references", "document-order": "document order"}
    for k, rid in rules.items():
        if probs[k]:
            uniq = list(dict.fromkeys(probs[k]))
            rep.fail(rid, F, f"{what[k]} on the schematic documents", f"{len(uniq)} deviations; first: {uniq[0]}", svg, fn)
        else:
            rep.ok(rid, F + f" [{what[k]}]", f"{len(_SIMPLIFY_SCENARIOS)} schematic documents, {n_paths} completed paths: as the grammar / SVG semantics require", True)


# =========================================================================================== clip_to_viewbox
def check_clip_to_viewbox(repo: Repo, rep: Report, rule: str):
    """clip_to_viewbox on schematic documents with given bounding boxes: shapes outside vanish, shapes inside are
    untouched, shapes straddling the border are intersected with the visible part of the view box under their own
    fill-rule; order and paints unchanged."""
    svg = repo["svg"]
    F = "svg.SVG.clip_to_viewbox"
    rep.saw(F, "geometric_types.Rect.intersection")
    fn = svg.func("SVG.clip_to_viewbox")
    probs: List[str] = []
    n = 0
    for vb, boxes, expect in [
        ("0 0 10 10", {"in": (2, 2, 4, 4), "out": (20, 20, 30, 30), "cut": (5, 5, 15, 15), "left": (-5, 1, 5, 2), "exact": (0, 0, 10, 10), "tall": (2, 5, 4, 15), "wide": (5, 2, 15, 4),
                       "ring": (4, 4, 16, 16), "cover": (-5, -5, 15, 15), "band": (-5, 3, 15, 6)},
         {"in": None, "cut": (5, 5, 5, 5), "left": (0, 1, 5, 1), "exact": None, "tall": (2, 5, 2, 5), "wide": (5, 2, 5, 2), "ring": (4, 4, 6, 6), "cover": (0, 0, 10, 10), "band": (0, 3, 10, 3)}),
        ("-50 -50 100 100", {"in": (-40, -40, 40, 40), "cut": (40, 40, 60, 60), "out": (60, 0, 70, 10), "neg": (-60, -60, -40, -40), "cover": (-70, -80, 90, 60)},
         {"in": None, "cut": (40, 40, 10, 10), "neg": (-50, -50, 10, 10), "cover": (-50, -50, 100, 100)}),
    ]:
        names = list(boxes)

        def build(names=names, vb=vb):
            # "ring" is a frame with a hole (two contours, nonzero): a contour has no meaning of its own, the shape is clipped as a whole
            kids = [El("path", {"d": pd(("M", (i, i)), ("L", (i, i + 1)), ("L", (i + 1, i)), ("Z", ()), *((("M", (i + 100, i + 100)), ("L", (i + 101, i + 100)), ("L", (i + 100, i + 101)), ("Z", ())) if nm == "ring" else ())),
                                "id": nm, "fill": f"c{i}", "fill-rule": "evenodd" if nm == "cut" else "nonzero"}, name=nm) for i, nm in enumerate(names)]
            root = El("svg", {"viewBox": vb}, kids, name="root")
            return ([make_svg(root)], {"inplace": True})

        def extra(it, names=names, boxes=boxes):
            def bbox(i, a, k):
                r = repr(a[0])
                for idx, nm in enumerate(names):
                    if f"('M', ({idx}, {idx}))" in r:
                        return boxes[nm]
                for idx, nm in enumerate(names):
                    if f"('M', ({idx + 100}, {idx + 100}))" in r:
                        return (6, 6, 14, 14)  # the hole of the ring on its own
                raise Undecided("bounding box of an unknown shape")
            it.hooks[("svg_pathops", "bounding_box")] = bbox

        outs = ok_outcomes(run(repo, "SVG.clip_to_viewbox", build, setup_extra=extra), F)
        for o in outs:
            n += 1
            if o.raised:
                probs.append(f"viewBox {vb}: raises {o.raised} ({o.raise_msg})")
                continue
            root = o.args[0].f["svg_root"]
            got = [c for c in root.children if isinstance(c.tag, str)]
            ids = [str(c.attrib.get("id")) for c in got]
            want_ids = [nm for nm in names if nm in expect]
            if ids != want_ids:
                probs.append(f"viewBox {vb}: shapes after clipping are {ids}; expected {want_ids} (fully outside ones dropped, order kept)")
                continue
            for c in got:
                nm = str(c.attrib["id"])
                pc = Piece(_geom(c))
                idx = names.index(nm)
                if str(c.attrib.get("fill")) != f"c{idx}":
                    probs.append(f"viewBox {vb}: {nm} changed its paint")
                if expect[nm] is None:
                    if pc.clips:
                        probs.append(f"viewBox {vb}: {nm} lies inside the view box but was clipped")
                    continue
                if len(pc.clips) != 1:
                    probs.append(f"viewBox {vb}: {nm} (bbox {boxes[nm]}) straddles the border but is intersected with {len(pc.clips)} operands")
                    continue
                x, y, w, h = expect[nm]
                ct = repr(pc.clips[0])
                import re as _re
                m = _re.search(r"\('M', \((-?[\d./]+), (-?[\d./]+)\)\), \('H', \((-?[\d./]+),\)\), \('V', \((-?[\d./]+),\)\)", ct)
                if not m:
                    probs.append(f"viewBox {vb}: {nm} is intersected with {ct[:160]}, which is not an axis-aligned rectangle path")
                    continue
                cx1, cy1, cx2, cy2 = (Fraction(v) for v in m.groups())
                bx1, by1, bx2, by2 = boxes[nm]
                eff = (max(cx1, bx1), max(cy1, by1), min(cx2, bx2), min(cy2, by2))
                if eff != (x, y, x + w, y + h):
                    probs.append(f"viewBox {vb}: {nm} (bbox {boxes[nm]}) is intersected with the rectangle {(cx1, cy1, cx2, cy2)}; within the shape's bounding box that "
                                 f"selects {tuple(map(str, eff))}, the view box selects {(x, y, x + w, y + h)}")
                exp_rule = "evenodd" if nm == "cut" else "nonzero"
                if tuple(pc.rules) != (exp_rule, "nonzero"):
                    probs.append(f"viewBox {vb}: {nm} is intersected under rules {tuple(pc.rules)}; the shape's fill-rule is {exp_rule}, the rectangle's clip-rule nonzero")
                if str(c.attrib.get("fill-rule", "nonzero")) != "nonzero":
                    probs.append(f"viewBox {vb}: clipped {nm} keeps fill-rule evenodd although Skia returns nonzero geometry")
    if probs:
        u = list(dict.fromkeys(probs))
        rep.fail(rule, F, "clip_to_viewbox on schematic documents", f"{len(u)} deviations; first: {u[0]}", svg, fn)
    else:
        rep.ok(rule, F, f"2 view boxes (one with negative origin), 14 shapes by bounding box position (inside, outside, over one edge, over a corner, over two opposite edges, over all four), {n} paths: outside dropped, inside untouched, straddling intersected with the visible rectangle under (fill-rule, nonzero)", True)


# =========================================================================================== reference render list
XLINK_HREF = "{http://www.w3.org/1999/xlink}href"
_INHERITED = ("fill", "stroke", "stroke-width", "fill-rule", "clip-rule", "stroke-linecap", "display")
_SHAPES = ("path", "rect", "circle", "ellipse", "line", "polygon", "polyline")


def _num(v):
    if isinstance(v, NumAttr):
        from sa.sym import simplify_num
        return simplify_num(v.rf)
    if isinstance(v, str):
        f = Fraction(v)
        return int(f) if f.denominator == 1 else f
    return v


def _translate_name(x, y):
    from sa.sym import simplify_num
    return f"translate({simplify_num(x)!r},{simplify_num(y)!r})"


def _is_zero(v):
    from sa.sym import is_num, to_rf
    return is_num(v) and to_rf(v).is_zero()


def _own_tf(attr):
    """Application-order tuple of a transform attribute value as the abstract machine names it."""
    if not attr:
        return ()
    tok = parse_affine(attr) if isinstance(attr, str) else attr
    return tuple(tok.app)


def ref_render(root: El, viewport=None):
    """The SVG rendering model on the abstract DOM, for the structural features of C02/C05: document-order list of
    painted leaves with accumulated transform (application order), cascaded paint attributes, product of the
    opacities on the ancestor chain, and the stack of clips (each with the coordinate system it is resolved in).
    <use> renders its target under translate(x,y) then the use's transform, inheriting from the use;
    a nested <svg> maps its viewBox onto its viewport and clips to the viewport unless overflow is visible."""
    by_id = {str(n.attrib["id"]): n for n in root.subtree() if isinstance(n.tag, str) and "id" in n.attrib}
    out = []

    def geom(n):
        keys = ("d", "x", "y", "width", "height", "rx", "ry", "cx", "cy", "r", "x1", "y1", "x2", "y2", "points")
        return (n.local(),) + tuple((k, repr(n.attrib[k])) for k in keys if k in n.attrib)

    def clip_key(url):
        """A clip that is a plain rectangle (generated for a viewport) is identified by its rectangle, not its id."""
        u = str(url)
        tgt = by_id.get(u[5:-1]) if u.startswith("url(#") else None
        kids = [c for c in tgt.children if isinstance(c.tag, str)] if tgt is not None else []
        if tgt is not None and tgt.local() == "clipPath" and len(kids) == 1 and kids[0].local() == "rect" and "transform" not in kids[0].attrib and "transform" not in tgt.attrib \
                and "clip-path" not in tgt.attrib:
            a = kids[0].attrib
            return ("viewport", tuple(_num(a.get(k, "0")) for k in ("x", "y", "width", "height")))
        return u

    def rec(n, tf, inh, opacity, clips, vp):
        if not isinstance(n.tag, str):
            return
        loc = n.local()
        if loc in ("defs", "clipPath", "linearGradient", "radialGradient", "title", "desc", "metadata", "symbol"):
            return
        at = n.attrib
        cur = dict(inh)
        for k in _INHERITED:
            if k in at:
                cur[k] = str(at[k])
        if cur.get("display") == "none":
            return
        op = opacity * Fraction(str(at.get("opacity", "1")))
        own = _own_tf(at.get("transform"))
        if loc == "use":
            x, y = _num(at.get("x", "0")), _num(at.get("y", "0"))
            off = () if (_is_zero(x) and _is_zero(y)) else (_translate_name(x, y),)
            ntf = off + own + tf
            ncl = clips + (((clip_key(at["clip-path"]), ntf),) if at.get("clip-path") and at["clip-path"] != "none" else ())
            tgt = by_id.get(str(at.get(XLINK_HREF, ""))[1:])
            if tgt is not None:
                rec(tgt, ntf, cur, op, ncl, vp)
            return
        if loc == "svg" and n is not root:
            x, y = _num(at.get("x", "0")), _num(at.get("y", "0"))
            w, h = _num(at.get("width", vp[0])), _num(at.get("height", vp[1]))
            if "viewBox" in at:
                vb = tuple(_num(v) for v in str(at["viewBox"]).replace(",", " ").split())
            else:
                vb = (x, y, w, h)
            if tuple(vb) != (x, y, w, h):
                par = str(at.get("preserveAspectRatio", "xMidYMid"))
                m = (f"rect_to_rect(Rect(x={vb[0]!r}, y={vb[1]!r}, w={vb[2]!r}, h={vb[3]!r})->Rect(x={x!r}, y={y!r}, w={w!r}, h={h!r}),{par!r})",)
            else:
                m = () if (_is_zero(x) and _is_zero(y)) else (_translate_name(x, y),)
            ntf = m + own + tf
            ncl = clips
            if str(at.get("overflow", "hidden")) != "visible":
                ncl = clips + ((("viewport", (x, y, w, h)), tf),)
            for c in n.children:
                rec(c, ntf, cur, op, ncl, (vb[2], vb[3]))
            return
        ntf = own + tf
        ncl = clips + (((clip_key(at["clip-path"]), ntf),) if at.get("clip-path") and at["clip-path"] != "none" else ())
        if loc in _SHAPES:
            out.append({"geom": geom(n), "tf": ntf, "paint": tuple((k, cur.get(k)) for k in _INHERITED if k != "display"), "opacity": op, "clips": ncl})
            return
        for c in n.children:
            rec(c, ntf, cur, op, ncl, vp)

    rec(root, (), {}, Fraction(1), (), viewport)
    return out


def _diff_render(got, want):
    if len(got) != len(want):
        return f"{len(got)} painted shapes, the rendering model gives {len(want)}: {[g['geom'][:2] for g in got]} vs {[w['geom'][:2] for w in want]}"
    for i, (g, w) in enumerate(zip(got, want)):
        for k in ("geom", "tf", "paint", "opacity", "clips"):
            if g[k] != w[k]:
                return f"painted shape {i} ({w['geom'][:2]}): {k} is {g[k]!r}, the rendering model gives {w[k]!r}"
    return None


# =========================================================================================== resolve_use
def _use_doc():
    t1 = El("path", {"id": "t1", "d": pd(("M", (1, 1)), ("L", (2, 2))), "fill": "blue", "transform": "tT"}, name="t1")
    t2 = El("g", {"id": "t2", "opacity": "0.5"}, [El("path", {"id": "a", "d": pd(("M", (3, 3)))}, name="a"), El("path", {"id": "b", "d": pd(("M", (4, 4))), "fill": "none"}, name="b")], name="t2")
    t3 = El("g", {"id": "t3"}, [El("use", {XLINK_HREF: "#t1", "x": "1"}, name="inner-use")], name="t3")
    t4 = El("rect", {"id": "t4", "width": "3", "height": "2"}, name="t4")
    defs = El("defs", {}, [t1, t2, t3, t4], name="defs")
    u1 = El("use", {XLINK_HREF: "#t1", "x": N("ux"), "y": N("uy"), "transform": "tU", "fill": "red", "opacity": "0.3", "width": "5", "height": "6", "id": "u1"}, name="u1")
    u2 = El("use", {XLINK_HREF: "#t2", "stroke": "green"}, name="u2")
    u3 = El("use", {XLINK_HREF: "#t1", "y": "7"}, name="u3")
    u4 = El("use", {XLINK_HREF: "#t3", "transform": "tV"}, name="u4")
    u5 = El("use", {XLINK_HREF: "#t4", "fill": "red", "x": "2"}, name="u5")
    mid = El("path", {"id": "mid", "d": pd(("M", (9, 9)))}, name="mid")
    # targets that live in the rendered tree: in a hidden container (a sprite sheet) and in a styled group. An instance inherits
    # from its <use> only - neither the container's display:none nor the group's paint comes along
    sprites = El("g", {"id": "sprites", "display": "none"}, [El("path", {"id": "t5", "d": pd(("M", (5, 5)), ("L", (6, 6)))}, name="t5"),
                                                             El("g", {"id": "t6", "stroke": "navy"}, [El("path", {"id": "t6a", "d": pd(("M", (6, 6)))}, name="t6a")], name="t6")], name="sprites")
    styled = El("g", {"id": "styled", "fill": "blue", "fill-opacity": "0.5", "stroke-width": "4"}, [El("path", {"id": "t7", "d": pd(("M", (7, 7)), ("L", (8, 8)))}, name="t7")], name="styled")
    u6 = El("use", {XLINK_HREF: "#t5", "x": "3", "id": "u6"}, name="u6")
    u7 = El("use", {XLINK_HREF: "#t6", "id": "u7"}, name="u7")
    u8 = El("use", {XLINK_HREF: "#t7", "y": "4", "id": "u8"}, name="u8")
    u9 = El("g", {"id": "ctx", "fill": "teal"}, [El("use", {XLINK_HREF: "#t7", "id": "u9"}, name="u9")], name="ctx")
    root = El("svg", {"viewBox": "0 0 10 10"}, [defs, u1, mid, u2, El("g", {"id": "wrap", "opacity": "0.7"}, [u3, u4], name="wrap"), u5, sprites, u6, styled, u7, u8, u9], name="root")
    return root


def check_resolve_use(repo: Repo, rep: Report, rules: Dict[str, str]):
    """rules: 'render' (same render list as the SVG use semantics), 'ids' (no id on instantiated content, targets untouched), 'gone' (no use left)"""
    svg = repo["svg"]
    F = "svg.SVG._resolve_use"
    rep.saw(F, "svg.SVG.resolve_use", "svg.SVG._check_use_acyclic", "svg._try_remove_group", "svg._inherit_attrib")
    fn = svg.func("SVG._resolve_use")
    want = ref_render(_use_doc())
    ids_before = sorted(str(n.attrib["id"]) for n in _use_doc().subtree() if isinstance(n.tag, str) and "id" in n.attrib and n.local() != "use")
    outs = ok_outcomes(run(repo, "SVG.resolve_use", lambda: ([make_svg(_use_doc())], {"inplace": True})), F)
    probs = {"render": [], "ids": [], "gone": []}
    for o in outs:
        if o.raised:
            for k in probs:
                probs[k].append(f"resolve_use raises {o.raised} ({o.raise_msg}) on the schematic document")
            continue
        root = o.args[0].f["svg_root"]
        left = [n for n in root.subtree() if isinstance(n.tag, str) and n.local() == "use"]
        if left:
            probs["gone"].append(f"{len(left)} <use> elements remain")
            continue
        d = _diff_render(ref_render(root), want)
        if d:
            probs["render"].append(d)
        ids = sorted(str(n.attrib["id"]) for n in root.subtree() if isinstance(n.tag, str) and "id" in n.attrib)
        if len(ids) != len(set(ids)):
            probs["ids"].append(f"duplicate ids after instancing: {sorted(i for i in set(ids) if ids.count(i) > 1)}")
        if [i for i in ids_before if i not in ids]:
            probs["ids"].append(f"ids of the referenced originals vanished: {[i for i in ids_before if i not in ids]}")
    what = {"render": "instances render as the SVG use semantics prescribe (geometry, transform order, cascade, opacity, z-order)", "ids": "ids after instancing", "gone": "every use is instantiated"}
    for k, rid in rules.items():
        if probs[k]:
            rep.fail(rid, F, what[k], f"{len(probs[k])} deviations; first: {probs[k][0]}", svg, fn)
        else:
            rep.ok(rid, F + f" [{k}]", f"schematic document with 9 uses (offsets, transforms, group target, nested use, basic shape, shared target, targets inside a display:none container, target inside a styled group used from plain and from styled context): {what[k]}", True)


# =========================================================================================== nested svg
def _nested_doc():
    i2 = El("path", {"id": "i2", "d": pd(("M", (2, 2)))}, name="i2")
    n2 = El("svg", {"id": "n2", "viewBox": "0 0 20 10"}, [i2], name="n2")
    i1 = El("path", {"id": "i1", "d": pd(("M", (1, 1))), "fill": "blue"}, name="i1")
    n1 = El("svg", {"id": "n1", "x": "10", "y": "20", "width": "50", "height": "40", "viewBox": "0 0 200 100", "preserveAspectRatio": "xMinYMax slice", "transform": "tS", "fill": "red"},
            [i1, n2], name="n1")
    n3 = El("svg", {"id": "n3", "x": "5", "y": "6", "width": "30", "height": "30", "overflow": "visible"}, [El("path", {"id": "i3", "d": pd(("M", (3, 3)))}, name="i3")], name="n3")
    n4 = El("svg", {"id": "n4", "width": "100", "height": "100", "opacity": "0.5"}, [El("path", {"id": "i4", "d": pd(("M", (4, 4)))}, name="i4")], name="n4")
    root = El("svg", {"viewBox": "0 0 100 100"},
              [El("path", {"id": "before", "d": pd(("M", (0, 0)))}, name="before"), n1, El("g", {"id": "gg", "transform": "tG"}, [n3], name="gg"), n4,
               El("path", {"id": "after", "d": pd(("M", (9, 9)))}, name="after")], name="root")
    return root


def check_nested_svg(repo: Repo, rep: Report, rule):
    """rule: a rule id (render list and ids) or {'render': rid, 'ids': rid}"""
    rules = rule if isinstance(rule, dict) else {"render": rule, "ids": rule}
    svg = repo["svg"]
    F = "svg.SVG._unnest_svg"
    rep.saw(F, "svg.SVG.resolve_nested_svgs", "svg.SVG._iter_nested_svgs", "svg.SVG._swap_elements")
    fn = svg.func("SVG._unnest_svg")
    want = ref_render(_nested_doc(), viewport=(100, 100))
    outs = ok_outcomes(run(repo, "SVG.resolve_nested_svgs", lambda: ([make_svg(_nested_doc())], {"inplace": True})), F)
    probs, idp = [], []
    for o in outs:
        if o.raised:
            probs.append(f"resolve_nested_svgs raises {o.raised} ({o.raise_msg}) on the schematic document")
            idp.append(probs[-1])
            continue
        root = o.args[0].f["svg_root"]
        ids = [str(n.attrib["id"]) for n in root.subtree() if isinstance(n.tag, str) and "id" in n.attrib]
        if len(ids) != len(set(ids)):
            idp.append(f"duplicate ids after un-nesting: {sorted(i for i in set(ids) if ids.count(i) > 1)}")
            continue  # references are ambiguous: the render list cannot be judged
        if [n for n in root.subtree() if isinstance(n.tag, str) and n.local() == "svg" and n is not root]:
            probs.append("a nested <svg> remains")
            continue
        d = _diff_render(ref_render(root, viewport=(100, 100)), want)
        if d:
            probs.append(d)
    if "ids" in rules:
        if idp:
            rep.fail(rules["ids"], F, "ids generated for viewport clips", f"{idp[0]}", svg, fn)
        else:
            rep.ok(rules["ids"], F + " [ids]", "generated viewport clip ids are unique (nested viewports, siblings)", True)
    if "render" not in rules:
        return
    rule = rules["render"]
    if probs:
        rep.fail(rule, F, "nested svg viewports on the schematic document", f"{len(probs)} deviations; first: {probs[0]}", svg, fn)
    elif not idp:
        rep.ok(rule, F, "4 nested svgs (viewBox + preserveAspectRatio + transform, nested without size, overflow visible, plain viewport): render list equals the SVG viewport model "
                        "(viewBox mapped onto the viewport first, then the element's transform; default size = enclosing viewBox extent; clip to the viewport unless visible; order kept)", True)


# =========================================================================================== gradient translation
def check_gradient_translation(repo: Repo, rep: Report, rule: str):
    """_apply_gradient_translation on concrete gradients: afterwards the gradientTransform has no translation, and the
    gradient maps every point as before: M(p) = M'(p') for the moved points p' (x1,y1),(x2,y2) / (cx,cy),(fx,fy);
    lengths (r, fr) and everything else are untouched; values are kept to at least 6 decimals."""
    from sa.dom import install_dom
    from sa.pathsem import install_path_hooks
    from sa.sym import explore, method_of, is_num, to_rf
    from sa.machine import Linked
    svg = repo["svg"]
    F = "svg.SVG._apply_gradient_translation"
    rep.saw(F, "svg_transform.Affine2D.decompose_translation", "svg.to_element")
    fn = method_of(repo, "svg", "SVG", "_apply_gradient_translation")
    cases = [
        ("linearGradient", {"x1": "0.1", "y1": "0.2", "x2": "0.7", "y2": "0.9", "gradientUnits": "userSpaceOnUse"}, "matrix(2 0 0 4 6 8)"),
        ("linearGradient", {"x1": "1", "y1": "2", "x2": "5", "y2": "2", "gradientUnits": "userSpaceOnUse"}, "matrix(3 1 -1 3 1 1)"),
        ("linearGradient", {"x1": "1", "y1": "2", "x2": "5", "y2": "2", "gradientUnits": "userSpaceOnUse"}, "matrix(2 0 0 2 0 0)"),
        ("linearGradient", {"x1": "0", "y1": "0", "x2": "1", "y2": "0"}, "translate(5 7)"),
        ("radialGradient", {"cx": "3", "cy": "4", "r": "5", "fx": "2", "fy": "1", "fr": "0.5", "gradientUnits": "userSpaceOnUse"}, "matrix(2 0 0 4 6 8)"),
        ("radialGradient", {"cx": "3", "cy": "4", "r": "5", "gradientUnits": "userSpaceOnUse"}, "matrix(0 3 -3 0 7 1)"),
    ]
    probs = []
    for tag, attrs, gt in cases:
        def build(tag=tag, attrs=attrs, gt=gt):
            el = El(tag, dict(attrs, id="g", gradientTransform=gt), [El("stop", {"offset": "0"})], name="grad")
            root = El("svg", {"viewBox": "0 0 10 10"}, [El("defs", {}, [el])], name="root")
            return ([Rec(ClassRef("svg", "SVG"), {"svg_root": root, "elements": []}, True), el], {})

        def setup(it):
            install_dom(it)
            install_path_hooks(it)
            it.hooks[("svg_meta", "_LinkedDefault")] = lambda i, a, k: Linked(a[0])

        outs = explore(repo, fn, [], fresh_args=build, setup=setup, max_paths=64)
        for o in outs:
            if o.undecided:
                raise AnalysisError(f"{F}: abstract machine cannot interpret this code: {o.undecided}")
            case = f"<{tag} {attrs} gradientTransform='{gt}'>"
            if o.raised:
                probs.append(f"{case}: raises {o.raised} ({o.raise_msg})")
                continue
            el = o.args[1]
            import re as _re
            m = [Fraction(x) for x in _re.findall(r"-?[\d.]+(?:e-?\d+)?", gt)]
            M = (m + [0] * 6)[:6] if gt.startswith("matrix") else [1, 0, 0, 1, m[0], m[1]]
            a, b, c, d, e, f = (Fraction(x) for x in M)
            new_gt = str(el.attrib.get("gradientTransform", "matrix(1 0 0 1 0 0)"))
            nm = [Fraction(x) for x in _re.findall(r"-?[\d.]+(?:e-?\d+)?", new_gt)]
            if new_gt.startswith("translate"):
                probs.append(f"{case}: gradientTransform still has a translation: {new_gt}")
                continue
            na, nb, nc, nd_, ne, nf = (nm + [0] * 6)[:6] if new_gt.startswith("matrix") else (1, 0, 0, 1, 0, 0)
            if ne != 0 or nf != 0:
                probs.append(f"{case}: gradientTransform still has a translation: {new_gt}")
            pairs = (("x1", "y1"), ("x2", "y2")) if tag == "linearGradient" else (("cx", "cy"), ("fx", "fy"))
            dflt = {"x1": 0, "y1": 0, "x2": 1, "y2": 0, "cx": Fraction(1, 2), "cy": Fraction(1, 2), "r": Fraction(1, 2), "fr": 0}
            def val(src, k):
                if k in src:
                    return Fraction(str(src[k]))
                if k == "fx":
                    return val(src, "cx")
                if k == "fy":
                    return val(src, "cy")
                return Fraction(dflt[k])
            tol = Fraction(1, 10 ** 5)
            for xk, yk in pairs:
                x0, y0 = val(attrs, xk), val(attrs, yk)
                x1, y1 = val(el.attrib, xk), val(el.attrib, yk)
                before = (a * x0 + c * y0 + e, b * x0 + d * y0 + f)
                after = (na * x1 + nc * y1 + ne, nb * x1 + nd_ * y1 + nf)
                scale = max(abs(a), abs(b), abs(c), abs(d), 1)
                if abs(before[0] - after[0]) > tol * scale or abs(before[1] - after[1]) > tol * scale:
                    probs.append(f"{case}: point ({xk},{yk}) = ({x0},{y0}) was mapped to {tuple(map(float, before))}; after folding the translation ({x1},{y1}) is mapped to {tuple(map(float, after))}")
            for k in ("r", "fr"):
                if tag == "radialGradient" and val(attrs, k) != val(el.attrib, k):
                    probs.append(f"{case}: the length {k} changed from {val(attrs, k)} to {val(el.attrib, k)} (lengths are not translated)")
            if (na, nb, nc, nd_) != (a, b, c, d):
                probs.append(f"{case}: the linear part changed from {(a, b, c, d)} to {(na, nb, nc, nd_)}")
            if str(el.attrib.get("id")) != "g" or len(el.children) != 1:
                probs.append(f"{case}: id or stops were lost")
            if "gradientUnits" in attrs and str(el.attrib.get("gradientUnits")) != attrs["gradientUnits"]:
                probs.append(f"{case}: gradientUnits changed")
    if probs:
        rep.fail(rule, F, "folding the translation of gradientTransform into the coordinates", f"{len(probs)} deviations; first: {probs[0]}", svg, svg.func("SVG._apply_gradient_translation"))
    else:
        rep.ok(rule, F, f"{len(cases)} gradients (linear/radial, scaling, rotation, pure translation, no translation): translation removed, every point-valued pair mapped as before within 1e-5, lengths and linear part unchanged", True)


# =========================================================================================== checkpicosvg (the gate)
def _gate_good():
    def stop(o, **kw):
        return El("stop", dict({"offset": o}, **kw))
    defs = El("defs", {}, [El("linearGradient", {"id": "g"}, [stop("0"), stop("1")]), El("radialGradient", {"id": "r"}, [stop("0")])], name="defs")
    inner = El("g", {"opacity": "0.5"}, [El("path", {"d": pd(("M", (3, 3)))}), El("path", {"d": pd(("M", (4, 4)))})])
    root = El("svg", {"viewBox": "0 0 10 10"}, [defs, El("path", {"id": "p1", "d": pd(("M", (1, 1))), "fill": "url(#g)"}),
                                              El("g", {"opacity": "0.3"}, [El("path", {"id": "p2", "d": pd(("M", (2, 2)))}), inner])], name="root")
    return root


def _gate_cases():
    """(title, mutate(root) -> expected error substrings (all must be reported), allow_text)"""
    def top(root, el, idx=None):
        root._append(el, idx)

    cases = []
    cases.append(("a basic shape at top level", lambda r: (top(r, El("rect", {"width": "1", "height": "1"})), ["BadElement: /svg[0]/rect[0]"])[1], False))
    cases.append(("a <use>", lambda r: (top(r, El("use", {})), ["BadElement: /svg[0]/use[0]"])[1], False))
    cases.append(("a nested <svg>", lambda r: (top(r, El("svg", {}, [El("path", {"d": pd(("M", (0, 0)))})])), ["BadElement: /svg[0]/svg[0]"])[1], False))
    cases.append(("a clipPath in defs", lambda r: (r.children[0]._append(El("clipPath", {"id": "c"}, [El("path", {"d": pd(("M", (0, 0)))})])), ["BadElement: /svg[0]/defs[0]/clipPath[0]"])[1], False))
    cases.append(("a path in defs", lambda r: (r.children[0]._append(El("path", {"d": pd(("M", (0, 0)))})), ["BadElement: /svg[0]/defs[0]/path[0]"])[1], False))
    cases.append(("a group in defs", lambda r: (r.children[0]._append(El("g", {}, [El("path", {"d": pd(("M", (0, 0)))})])), ["BadElement: /svg[0]/defs[0]/g[0]"])[1], False))
    cases.append(("a second defs", lambda r: (top(r, El("defs", {})), ["BadElement: /svg[0]/defs[1]"])[1], False))
    cases.append(("a gradient outside defs", lambda r: (top(r, El("linearGradient", {"id": "z"})), ["BadElement: /svg[0]/linearGradient[0]"])[1], False))
    cases.append(("a stop outside a gradient", lambda r: (r.children[0]._append(El("stop", {"offset": "0"})), ["BadElement: /svg[0]/defs[0]/stop[0]"])[1], False))
    cases.append(("a path nested in a path", lambda r: (r.children[1]._append(El("rect", {})), ["BadElement: /svg[0]/path[0]/rect[0]"])[1], False))
    cases.append(("text without allow_text", lambda r: (top(r, El("text", {}, [El("tspan", {})])), ["BadElement: /svg[0]/text[0]"])[1], False))
    cases.append(("text with allow_text", lambda r: (top(r, El("text", {}, [El("tspan", {})])), [])[1], True))
    cases.append(("a gradient inside text with allow_text", lambda r: (top(r, El("text", {}, [El("linearGradient", {"id": "q"})])), ["BadElement: /svg[0]/text[0]/linearGradient[0]"])[1], True))
    cases.append(("no defs", lambda r: (r.children[0]._detach(), ["MissingElement: /svg[0]/defs[0]"])[1], False))
    cases.append(("two paths with one id", lambda r: (r.children[2].children[0].attrib.__setitem__("id", "p1"), ['reuses id="p1"'])[1], False))
    cases.append(("a path with the id of a gradient", lambda r: (r.children[1].attrib.__setitem__("id", "g"), ['reuses id="g"'])[1], False))
    cases.append(("two stops with one id", lambda r: ([s.attrib.__setitem__("id", "s") for s in r.children[0].children[0].children], ['reuses id="s"'])[1], False))
    cases.append(("a stop with the id of a path", lambda r: (r.children[0].children[1].children[0].attrib.__setitem__("id", "p2"), ['reuses id="p2"'])[1], False))
    return cases


def check_gate(repo: Repo, rep: Report, rules: Dict[str, str]):
    """rules: 'accepts' (a conforming document has no violations), 'rejects' (every structural defect is reported at its element),
    'ids' (every reused id is reported), 'drop' (drop_unsupported removes exactly the offending subtrees and reports nothing for them)"""
    svg = repo["svg"]
    F = "svg.SVG.checkpicosvg"
    rep.saw(F)
    fn = svg.func("SVG.checkpicosvg")
    probs = {k: [] for k in ("accepts", "rejects", "ids", "drop", "pure")}

    def run_gate(root_builder, **kw):
        before = _struct(root_builder())
        outs = ok_outcomes(run(repo, "SVG.checkpicosvg", lambda: ([make_svg(root_builder())], dict(kw))), F)
        res = []
        for o in outs:
            if o.raised:
                res.append((None, f"raises {o.raised} ({o.raise_msg})", None))
            else:
                res.append(([str(e) for e in o.value], None, o.args[0].f["svg_root"]))
                if not kw.get("drop_unsupported") and _struct(o.args[0].f["svg_root"]) != before:
                    probs["pure"].append("checking a document modifies it (without drop_unsupported): " + "; ".join(_struct_diffs(before, _struct(o.args[0].f["svg_root"]))[:2]))
        return res

    for errs, exc, _ in run_gate(_gate_good):
        if exc or errs:
            probs["accepts"].append(f"a conforming document is reported as {exc or errs}")
    for errs, exc, _ in run_gate(_gate_good, allow_text=True, drop_unsupported=True):
        if exc or errs:
            probs["accepts"].append(f"a conforming document is reported as {exc or errs} with allow_text/drop_unsupported")

    def loose():
        # structurally allowed content the gate has no business tidying: empty / single-child groups, empty defs entries
        r = _gate_good()
        r._append(El("g", {}))
        r._append(El("g", {"opacity": "0.5"}, [El("path", {"d": pd(("M", (7, 7)))})]))
        r.children[0]._append(El("linearGradient", {"id": "unused"}))
        return r
    run_gate(loose)
    n = 0
    for title, mutate, allow_text in _gate_cases():
        def build(mutate=mutate):
            r = _gate_good()
            mutate(r)
            return r
        want = mutate(_gate_good())
        kind = "ids" if any("reuses" in w for w in want) else "rejects"
        for errs, exc, _ in run_gate(build, allow_text=allow_text):
            n += 1
            if exc:
                probs[kind].append(f"{title}: {exc}")
                continue
            missing = [w for w in want if not any(w in e for e in errs)]
            if missing:
                probs[kind].append(f"{title}: not reported (expected {missing}; reported {errs})")
            if not want and errs:
                probs["accepts"].append(f"{title}: reported as {errs}")
            extra = [e for e in errs if not any(w in e for w in want)]
            if want and extra:
                probs[kind].append(f"{title}: additionally reports {extra}")
        if kind == "rejects" and want and want[0].startswith("BadElement"):
            bad_path = want[0].split(": ")[1]
            for errs, exc, root in run_gate(build, allow_text=allow_text, drop_unsupported=True):
                if exc:
                    probs["drop"].append(f"{title}: drop_unsupported {exc}")
                    continue
                if any("BadElement" in e for e in errs):
                    probs["drop"].append(f"{title}: still reported with drop_unsupported: {errs}")
                left = [r[1] for r in _ref_traverse(root)]
                if any(p == bad_path or p.startswith(bad_path + "/") for p in left):
                    probs["drop"].append(f"{title}: the offending element survives drop_unsupported")
                good = [r[1] for r in _ref_traverse(_gate_good())]
                lost = [p for p in good if p not in left and not p.startswith(bad_path)]
                if lost:
                    probs["drop"].append(f"{title}: drop_unsupported also removed conforming elements {lost[:3]}")
    what = {"accepts": "conforming documents pass", "rejects": "structural violations are reported at the offending element", "ids": "reused ids are reported", "drop": "drop_unsupported removes exactly the offending subtrees",
            "pure": "the check leaves the document unchanged unless drop_unsupported is given"}
    for k, rid in rules.items():
        if probs[k]:
            u = list(dict.fromkeys(probs[k]))
            rep.fail(rid, F, what[k], f"{len(u)} deviations; first: {u[0]}", svg, fn)
        else:
            rep.ok(rid, F + f" [{k}]", f"{n} defective variants of a conforming document + the conforming one: {what[k]}", True)


# =========================================================================================== whole pipeline
def _pipeline_doc():
    def stop(o):
        return El("stop", {"offset": o})
    pf = El("path", {"id": "pf", "d": pd(("M", (90, 2)), ("L", (93, 2)), ("L", (93, 3)), ("Z", ())), "fill": "orange"}, name="pf")
    ps = El("path", {"id": "ps", "d": pd(("M", (90, 12)), ("L", (93, 12)), ("L", (93, 13)), ("Z", ())), "style": "fill:teal"}, name="ps")
    # a shape that only sits in defs (never instantiated) and is the only user of a gradient
    pdef = El("path", {"id": "pdef", "d": pd(("M", (90, 22)), ("L", (93, 22)), ("L", (93, 23)), ("Z", ())), "fill": "url(#gd)"}, name="pdef")
    defs = El("defs", {}, [El("linearGradient", {"id": "g1"}, [stop("0"), stop("1")]), El("linearGradient", {"id": "gz"}, [stop("0")]), El("linearGradient", {"id": "gd"}, [stop("0")]),
                           El("clipPath", {"id": "c"}, [El("rect", {"width": "4", "height": "3"})]), pf, ps, pdef], name="defs")
    p1 = El("path", {"id": "p1", "d": pd(("m", (Fraction("1.23456"), 1)), ("l", (2, 0)), ("v", (2,)), ("h", (-2,)), ("z", ()))}, name="p1")
    z1 = El("path", {"id": "z1", "d": pd(("M", (50, 50)), ("L", (51, 51)))}, name="z1")
    ga = El("g", {"opacity": "0.5", "id": "ga"}, [p1, z1], name="ga")
    p2 = El("path", {"id": "p2", "d": pd(("M", (2, 2)), ("L", (3, 2)), ("L", (3, 3)), ("Z", ()))}, name="p2")
    p3 = El("path", {"id": "p3", "d": pd(("M", (3, 3)), ("Q", (4, 4, 5, 3)), ("T", (7, 3)), ("Z", ())), "style": "fill:green"}, name="p3")
    gb = El("g", {"opacity": "0.25", "id": "gb", "fill": "yellow"}, [p2, p3], name="gb")
    r = El("rect", {"id": "r", "x": "10", "y": "10", "width": "4", "height": "5", "fill": "url(#g1)", "transform": "tR", "style": "fill-opacity:0.5"}, name="r")
    u = El("use", {XLINK_HREF: "#p2", "x": "5", "style": "fill:purple"}, name="u")
    z2 = El("path", {"id": "z2", "d": pd(("M", (60, 60)), ("L", (61, 61))), "fill": "url(#gz)"}, name="z2")
    ev = El("path", {"id": "ev", "d": pd(("M", (20, 20)), ("L", (30, 20)), ("L", (30, 30)), ("Z", ())), "fill-rule": "evenodd"}, name="ev")
    st = El("path", {"id": "st", "d": pd(("M", (40, 40)), ("L", (45, 40))), "stroke": "blue", "stroke-width": "2", "fill": "none"}, name="st")
    cl = El("path", {"id": "cl", "d": pd(("M", (70, 70)), ("L", (75, 70)), ("L", (75, 75)), ("Z", ())), "clip-path": "url(#c)"}, name="cl")
    nested = El("svg", {"x": "1", "y": "2", "width": "30", "height": "30", "viewBox": "0 0 60 60"}, [El("circle", {"id": "ci", "cx": "5", "cy": "5", "r": "2"}, name="ci")], name="nested")
    hidden = El("g", {"display": "none"}, [El("path", {"id": "hid", "d": pd(("M", (80, 80)), ("L", (85, 80)), ("L", (85, 85)), ("Z", ()))})], name="hidden")
    # (comments never reach the tree: the parser drops them, see the parser-flag rule of C14)
    junk = [El(ETREE_PI), El("title", {}), El("metadata", {}), El("{http://example.com/ns}thing", {}), El("symbol", {}, [El("path", {"d": pd(("M", (0, 0)))})])]
    gt = El("g", {"opacity": "0.5", "id": "gt"}, [El("title", {}), El("desc", {}), El("path", {"id": "pt", "d": pd(("M", (95, 50)), ("L", (97, 50)), ("L", (97, 52)), ("Z", ()))})], name="gt")
    gc = El("g", {"opacity": "0.5", "id": "gc"}, [El("clipPath", {"id": "c9"}, [El("rect", {"width": "9", "height": "9"})]),
                                                  El("path", {"id": "pc", "clip-path": "url(#c9)", "d": pd(("M", (95, 60)), ("L", (97, 60)), ("L", (97, 62)), ("Z", ()))})], name="gc")
    po = El("path", {"id": "po", "opacity": N("oa"), "fill-opacity": N("ob"), "d": pd(("M", (95, 70)), ("L", (97, 70)), ("L", (97, 72)), ("Z", ()))}, name="po")
    uf = El("use", {XLINK_HREF: "#pf", "style": "fill:purple;opacity:0.5"}, name="uf")
    us = El("use", {XLINK_HREF: "#ps", "style": "fill:purple", "opacity": "0.5"}, name="us")
    # a kept group whose opacity would become 1 if it were rounded to the 3 digits in use: the keep decision and what a second pass sees must agree
    gr = El("g", {"opacity": "0.9996", "id": "gr"}, [El("path", {"id": "pr1", "d": pd(("M", (95, 80)), ("L", (97, 80)), ("L", (97, 82)), ("Z", ()))}),
                                                    El("path", {"id": "pr2", "d": pd(("M", (95, 90)), ("L", (97, 90)), ("L", (97, 92)), ("Z", ())), "opacity": "0.4996"})], name="gr")
    # ... and one whose opacity is even closer to 1 (any rounding to fewer than 7 digits makes it 1), below a dissolved single-child group
    gs = El("g", {"opacity": "0.9999996", "id": "gs"}, [El("path", {"id": "ps1", "d": pd(("M", (85, 80)), ("L", (87, 80)), ("L", (87, 82)), ("Z", ()))}),
                                                       El("path", {"id": "ps2", "d": pd(("M", (85, 90)), ("L", (87, 90)), ("L", (87, 92)), ("Z", ()))})], name="gs")
    gso = El("g", {"id": "gso", "opacity": "1"}, [gs], name="gso")
    # a coordinate so small that CPython prints it with an exponent and without a decimal point (1e-05): it is a number like any other
    tiny = El("path", {"id": "tiny", "d": pd(("M", (10, 40)), ("H", (30,)), ("V", (45,)), ("L", (Fraction(1, 100000), 45)), ("Z", ()))}, name="tiny")
    root = El("svg", {"viewBox": "0 0 100 100", "fill": "red", "{http://example.com/ns}attr": "x"}, junk + [defs, ga, gb, r, u, z2, ev, st, nested, cl, hidden, uf, us, gt, gc, po, gr, gso, tiny], name="root")
    return root


def _pipeline_area(g):
    t = repr(g)
    if "(50, 50)" in t or "(60, 60)" in t:
        return 0
    if "(40, 40)" in t and "stroke" not in t:
        return 0
    return 7


def _struct(n):
    """Structure of a tree without path geometry (which is opaque after the engine touched it)."""
    if not isinstance(n.tag, str):
        return ("#", repr(n.tag))
    def val(k, v):
        r = repr(v)
        if k == "d" and "G(" in r:
            return "<geometry>"
        if "Aff[" in r or "mapx[" in r or "mapy[" in r or r.startswith("'affine:"):
            return "<numbers derived from symbolic transforms>"
        return r
    at = tuple(sorted((k, val(k, v)) for k, v in n.attrib.items()))
    return (n.local(), at, tuple(_struct(c) for c in n.children))


_PIPE_CATS = ("grammar", "path-data", "rounding", "paint", "junk", "kept-group", "orphans", "fixpoint", "completes")


_MEMO: Dict[tuple, tuple] = {}


def run_pipeline(repo: Repo, ndigits=3, passes=1, doc=None, **kw):
    key = ("pipeline", repo.digest(), ndigits, passes, getattr(doc, "__qualname__", None) if doc is not None else None, tuple(sorted(kw.items())))
    memo_ok = doc is None or "<locals>" not in getattr(doc, "__qualname__", "<locals>")
    if memo_ok and key in _MEMO:
        return _MEMO[key]
    res = _run_pipeline(repo, ndigits, passes, doc, **kw)
    if memo_ok:
        _MEMO[key] = res
    return res


def _run_pipeline(repo: Repo, ndigits=3, passes=1, doc=None, **kw):
    snaps = []

    def body(it, a, k):
        svg = a[0]
        m = method_of(repo, "svg", "SVG", "topicosvg")
        for i in range(passes):
            it.call(m, [svg], dict(k))
            snaps.append(_struct(svg.f["svg_root"]))
        return svg

    from sa.sym import method_of
    snaps_holder = snaps
    outs = ok_outcomes(run(repo, body, lambda: ([make_svg((doc or _pipeline_doc)())], dict({"inplace": True, "ndigits": ndigits}, **kw)), max_paths=64, area=_pipeline_area), "svg.SVG.topicosvg")
    return outs, snaps_holder


def _ops_of(g):
    out = []
    g = unseq(g)
    while isinstance(g, GeomTok) and len(g.term) > 1:
        out.append(g.term[0])
        nxt = g.term[1]
        if isinstance(nxt, tuple) and nxt and isinstance(nxt[0], GeomTok):
            nxt = nxt[0]
        g = unseq(nxt)
    return out  # outermost first


def _nobox_doc():
    """A document without a view box (only a width): objectBoundingBox gradients used as fill, as stroke paint only and by a shape
    that merely sits in defs; a stroked shape (the first one to need the tolerance), a shape with fill and stroke, an instance."""
    def grad(tag, gid):
        return El(tag, {"id": gid}, [El("stop", {"offset": "0", "stop-color": "red"}), El("stop", {"offset": "1", "stop-color": "blue"})])

    def box(i):
        return pd(("M", (i, i)), ("L", (i + 4, i)), ("L", (i + 4, i + 4)), ("Z", ()))
    defs = El("defs", {}, [grad("linearGradient", "h"), grad("radialGradient", "k"), grad("linearGradient", "m"), El("path", {"id": "spare", "d": box(80), "fill": "url(#m)"})], name="defs")
    kids = [defs, El("path", {"id": "a", "d": box(1), "fill": "url(#h)"}), El("path", {"id": "b", "d": box(10), "fill": "url(#h)", "stroke": "black"}),
            El("path", {"id": "c", "d": box(20), "fill": "none", "stroke": "url(#k)", "stroke-width": "3"}), El("use", {XLINK_HREF: "#a"}),
            El("path", {"id": "d", "d": box(30), "fill": "none", "stroke": "black", "stroke-width": "2"})]
    return El("svg", {"width": "100"}, kids, name="root")


def check_pipeline(repo: Repo, rep: Report, rules: Dict[str, str]):
    """topicosvg interpreted end to end on a schematic document that uses every supported feature.
    rules: category -> rule id; categories: grammar, path-data, rounding, paint, junk, kept-group, orphans, fixpoint, completes"""
    svg = repo["svg"]
    F = "svg.SVG.topicosvg"
    rep.saw(F)
    fn = svg.func("SVG.topicosvg")
    probs: Dict[str, List[str]] = {k: [] for k in _PIPE_CATS}
    n_runs = 0
    outs, snaps = run_pipeline(repo, ndigits=3, passes=2)
    for o in outs:
        n_runs += 1
        if o.raised:
            probs["fixpoint"].append(f"converting the converted schematic document again raises {o.raised} ({o.raise_msg})")
        elif len(snaps) >= 2 and snaps[-1] != snaps[-2]:
            for dmsg in _struct_diffs(snaps[-2], snaps[-1]):
                probs["fixpoint"].append("a second conversion changes the document: " + dmsg)
    # the engine refuses an operation (skia-pathops raises PathOpsError on some outlines): the conversion may end in that exception,
    # but if it returns, what it returns is a picosvg all the same (an evenodd path left as it was is not)
    for fname in ("remove_overlaps", "intersection", "union"):
        def failing(it, fname=fname):
            from sa.sym import PyRaise

            def fail(i, a, k):
                raise PyRaise("PathOpsError", None, f"injected: the engine fails in {fname}")
            it.hooks[("svg_pathops", fname)] = fail

        def body(it, a, k):
            it.call(method_of(repo, "svg", "SVG", "topicosvg"), [a[0]], dict(k))
            return a[0]
        from sa.sym import method_of
        fouts = ok_outcomes(run(repo, body, lambda: ([make_svg(_pipeline_doc())], {"inplace": True, "ndigits": 3}), setup_extra=failing, max_paths=64, area=_pipeline_area), F)
        for o in fouts:
            n_runs += 1
            if o.raised:
                continue
            root = o.args[0].f["svg_root"]
            for n in root.subtree():
                if not isinstance(n.tag, str):
                    continue
                if str(n.attrib.get("fill-rule", "nonzero")) != "nonzero":
                    probs["grammar"].append(f"when the engine fails in {fname} the conversion still returns, and {n.attrib.get('id')} keeps fill-rule evenodd")
                if n.local() == "path" and any(k in n.attrib for k in ("clip-path", "stroke", "transform")):
                    probs["grammar"].append(f"when the engine fails in {fname} the conversion still returns, and path {n.attrib.get('id')} keeps {sorted(k for k in ('clip-path', 'stroke', 'transform') if k in n.attrib)}")
                if n.local() in ("clipPath", "use", "rect", "circle"):
                    probs["grammar"].append(f"when the engine fails in {fname} the conversion still returns, and <{n.local()}> survives")
    # a document without a view box: what is judged is that it ends, and how references look at the end
    outs, _ = run_pipeline(repo, ndigits=3, passes=1, doc=_nobox_doc)
    for o in outs:
        n_runs += 1
        if o.raised:
            # (nothing in it needs a viewport: no transformed shape has a gradient)
            probs["completes"].append(f"document without viewBox: conversion raises {o.raised} ({o.raise_msg})")
            continue

        def PN(cat, msg):
            msg = "document without viewBox: " + msg
            if "stays in defs although no shape references it" in msg:
                probs["orphans"].append(msg)
            elif cat == "refs":
                probs["grammar"].append(msg)
        _grammar_facts(o.args[0].f["svg_root"], PN)
    for nd in (3, 0):
        outs, _ = run_pipeline(repo, ndigits=nd, passes=1)
        for o in outs:
            n_runs += 1
            if o.raised:
                probs["completes"].append(f"ndigits={nd}: conversion of the schematic document raises {o.raised} ({o.raise_msg})")
                continue
            root = o.args[0].f["svg_root"]

            def P(cat, msg, nd=nd):
                # ndigits=0 also rounds opacities (0.5 -> 0): only the number format is judged on that run
                if nd == 0 and cat not in ("path-data", "rounding"):
                    return
                probs[cat].append(f"ndigits={nd}: {msg}")

            els = [n for n in root.subtree() if isinstance(n.tag, str)]
            marks = [n for n in root.subtree() if not isinstance(n.tag, str)]
            if marks:
                P("junk", f"{len(marks)} comments / processing instructions survive")
            for n in els:
                if n.local() in ("title", "metadata", "desc", "symbol", "thing") or "example.com" in str(n.tag):
                    P("junk", f"<{n.local()}> survives")
                if any("example.com" in str(k) for k in n.attrib):
                    P("junk", "a foreign-namespace attribute survives")
                if n.local() in ("rect", "circle", "ellipse", "line", "polygon", "polyline", "use", "clipPath", "text") or (n.local() == "svg" and n is not root):
                    P("grammar", f"<{n.local()} id={n.attrib.get('id')}> survives")
                if any("href" in str(k) for k in n.attrib):
                    P("grammar", f"an xlink reference survives on <{n.local()}>")
                if str(n.attrib.get("fill-rule", "nonzero")) != "nonzero":
                    P("grammar", f"{n.attrib.get('id')} keeps fill-rule evenodd")
                if "style" in n.attrib or "display" in n.attrib:
                    P("grammar", f"<{n.local()} id={n.attrib.get('id')}> keeps style/display")

            def PG(cat, msg):
                # group / orphan deviations of the structural facts are reported under their own categories
                if "kept group" in msg:
                    P("kept-group", msg)
                elif "stays in defs although no shape references it" in msg:
                    P("orphans", msg)
                else:
                    P("grammar" if cat in ("structure", "refs") else cat, msg)

            _grammar_facts(root, PG)
            shapes = {str(n.attrib.get("id", f"#{i}")): n for i, n in enumerate(_paths_under(root))}
            for sid, n in shapes.items():
                d = n.attrib.get("d")
                g = _geom(n)
                if isinstance(g, GeomTok):
                    ops = _ops_of(g)
                    if "absolute" not in ops:
                        P("path-data", f"{sid}: geometry from the engine is not passed through absolute()")
                    if "round" not in ops:
                        P("rounding", f"{sid}: geometry from the engine is never rounded")
                    else:
                        later = [x for x in ops[:ops.index("round")] if x not in ("nonempty-subpaths",)]
                        if later:
                            P("rounding", f"{sid}: {later} run after the numbers were rounded: unrounded numbers reach the output")
                        if "nonempty-subpaths" not in ops[:ops.index("round")]:
                            P("rounding", f"{sid}: empty subpaths are not removed after rounding (a contour that collapses only when rounded survives the first pass and is dropped by the second)")
                        gg = unseq(g)
                        while isinstance(gg, GeomTok) and gg.term[0] != "round":
                            gg = unseq(gg.term[1])
                        if isinstance(gg, GeomTok) and gg.term[-1] != nd:
                            P("rounding", f"{sid}: rounded to {gg.term[-1]} digits, {nd} requested")
                elif isinstance(d, PathData):
                    for c, a in d.cmds:
                        if c not in ("M", "L", "C", "Q", "A", "Z"):
                            P("path-data", f"{sid}: command {c} survives (only absolute M L C Q A Z allowed)")
                        for v in a:
                            fv = Fraction(str(v)) if not isinstance(v, (int, Fraction)) else Fraction(v)
                            if fv != round(fv, nd):
                                P("rounding", f"{sid}: number {v} is not rounded to {nd} digits")
                elif d is not None:
                    P("path-data", f"{sid}: path data is {d!r}")
            if "p1" in shapes and isinstance(shapes["p1"].attrib.get("d"), PathData):
                x0 = shapes["p1"].attrib["d"].cmds[0][1][0]
                want = round(Fraction("1.23456"), nd)
                if Fraction(str(x0)) != want:
                    P("rounding", f"p1 starts at x={x0}; 1.23456 rounded to {nd} digits is {want}")
            # paints (cascade): id -> (fill, opacity of the path itself)
            want_paint = {"p1": ("red", "1"), "p2": ("yellow", "1"), "p3": ("green", "1"), "ev": ("red", "1"), "st": ("blue", "1"), "ci": ("red", "1"), "cl": ("red", "1"),
                          "pt": ("red", "0.5"), "pc": ("red", "0.5")}
            for sid, (fill, op) in want_paint.items():
                if sid not in shapes:
                    P("paint", f"{sid} vanished")
                    continue
                got = (str(shapes[sid].attrib.get("fill", "black")), str(shapes[sid].attrib.get("opacity", "1")))
                if got != (fill, op):
                    P("paint", f"{sid} is painted fill={got[0]} opacity={got[1]}; the cascade gives fill={fill} opacity={op}")
            if "r" in shapes and (not str(shapes["r"].attrib.get("fill", "")).startswith("url(#g1") or str(shapes["r"].attrib.get("opacity", "1")) != "0.5"):
                P("paint", f"r is painted fill={shapes['r'].attrib.get('fill')} opacity={shapes['r'].attrib.get('opacity', '1')}; the cascade gives the gradient and opacity 0.5 (from style fill-opacity)")
            inst = [n for s, n in shapes.items() if s.startswith("#") and "translate(5,0)" in repr(_geom(n))]
            if len(inst) != 1 or str(inst[0].attrib.get("fill")) != "purple":
                P("paint", f"the <use style='fill:purple'> instance of p2 comes out as {[(str(n.attrib.get('fill'))) for n in inst]}; the target has no fill of its own and inherits purple from the use")
            for marker, name, fill in (("M90,2 ", "the instance of pf (own fill attribute orange) under <use style='fill:purple;opacity:0.5'>", "orange"),
                                       ("M90,12 ", "the instance of ps (own style fill:teal) under <use style='fill:purple' opacity='0.5'>", "teal")):
                hit = [n for n in shapes.values() if marker in repr(n.attrib.get("d"))]
                if len(hit) != 1 or (str(hit[0].attrib.get("fill")), str(hit[0].attrib.get("opacity", "1"))) != (fill, "0.5"):
                    P("paint", f"{name} comes out as {[(str(n.attrib.get('fill')), str(n.attrib.get('opacity', '1'))) for n in hit]}; the element's own value wins over the inherited one: ({fill}, 0.5)")
            if "po" in shapes:
                opv = shapes["po"].attrib.get("opacity")
                want_op = f"round(oa*ob, {nd})"
                if repr(opv) != want_op or "fill-opacity" in shapes["po"].attrib:
                    P("rounding" if "round" not in repr(opv) or repr(opv).count("round") > 1 else "paint",
                      f"po (opacity oa, fill-opacity ob) comes out with opacity={opv!r} fill-opacity={shapes['po'].attrib.get('fill-opacity')}; the product, rounded once at the end, is {want_op}")
            for gone in ("z1", "z2", "hid"):
                if gone in shapes:
                    P("paint", f"{gone} (no painted area / display:none) survives")
    what = {"grammar": "result obeys the picosvg grammar", "path-data": "only absolute M L C Q A Z", "rounding": "every number rounded to ndigits, rounding is the last writer",
            "paint": "paints follow the cascade; unpainted content is gone", "junk": "ignorable content removed", "kept-group": "kept groups have >= 2 children and only opacity",
            "orphans": "no unreferenced gradient", "fixpoint": "second pass leaves structure and attributes unchanged", "completes": "conversion completes"}
    for k, rid in rules.items():
        if probs[k] and k in ("kept-group", "orphans", "fixpoint"):
            # one finding per deviation, identified by the deviation itself (so that a recorded one does not hide another)
            for msg in dict.fromkeys(m.split(": ", 1)[1] if m.startswith("ndigits=") else m for m in probs[k]):
                rep.fail(rid, F, msg, f"{what[k]}: {msg}", svg, fn)
        elif probs[k]:
            u = list(dict.fromkeys(probs[k]))
            rep.fail(rid, F, what[k], f"{len(u)} deviations; first: {u[0]}", svg, fn)
        else:
            rep.ok(rid, F + f" [{k}]", f"schematic document with every supported feature, ndigits 3 and 0, {n_runs} runs: {what[k]}", True)


def _struct_diffs(a, b, path="/svg"):
    """All differences between two structure snapshots (children are aligned by their id / tag)."""
    out = []
    if a[0] != b[0]:
        return [f"{path}: <{a[0]}> became <{b[0]}>"]
    if a[1] != b[1]:
        da, db = dict(a[1]), dict(b[1])
        ch = {k: (da.get(k), db.get(k)) for k in sorted(set(da) | set(db)) if da.get(k) != db.get(k)}
        if ch:
            out.append(f"{path}: attributes changed: {ch}")
        else:
            out.append(f"{path}: attribute order changed: {[k for k, _ in a[1]]} became {[k for k, _ in b[1]]}")
    def keys(children):
        seen, out_ = {}, []
        for c in children:
            if c[0] == "#":
                out_.append(c)
                continue
            cid = dict(c[1]).get("id")
            if cid is None:
                # an element without id is named after the first id found below it (stable when siblings come and go), else by position
                def first_id(x):
                    for y in x[2]:
                        if y[0] == "#":
                            continue
                        i = dict(y[1]).get("id")
                        if i is not None:
                            return str(i).strip("'")
                        i = first_id(y)
                        if i is not None:
                            return i
                    return None
                fid = first_id(c) if sum(1 for x in children if x[0] == c[0]) > 1 else None
                if fid is not None and (c[0], f"#[{fid}..]") not in out_:
                    cid = f"#[{fid}..]"
                else:
                    n = seen.get(c[0], 0)
                    seen[c[0]] = n + 1
                    cid = f"#{n}"
            out_.append((c[0], cid))
        return out_
    ka, kb = keys(a[2]), keys(b[2])
    if ka != kb:
        def nm(k):
            return (k[0] + k[1]) if str(k[1]).startswith("#") else str(k[1]).strip("'")
        gone, new = [nm(k) for k in ka if k not in kb], [nm(k) for k in kb if k not in ka]
        if gone or new:
            out.append(f"{path}: children {gone} disappear, {new} appear")
        else:
            out.append(f"{path}: children are reordered")
    mb = dict(zip(kb, b[2]))
    for k, c in zip(ka, a[2]):
        if str(k[1]).startswith("#") and sum(1 for x in ka if x[0] == k[0] and str(x[1]).startswith("#")) != sum(1 for x in kb if x[0] == k[0] and str(x[1]).startswith("#")):
            continue  # id-less children of this kind are not comparable by position once their number changed
        if k in mb and mb[k] != c and c[0] != "#":
            out += _struct_diffs(c, mb[k], f"{path}/{c[0]}[{k[1]}]")
    return out


def collect_gate_patterns(repo: Repo, allow_text: bool):
    """The regular expressions checkpicosvg actually matches element paths against (observed while interpreting it)."""
    from sa.sym import _re_fold, ConstRegex
    seen = []

    def extra(it):
        def mk(method):
            def f(i, a, k):
                if isinstance(a[0], str):
                    seen.append((method, a[0]))
                return _re_fold(method, a, k)
            return f
        for m in ("match", "fullmatch", "search"):
            it.external[f"re.{m}"] = mk(m)

        class Rec_(ConstRegex):
            def sym_getattr(self, it_, attr):
                if attr in ("match", "fullmatch", "search"):
                    seen.append((attr, self.args[0]))
                return ConstRegex.sym_getattr(self, it_, attr)

        it.external["re.compile"] = lambda i, a, k: Rec_(a)

    from sa.sym import Interp
    Interp._modcache = {}  # compiled patterns may live in module-level tables
    def _doc():
        r = _gate_good()
        r._append(El("rect", {}))
        return r
    ok_outcomes(run(repo, "SVG.checkpicosvg", lambda: ([make_svg(_doc())], {"allow_text": allow_text}), setup_extra=extra), "svg.SVG.checkpicosvg")
    Interp._modcache = {}
    return list(dict.fromkeys(seen))


# =========================================================================================== ignorable content
def _full_struct(n, attr_order=False):
    if not isinstance(n.tag, str):
        return ("#", repr(n.tag))
    at = tuple((k, repr(v)) for k, v in n.attrib.items())
    if not attr_order:
        at = tuple(sorted(at))
    kids = tuple(_full_struct(c, attr_order) for c in n.children)
    if n.local() == "defs" and not attr_order:
        kids = tuple(sorted(kids, key=repr))  # the order of gradients inside defs may differ (the property says so)
    return (n.local(), at, kids)


def _add_noise(root: El):
    """Content renderers ignore, inserted everywhere: processing instructions, title/desc/metadata, foreign-namespace
    elements (with svg content inside) and attributes, id-less symbols (with id'd content), attribute-less wrapper groups."""
    FOREIGN = "{http://example.com/ns}"
    containers = [n for n in root.subtree() if isinstance(n.tag, str) and n.local() in ("svg", "g", "defs")]
    k = 0
    for c in containers:
        kids = list(c.children)
        for i, ch in enumerate(kids):
            if not isinstance(ch.tag, str):
                continue
            k += 1
            idx = c.children.index(ch)
            c._append(El(ETREE_PI, name=f"pi{k}"), idx)
            if k % 2 == 0 and c.local() != "defs":
                c._append(El(FOREIGN + "guide", {}, [El("path", {"id": f"foreign{k}", "d": pd(("M", (0, 0)), ("L", (9, 9)), ("L", (0, 9)), ("Z", ()))})]), idx)
            if k % 3 == 0:
                ch.attrib[FOREIGN + "label"] = "layer"
        c._append(El("title", {}), 0)
        c._append(El("desc", {}, [El("title", {})]), 1)
        if c.local() != "defs":
            # descriptive elements nested in one another, followed by more of them
            c._append(El("metadata", {}, [El(FOREIGN + "rdf", {}), El("title", {}), El("desc", {})]), 0)
            c._append(El("title", {}))
            c._append(El("symbol", {}, [El("path", {"id": f"insym{k}", "d": pd(("M", (0, 0)), ("L", (9, 9)), ("L", (0, 9)), ("Z", ()))})]))
    # processing instructions inside elements that are not containers: gradients (with and without stops of their own), stops,
    # clip paths, shapes, <use>
    for n in [n for n in root.subtree() if isinstance(n.tag, str) and n.local() in ("linearGradient", "radialGradient", "stop", "clipPath", "path", "rect", "circle", "use")]:
        k += 1
        n._append(El(ETREE_PI, name=f"pin{k}"), 0)
        if k % 2 == 0:
            n._append(El(ETREE_PI, name=f"pin{k}b"))
    # attribute-less wrapper groups around every other top-level shape / group
    top = [ch for ch in root.children if isinstance(ch.tag, str) and ch.local() in ("path", "rect", "g", "use")]
    for i, ch in enumerate(top):
        if i % 2 == 0:
            idx = root.children.index(ch)
            w = El("g", {})
            root._append(w, idx)
            w._append(ch)
    # ... and around every other child of defs (gradients, clip paths, use targets)
    for d in [n for n in root.subtree() if isinstance(n.tag, str) and n.local() == "defs"]:
        for i, ch in enumerate([c for c in d.children if isinstance(c.tag, str) and c.local() in ("linearGradient", "radialGradient", "clipPath", "path")]):
            if i % 2 == 0:
                idx = d.children.index(ch)
                w = El("g", {})
                d._append(w, idx)
                w._append(ch)
    root.attrib[FOREIGN + "version"] = "1"
    # an id-less symbol (dead for every renderer) whose content shadows ids that live uses refer to, and contains dead uses
    root._append(El("symbol", {}, [El("path", {"id": "pf", "fill": "lime", "d": pd(("M", (0, 0)), ("L", (1, 0)), ("L", (1, 1)), ("Z", ()))}),
                                   El("path", {"id": "p2", "d": pd(("M", (0, 0)), ("L", (1, 0)), ("L", (1, 1)), ("Z", ()))})]))
    return root


def check_noise_invariance(repo: Repo, rep: Report, rule: str):
    """topicosvg interpreted on the schematic document with and without ignorable content: the two results are equal
    (element for element, attribute for attribute, geometry term for geometry term)."""
    svg = repo["svg"]
    F = "svg.SVG.topicosvg"
    fn = svg.func("SVG.topicosvg")
    rep.saw(F, "svg.SVG.remove_nonsvg_content", "svg.SVG.remove_processing_instructions", "svg.SVG.remove_anonymous_symbols", "svg.SVG.remove_title_meta_desc",
            "svg._is_redundant", "svg._is_removable_group")

    def clean():
        r = _pipeline_doc()
        for ch in list(r.children):
            if not isinstance(ch.tag, str) or ch.local() in ("title", "metadata", "thing", "symbol"):
                ch._detach()
        r.attrib.pop("{http://example.com/ns}attr", None)
        # gradients that take stops and attributes from a template (one of them through a chain), used by transformed shapes
        defs = next(c for c in r.children if isinstance(c.tag, str) and c.local() == "defs")
        defs._append(El("linearGradient", {"id": "gt0", "x2": "0.75"}, [El("stop", {"offset": "0", "stop-color": "red"}), El("stop", {"offset": "1", "stop-color": "blue"})]))
        defs._append(El("linearGradient", {"id": "gt1", XLINK_HREF: "#gt0", "y2": "0.5"}))
        defs._append(El("radialGradient", {"id": "gt2", XLINK_HREF: "#gt1", "r": "0.25"}))
        r._append(El("path", {"id": "tg1", "fill": "url(#gt1)", "transform": "tQ", "d": pd(("M", (20, 70)), ("L", (24, 70)), ("L", (24, 74)), ("Z", ()))}))
        r._append(El("path", {"id": "tg2", "fill": "url(#gt2)", "transform": "tQ", "d": pd(("M", (30, 70)), ("L", (34, 70)), ("L", (34, 74)), ("Z", ()))}))
        return r

    outs_a, _ = run_pipeline(repo, 3, 1, doc=clean)
    outs_b, _ = run_pipeline(repo, 3, 1, doc=lambda: _add_noise(clean()))
    probs = []
    if len(outs_a) != len(outs_b):
        probs.append(f"the conversion takes {len(outs_a)} paths without and {len(outs_b)} paths with ignorable content")
    for a, b in zip(outs_a, outs_b):
        if a.raised or b.raised:
            if a.raised != b.raised:
                probs.append(f"without ignorable content the conversion {'raises ' + a.raised if a.raised else 'completes'}, with it it {'raises ' + b.raised + ' (' + b.raise_msg + ')' if b.raised else 'completes'}")
            continue
        sa_, sb_ = _full_struct(a.args[0].f["svg_root"]), _full_struct(b.args[0].f["svg_root"])
        if sa_ != sb_:
            probs += ["ignorable content changes the result: " + d for d in _struct_diffs(sa_, sb_)[:3]]
    if probs:
        rep.fail(rule, F, "conversion with and without ignorable content", f"{len(probs)} deviations; first: {probs[0]}", svg, fn)
    else:
        rep.ok(rule, F + " [ignorable content]", "schematic document with every supported feature, converted with and without processing instructions, title/desc/metadata, foreign elements/attributes, "
                                                 "id-less symbols and attribute-less wrapper groups at every level, processing instructions also inside gradients (incl. ones that take their stops from a template), stops, clip paths, shapes and <use>: identical results", True)


# =========================================================================================== style attributes
def check_styles(repo: Repo, rep: Report, rule: str):
    """apply_style_attributes interpreted on a schematic document, with and without parsed shapes in the cache:
    every declaration of every style attribute (root, groups, shapes, gradient stops) becomes an attribute and wins over
    the presentation attribute of the same element; the style attribute is consumed; nothing else changes."""
    from sa.sym import method_of
    svg = repo["svg"]
    F = "svg.SVG.apply_style_attributes"
    rep.saw(F, "svg.SVG._apply_styles", "svg_meta.parse_css_declarations", "svg_types.SVGShape.apply_style_attribute")
    fn = svg.func("SVG.apply_style_attributes")

    def doc():
        stop = El("stop", {"offset": "0", "style": "stop-color:#ff0000;stop-opacity:0.5"}, name="stop")
        grad = El("linearGradient", {"id": "g"}, [stop], name="grad")
        p1 = El("path", {"id": "p1", "d": pd(("M", (1, 1)), ("L", (2, 2))), "fill": "orange", "stroke-width": "1", "style": "fill:teal; stroke-width : 2 ;opacity:0.5"}, name="p1")
        p2 = El("path", {"id": "p2", "d": pd(("M", (3, 3)), ("L", (4, 4))), "fill": "orange"}, name="p2")
        r1 = El("rect", {"id": "r1", "width": "3", "height": "2", "style": "fill:url(#g);display:none"}, name="r1")
        g = El("g", {"id": "grp", "style": "opacity:0.5;stroke:blue", "opacity": "1"}, [p1, p2, r1], name="grp")
        return El("svg", {"viewBox": "0 0 10 10", "style": "fill:red", "fill": "black"}, [El("defs", {}, [grad]), g], name="root")

    want = {"root": {"fill": "red"}, "stop": {"stop-color": "#ff0000", "stop-opacity": "0.5", "offset": "0"},
            "p1": {"fill": "teal", "stroke-width": "2", "opacity": "0.5", "id": "p1"}, "p2": {"fill": "orange", "id": "p2"},
            "r1": {"fill": "url(#g)", "display": "none", "id": "r1", "width": "3", "height": "2"}, "grp": {"opacity": "0.5", "stroke": "blue", "id": "grp"}}
    probs = []
    for cached in (False, True):
        def body(it, a, k):
            s = a[0]
            if cached:
                it.call(method_of(repo, "svg", "SVG", "shapes"), [s], {})
            it.call(method_of(repo, "svg", "SVG", "apply_style_attributes"), [s], {"inplace": True})
            it.call(method_of(repo, "svg", "SVG", "_update_etree"), [s], {})
            return s

        outs = ok_outcomes(run(repo, body, lambda: ([make_svg(doc())], {})), F)
        for o in outs:
            tag = "with parsed shapes in the cache" if cached else "on the plain tree"
            if o.raised:
                probs.append(f"{tag}: raises {o.raised} ({o.raise_msg})")
                continue
            root = o.args[0].f["svg_root"]
            seen = {}
            for n in root.subtree():
                if not isinstance(n.tag, str):
                    continue
                key = "root" if n is root else ("stop" if n.local() == "stop" else str(n.attrib.get("id", n.local())))
                seen[key] = n
            for key, w in want.items():
                n = seen.get(key)
                if n is None:
                    probs.append(f"{tag}: element {key} vanished")
                    continue
                if "style" in n.attrib and str(n.attrib["style"]).strip():
                    probs.append(f"{tag}: {key} keeps style={n.attrib['style']!r}")
                for a_, v in w.items():
                    got = n.attrib.get(a_)
                    if a_ in ("width", "height", "offset", "id"):
                        continue
                    if got is None and v in ("1",):
                        continue
                    if str(got) != v and not (got is not None and _same_number(got, v)):
                        probs.append(f"{tag}: {key}.{a_} = {got!r}; the style declaration / own attribute gives {v!r}")
            if "p1" in seen and len([c for c in seen.get("grp", root).children if isinstance(c.tag, str)]) != 3:
                probs.append(f"{tag}: children of the group changed")
    if probs:
        u = list(dict.fromkeys(probs))
        rep.fail(rule, F, "style attributes on root, group, shapes and gradient stops", f"{len(u)} deviations; first: {u[0]}", svg, fn)
    else:
        rep.ok(rule, F, "root, group, two paths, a rect and a gradient stop, with and without cached shapes: every declaration becomes an attribute and overrides the element's own attribute; style consumed", True)


def _same_number(a, b):
    try:
        return Fraction(str(a)) == Fraction(str(b))
    except (ValueError, ZeroDivisionError):
        return False


# =========================================================================================== XML entry point
def observe_xml_entry(repo: Repo):
    """Interpret SVG.fromstring / SVG.parse on a literal document and report how lxml is asked to parse it:
    list of (api, parser options or None)."""
    from sa.dom import ParserTok
    from sa.sym import ClassRef, explore
    seen = []
    body = '<svg xmlns="http://www.w3.org/2000/svg" viewBox="0 0 1 1"><!-- c --><path xlink:href="#a" d="M0,0"/></svg>'
    src = '<?xml version="1.0"?>' + body
    # the same document behind internal DTD subsets: the parser options may not depend on what the text declares
    dtds = {
        "an internal entity": '<!ENTITY st0 "fill:#F00;">',
        "an external general entity (SYSTEM)": '<!ENTITY ext SYSTEM "file:///etc/passwd">',
        "an external general entity (PUBLIC)": '<!ENTITY ext PUBLIC "-//X//Y" "file:///etc/passwd">',
        "an external parameter entity": '<!ENTITY % ext SYSTEM "file:///tmp/x.dtd"> %ext;',
        "a parameter entity split over lines": '<!ENTITY\n %\n ext\n SYSTEM "file:///tmp/x.dtd">\n%ext;',
        "nested internal entities": '<!ENTITY a "aaaaaaaaaa"><!ENTITY b "&a;&a;&a;&a;&a;&a;&a;&a;"><!ENTITY c "&b;&b;&b;&b;&b;&b;&b;&b;">',
    }

    class _File(Ext):
        def sym_getattr(self, it, attr):
            if attr == "read":
                return PyCallable(lambda i, a, k: src)
            raise Undecided(f"file.{attr}")

        def sym_hasattr(self, it, attr):
            return attr == "read"

    entries = [("fromstring", src), ("fromstring", src.encode("utf-8")), ("parse", _File())]
    for what, decl in dtds.items():
        entries.append((f"fromstring [document declaring {what}]", '<?xml version="1.0"?><!DOCTYPE svg [' + decl + ']>' + body))
    for entry, arg in entries:
        def setup(it):
            from sa.dom import install_dom
            install_dom(it)
            it.hooks[("svg", "_fix_xlink_ns")] = lambda i, a, k: a[0]
            it._seen_ref = seen

        from sa.sym import method_of
        fn = method_of(repo, "svg", "SVG", entry.split(" ")[0])
        box = {}

        def setup2(it, setup=setup):
            setup(it)
            box["it"] = it

        outs = explore(repo, fn, [], fresh_args=lambda: ([ClassRef("svg", "SVG"), arg], {}), setup=setup2)
        for o in outs:
            if o.undecided:
                raise AnalysisError(f"svg.SVG.{entry}: abstract machine cannot interpret this code: {o.undecided}")
            seen.append((entry, o.raised, list(getattr(box["it"], "xml_parses", []))))
    return seen


def check_xml_entry(repo: Repo, rep: Report, rule: str, need: Dict[str, object], forbid=()):
    """Every way into the library parses through an XMLParser constructed with the options in `need`."""
    svg = repo["svg"]
    F = "svg.SVG.fromstring"
    rep.saw(F, "svg.SVG.parse")
    probs = []
    for entry, raised, parses in observe_xml_entry(repo):
        if raised:
            probs.append(f"SVG.{entry} raises {raised} on a well-formed document")
            continue
        if len(parses) != 1:
            probs.append(f"SVG.{entry} hands the document to lxml {len(parses)} times")
            continue
        api, parser = parses[0]
        if parser is None:
            probs.append(f"SVG.{entry} parses with etree.{api} without an explicit parser (lxml defaults: comments kept, entities resolved)")
            continue
        for k, v in need.items():
            got = parser.options.get(k, "<default>")
            if k == "resolve_entities" and v is False and (got == "internal" or (got is True and "[document declaring" in entry and "external" not in entry and "parameter" not in entry)):
                continue  # expanding entities whose text is in the document itself reads nothing external
            if got != v:
                probs.append(f"SVG.{entry}: XMLParser option {k} is {parser.options.get(k, '<lxml default>')!r}; {v!r} is required")
        for k in forbid:
            if parser.options.get(k) not in (None, False) and not (k == "no_network" and parser.options.get(k) is True):
                probs.append(f"SVG.{entry}: XMLParser option {k}={parser.options[k]!r} enables DTD / network / huge-input handling")
    if probs:
        u = list(dict.fromkeys(probs))
        rep.fail(rule, F, "XMLParser options at the XML entry points", f"{len(u)} deviations; first: {u[0]}", svg, svg.func("SVG.fromstring"))
    else:
        rep.ok(rule, F, f"fromstring (str and bytes) and parse, interpreted: one lxml parse each, through XMLParser with {need}", True)


# =========================================================================================== reference cycles / missing targets
def _ref_docs():
    H = XLINK_HREF

    def tri(i=0):
        return pd(("M", (i, i)), ("L", (i + 2, i)), ("L", (i + 2, i + 2)), ("Z", ()))

    def svg(*kids, defs=()):
        return El("svg", {"viewBox": "0 0 10 10"}, [El("defs", {}, list(defs))] + list(kids), name="root")

    docs = {}
    docs["a <use> of a group that contains the same <use>"] = lambda: svg(El("g", {"id": "a"}, [El("path", {"d": tri()}), El("use", {H: "#a"})]), El("use", {H: "#a"}))
    docs["two groups whose <use> elements reference each other"] = lambda: svg(El("g", {"id": "a"}, [El("use", {H: "#b"})]), El("g", {"id": "b"}, [El("use", {H: "#a"}), El("path", {"d": tri()})]))
    docs["a <use> that references itself"] = lambda: svg(El("use", {"id": "u", H: "#u"}))
    docs["a <use> cycle through an ancestor"] = lambda: svg(El("g", {"id": "a"}, [El("g", {}, [El("use", {H: "#a"})])]))
    docs["a clipPath clipped by itself"] = lambda: svg(El("path", {"d": tri(), "clip-path": "url(#c)"}), defs=[El("clipPath", {"id": "c", "clip-path": "url(#c)"}, [El("rect", {"width": "3", "height": "3"})])])
    docs["two clipPaths clipping each other"] = lambda: svg(El("path", {"d": tri(), "clip-path": "url(#c)"}),
                                                            defs=[El("clipPath", {"id": "c", "clip-path": "url(#d)"}, [El("rect", {"width": "3", "height": "3"})]),
                                                                  El("clipPath", {"id": "d", "clip-path": "url(#c)"}, [El("rect", {"width": "2", "height": "2"})])])
    docs["a clipPath whose child is clipped by that clipPath"] = lambda: svg(El("path", {"d": tri(), "clip-path": "url(#c)"}),
                                                                            defs=[El("clipPath", {"id": "c"}, [El("rect", {"width": "3", "height": "3", "clip-path": "url(#c)"})])])
    docs["a clipPath that contains a <use> of an element clipped by it"] = lambda: svg(El("path", {"id": "p", "d": tri(), "clip-path": "url(#c)"}),
                                                                                      defs=[El("clipPath", {"id": "c"}, [El("use", {H: "#p"})])])
    docs["two gradients that are each other's template"] = lambda: svg(El("path", {"d": tri(), "fill": "url(#g1)"}),
                                                                       defs=[El("linearGradient", {"id": "g1", H: "#g2"}), El("linearGradient", {"id": "g2", H: "#g1"}, [El("stop", {"offset": "0"})])])
    docs["a gradient that is its own template"] = lambda: svg(El("path", {"d": tri(), "fill": "url(#g1)", "transform": "tR"}), defs=[El("linearGradient", {"id": "g1", H: "#g1"})])
    docs["a <use> without target"] = lambda: svg(El("use", {H: "#nope"}))
    docs["a clip-path without target"] = lambda: svg(El("path", {"d": tri(), "clip-path": "url(#nope)"}))
    docs["a fill without target"] = lambda: svg(El("path", {"d": tri(), "fill": "url(#nope)", "transform": "tR"}))
    docs["a gradient template without target"] = lambda: svg(El("path", {"d": tri(), "fill": "url(#g1)"}), defs=[El("linearGradient", {"id": "g1", H: "#nope"})])
    docs["a gradient whose template chain runs into a cycle further down (g0 -> g1 -> g2 -> g1)"] = lambda: svg(El("path", {"d": tri(), "fill": "url(#g0)"}),
        defs=[El("linearGradient", {"id": "g0", H: "#g1"}), El("linearGradient", {"id": "g1", H: "#g2"}), El("linearGradient", {"id": "g2", H: "#g1"}, [El("stop", {"offset": "0"})])])
    docs["the same gradient chain with the tail last in document order"] = lambda: svg(El("path", {"d": tri(), "fill": "url(#g0)"}),
        defs=[El("linearGradient", {"id": "g1", H: "#g2"}), El("linearGradient", {"id": "g2", H: "#g1"}, [El("stop", {"offset": "0"})]), El("linearGradient", {"id": "g0", H: "#g1"})])
    docs["the same gradient chain reached from a transformed shape"] = lambda: svg(El("g", {"transform": "tA"}, [El("path", {"d": tri(), "fill": "url(#g0)"})]),
        defs=[El("linearGradient", {"id": "g0", H: "#g1"}), El("linearGradient", {"id": "g1", H: "#g2"}), El("linearGradient", {"id": "g2", H: "#g1"}, [El("stop", {"offset": "0"})])])
    docs["a <use> chain that runs into a cycle further down (a -> b -> c -> b)"] = lambda: svg(El("use", {H: "#a"}), defs=[El("g", {"id": "a"}, [El("use", {H: "#b"})]), El("g", {"id": "b"}, [El("use", {H: "#c"})]),
                                                                                                                       El("g", {"id": "c"}, [El("path", {"d": tri()}), El("use", {H: "#b"})])])
    docs["a clip-path chain that runs into a cycle further down (c0 -> c1 -> c2 -> c1)"] = lambda: svg(El("path", {"d": tri(), "clip-path": "url(#c0)"}),
        defs=[El("clipPath", {"id": "c0", "clip-path": "url(#c1)"}, [El("rect", {"width": "3", "height": "3"})]), El("clipPath", {"id": "c1", "clip-path": "url(#c2)"}, [El("rect", {"width": "2", "height": "2"})]),
              El("clipPath", {"id": "c2", "clip-path": "url(#c1)"}, [El("rect", {"width": "1", "height": "1"})])])
    docs["a gradient template chain of length three without a cycle"] = lambda: svg(El("path", {"d": tri(), "fill": "url(#g0)"}),
        defs=[El("linearGradient", {"id": "g0", H: "#g1"}), El("linearGradient", {"id": "g1", H: "#g2", "x2": "0.5"}), El("linearGradient", {"id": "g2"}, [El("stop", {"offset": "0"})])])
    docs["a <use> cycle written with a trailing blank in the reference"] = lambda: svg(El("g", {"id": "a"}, [El("path", {"d": tri()}), El("use", {H: "#a "})]), El("use", {H: "#a"}))
    docs["a <use> cycle written with a line break in the reference"] = lambda: svg(El("g", {"id": "a"}, [El("use", {H: "#b\n"})]), El("g", {"id": "b"}, [El("use", {H: " #a"}), El("path", {"d": tri()})]))
    docs["a <use> with the SVG 2 href attribute in a cycle"] = lambda: svg(El("g", {"id": "a"}, [El("path", {"d": tri()}), El("use", {"href": "#a"})]), El("use", {"href": "#a"}))
    return docs


def check_reference_cycles(repo: Repo, rep: Report, rule: str):
    """topicosvg interpreted on documents with cyclic and dangling references: every run ends (normally or with an
    exception, deep recursion counts as Python's RecursionError) within the step budget of the abstract machine."""
    svg = repo["svg"]
    F = "svg.SVG.topicosvg"
    rep.saw(F, "svg.SVG._resolve_use", "svg.SVG._check_use_acyclic", "svg.SVG._resolve_clip_path", "svg.SVG._apply_gradient_template")
    from sa.sym import method_of
    probs, n = [], 0
    for title, doc in _ref_docs().items():
        def body(it, a, k):
            it.call(method_of(repo, "svg", "SVG", "topicosvg"), [a[0]], {"inplace": True})
            return a[0]
        outs = run(repo, body, lambda doc=doc: ([make_svg(doc())], {}), max_paths=64, area=lambda g: 7)
        for o in outs:
            n += 1
            if o.undecided and ("step budget exceeded" in o.undecided or "while loop bound exceeded" in o.undecided or "exceeded" in o.undecided and "paths" in o.undecided
                                or "python recursion limit in the evaluator" in o.undecided):
                probs.append(f"{title}: the conversion does not end (the abstract machine ran out of steps: {o.undecided})")
            elif o.undecided and "recursion too deep" in o.undecided:
                continue  # unbounded recursion ends in Python's RecursionError: an exception, as the property allows
            elif o.undecided:
                raise AnalysisError(f"{F}: abstract machine cannot interpret this code on {title!r}: {o.undecided}")
    if probs:
        u = list(dict.fromkeys(probs))
        rep.fail(rule, F, "documents with cyclic or dangling references", f"{len(u)} of {len(_ref_docs())} documents: {u[0]}", svg, svg.func("SVG.topicosvg"))
    else:
        rep.ok(rule, F + " [reference cycles]", f"{len(_ref_docs())} documents with use / clip-path / gradient-template cycles and missing targets, {n} runs: each ends (result or exception)", True)


# =========================================================================================== pruning of invisible content
def check_prune(repo: Repo, rep: Report, rules: Dict[str, str]):
    """rules: 'shapes' (remove_unpainted_shapes removes exactly the shapes that cannot paint under the paint the cascade
    gives them), 'subpaths' (remove_empty_subpaths drops exactly the subpaths that cannot paint under the path's own paint),
    'area' (the area question is asked for the shape's own geometry under its own fill rule)"""
    from sa.sym import method_of
    svg = repo["svg"]
    st = repo["svg_types"]
    probs = {"shapes": [], "subpaths": [], "area": []}
    asked = []

    def area(g, rule="nonzero"):
        t = repr(g)
        if "(70, 70)" in t or "(80, 80)" in t:
            return 0 if rule == "evenodd" else 7  # a contour drawn twice in the same direction: nothing under evenodd
        return 0 if ("(50, 50)" in t or "(60, 60)" in t) else 7

    def twice(i):
        return pd(("M", (i, i)), ("L", (i + 2, i)), ("L", (i + 2, i + 2)), ("Z", ()), ("M", (i, i)), ("L", (i + 2, i)), ("L", (i + 2, i + 2)), ("Z", ()))

    def tri(i):
        return pd(("M", (i, i)), ("L", (i + 2, i)), ("L", (i + 2, i + 2)), ("Z", ()))

    def flat(i):
        return pd(("M", (i, i)), ("L", (i + 1, i + 1)))

    def doc():
        kids = [
            El("path", {"id": "painted", "d": tri(1)}), El("path", {"id": "flat", "d": flat(50)}),
            El("path", {"id": "flat-stroked", "d": flat(60), "stroke": "blue"}),
            El("g", {"stroke": "green", "id": "gs"}, [El("path", {"id": "flat-inherits-stroke", "d": flat(60), "fill": "none"}), El("path", {"id": "sibling", "d": tri(5)})]),
            El("g", {"display": "none", "id": "gd"}, [El("path", {"id": "hidden-by-group", "d": tri(9)}), El("path", {"id": "hidden2", "d": tri(12)})]),
            El("path", {"id": "transparent", "d": tri(15), "opacity": "0"}),
            El("path", {"id": "no-fill", "d": tri(18), "fill": "none"}),
            El("path", {"id": "evenodd", "d": tri(21), "fill-rule": "evenodd"}),
            El("path", {"id": "moves", "d": pd(("M", (1, 1)), ("M", (2, 2))), "stroke": "red"}),
            El("rect", {"id": "rect", "width": "3", "height": "2"}),
            El("path", {"id": "faint", "d": tri(24), "opacity": "0.004", "fill-opacity": "0.5"}),
            # the same outline judged twice under different fill rules (rule from a style declaration / from the attribute), in both orders
            El("path", {"id": "twice-eo-style", "d": twice(70), "style": "fill-rule:evenodd"}), El("path", {"id": "twice-nz", "d": twice(70)}),
            El("path", {"id": "twice-nz-2", "d": twice(80)}), El("path", {"id": "twice-eo-attr", "d": twice(80), "fill-rule": "evenodd"}),
            El("g", {"fill-rule": "evenodd", "id": "geo"}, [El("path", {"id": "twice-eo-inherited", "d": twice(80)}), El("path", {"id": "twice-nz-own", "d": twice(80), "fill-rule": "nonzero"})]),
        ]
        return El("svg", {"viewBox": "0 0 100 100"}, kids, name="root")

    want_left = ["painted", "flat-stroked", "flat-inherits-stroke", "sibling", "evenodd", "rect", "faint", "twice-nz", "twice-nz-2", "twice-nz-own"]

    def extra(it):
        base = it.hooks[("svg_pathops", "path_area")]

        def pa(i, a, k):
            asked.append((repr(a[0]), k.get("fill_rule", a[1] if len(a) > 1 else None)))
            return base(i, a, k)
        it.hooks[("svg_pathops", "path_area")] = pa

    F = "svg.SVG.remove_unpainted_shapes"
    rep.saw(F, "svg_types.SVGShape.might_paint", "svg_types.SVGPath.remove_empty_subpaths")
    for inplace in (True, False):
        outs = ok_outcomes(run(repo, "SVG.remove_unpainted_shapes", lambda: ([make_svg(doc())], {"inplace": inplace}), setup_extra=extra, area=area), F)
        for o in outs:
            if o.raised:
                probs["shapes"].append(f"raises {o.raised} ({o.raise_msg})")
                continue
            res = o.value.f["svg_root"] if isinstance(o.value, Rec) else None
            if res is None:
                probs["shapes"].append("remove_unpainted_shapes does not return an SVG")
                continue
            left = [str(n.attrib.get("id")) for n in _paths_under(res)]
            if left != want_left:
                gone = [i for i in want_left if i not in left]
                kept = [i for i in left if i not in want_left]
                probs["shapes"].append(f"shapes {gone} were removed although they paint (own or inherited stroke / area > 0) and {kept} were kept although they cannot paint"
                                       if gone or kept else f"order changed: {left}")
            if not inplace and [str(n.attrib.get("id")) for n in _paths_under(o.args[0].f["svg_root"])] != [str(n.attrib.get("id")) for n in _paths_under(doc())]:
                probs["shapes"].append("the copying form modifies the receiver")
    eo = [r for g, r in asked if "(21, 21)" in g]
    if eo and any(r != "evenodd" for r in eo):
        probs["area"].append(f"the area of an evenodd shape is asked under rule {sorted(set(map(str, eo)))}")
    if not asked:
        probs["area"].append("no area question reaches the engine")
    # ---- subpaths
    F2 = "svg_types.SVGPath.remove_empty_subpaths"
    from sa.pathsem import new_path
    sub = [("M", (1, 1)), ("L", (3, 1)), ("L", (3, 3)), ("Z", ()), ("M", (50, 50)), ("L", (51, 51)), ("M", (8, 8)), ("M", (1, 1)), ("L", (3, 1)), ("L", (3, 3)), ("Z", ()), ("M", (60, 60)), ("L", (61, 60))]
    for stroke, want in (("none", [0, 7]), ("blue", [0, 4, 7, 11])):
        def build(stroke=stroke):
            return ([new_path(repo, [(c, tuple(a)) for c, a in sub], stroke=stroke, stroke_width=1, fill="black", opacity=1.0, fill_opacity=1.0, stroke_opacity=1.0, display="inline", style="",
                              fill_rule="nonzero", clip_rule="nonzero")], {})
        fn = method_of(repo, "svg_types", "SVGPath", "remove_empty_subpaths")

        def setup(it):
            from sa.machine import install_machine
            install_machine(it, area=area)

        from sa.sym import explore
        for o in explore(repo, fn, [], fresh_args=build, setup=setup, max_paths=64):
            if o.undecided:
                raise AnalysisError(f"{F2}: abstract machine cannot interpret this code: {o.undecided}")
            if o.raised:
                probs["subpaths"].append(f"stroke={stroke}: raises {o.raised} ({o.raise_msg})")
                continue
            d = o.value.f.get("d") if isinstance(o.value, Rec) else None
            got = [c for c in (d.cmds if isinstance(d, PathData) else [])]
            starts = [tuple(a) for c, a in got if c in ("M", "m")]
            exp = [tuple(sub[i][1]) for i in want]
            if starts != exp:
                probs["subpaths"].append(f"stroke={stroke}: subpaths starting at {starts} survive; with this paint the ones that can paint start at {exp} "
                                         "(a repeated contour is kept, a zero-area contour is kept only when a stroke paints it, a lone move is dropped)")
    what = {"shapes": "removal of unpainted shapes", "subpaths": "removal of empty subpaths", "area": "area question"}
    for k, rid in rules.items():
        Fk = F2 if k == "subpaths" else F
        mod = st if k == "subpaths" else svg
        if probs[k]:
            u = list(dict.fromkeys(probs[k]))
            rep.fail(rid, Fk, what[k], f"{len(u)} deviations; first: {u[0]}", mod, mod.functions.get(Fk.split(".", 1)[1]))
        else:
            rep.ok(rid, Fk + f" [{what[k]}]", "schematic document (painted, zero-area, own / inherited stroke, display:none group, transparent, unfilled, moves only) and a 5-contour path, with and without stroke: exactly the unpaintable parts go", True)


# =========================================================================================== determinism (relational)
def check_set_order_independence(repo: Repo, rep: Report, rule: str):
    """topicosvg interpreted twice on the schematic document, with sets (and the module-level tables derived from sets)
    iterated in two opposite orders: the converted documents are identical."""
    from sa.sym import Interp
    svg = repo["svg"]
    F = "svg.SVG.topicosvg"
    structs = []
    for rev in (False, True):
        Interp._modcache = {}

        def extra(it, rev=rev):
            it.set_order_reversed = rev

        def body(it, a, k):
            from sa.sym import method_of
            it.call(method_of(repo, "svg", "SVG", "topicosvg"), [a[0]], dict(k))
            return a[0]
        outs = ok_outcomes(run(repo, body, lambda: ([make_svg(_order_doc())], {"inplace": True, "allow_text": True}), setup_extra=extra, max_paths=64, area=_pipeline_area), F)
        structs.append([("raises " + o.raised) if o.raised else _full_struct(o.args[0].f["svg_root"], attr_order=True) for o in outs])
    Interp._modcache = {}
    a, b = structs
    if len(a) != len(b):
        rep.fail(rule, F, "conversion under two set iteration orders", f"{len(a)} paths under one order, {len(b)} under the other", svg, svg.func("SVG.topicosvg"))
        return
    for x, y in zip(a, b):
        if x != y:
            d = _struct_diffs(x, y)[:2] if isinstance(x, tuple) and isinstance(y, tuple) else [f"{str(x)[:80]} vs {str(y)[:80]}"]
            rep.fail(rule, F, "conversion under two set iteration orders", "the converted document depends on the iteration order of a set (hash order varies between runs): " + "; ".join(d), svg, svg.func("SVG.topicosvg"))
            return
    # attribute editing operations of the public API
    res = []
    for rev in (False, True):
        Interp._modcache = {}

        def extra2(it, rev=rev):
            it.set_order_reversed = rev

        def body2(it, a, k):
            from sa.sym import method_of
            it.call(method_of(repo, "svg", "SVG", "set_attributes"), [a[0], (("data-b", "2"), ("data-a", "1"), ("data-c", "3"))], {"inplace": True})
            it.call(method_of(repo, "svg", "SVG", "remove_attributes"), [a[0], ("fill", "viewBox")], {"inplace": True})
            return a[0]
        outs = ok_outcomes(run(repo, body2, lambda: ([make_svg(El("svg", {"viewBox": "0 0 1 1", "fill": "red", "id": "r"}, [El("path", {"d": pd(("M", (0, 0)))})]))], {}), setup_extra=extra2), "svg.SVG.set_attributes")
        res.append([("raises " + o.raised) if o.raised else _full_struct(o.args[0].f["svg_root"], attr_order=True) for o in outs])
    Interp._modcache = {}
    if res[0] != res[1]:
        rep.fail(rule, "svg.SVG.set_attributes", "set_attributes / remove_attributes under two set iteration orders", "the order in which attributes are written depends on the iteration order of a set: " +
                 "; ".join(_struct_diffs(res[0][0], res[1][0])[:2] if isinstance(res[0][0], tuple) and isinstance(res[1][0], tuple) else ["different outcomes"]), svg, svg.functions.get("SVG.set_attributes"))
        return
    rep.ok(rule, F + " [set order]", "schematic document converted (and attributes set / removed) with sets iterated in two opposite orders: identical results", True)


def _order_doc():
    """The pipeline document plus gradients with id'd, attribute-rich stops under transformed shapes."""
    r = _pipeline_doc()
    defs = next(c for c in r.children if isinstance(c.tag, str) and c.local() == "defs")
    g = El("radialGradient", {"id": "gs", "cx": "0.4", "fy": "0.3", "spreadMethod": "reflect", "gradientUnits": "userSpaceOnUse"},
           [El("stop", {"id": "sa", "offset": "0", "stop-color": "red", "stop-opacity": "0.5"}), El("stop", {"id": "sb", "stop-opacity": "0.25", "stop-color": "blue", "offset": "1"})])
    defs._append(g)
    r._append(El("text", {"id": "txt", "x": "1", "y": "2"}, [El("tspan", {"id": "ts"})]))
    r._append(El("path", {"id": "og", "fill": "url(#gs)", "transform": "tO", "stroke-linejoin": "round", "stroke-linecap": "square", "stroke": "black", "stroke-dasharray": "1 2",
                          "d": pd(("M", (30, 50)), ("L", (33, 50)), ("L", (33, 53)), ("Z", ()))}))
    return r


def check_history_independence(repo: Repo, rep: Report, rule: str):
    """Two documents converted one after the other by the same interpreter (one process: module-level state and
    functools caches persist): the second result equals the result of converting that document alone."""
    from sa.sym import Interp, method_of
    svg = repo["svg"]
    F = "svg.SVG.topicosvg"

    def other_doc():
        # same shapes and ids as the main document, different view box (tolerance) and paints
        r = _order_doc()
        r.attrib["viewBox"] = "0 0 1000 1000"
        r.attrib["fill"] = "blue"
        return r

    def convert(it, root):
        s = it.construct(ClassRef("svg", "SVG"), [root], {})
        it.call(method_of(repo, "svg", "SVG", "topicosvg"), [s], {"inplace": True, "allow_text": True})
        return s.f["svg_root"]

    def prefixed_doc():
        # svg content written with a prefix while the default namespace is another vocabulary: what happens to its
        # un-namespaced attributes may not depend on the documents seen before
        r = _order_doc()
        r._nsmap = {"svg": "http://www.w3.org/2000/svg", None: "http://www.w3.org/1999/xhtml", "xlink": "http://www.w3.org/1999/xlink"}
        return r

    results = {}
    for name, docs in (("alone", [_order_doc]), ("after another document", [other_doc, _order_doc]),
                       ("prefixed alone", [prefixed_doc]), ("prefixed after another document", [_order_doc, prefixed_doc])):
        Interp._modcache = {}

        def body(it, a, k, docs=docs):
            out = None
            for d in docs:
                out = convert(it, d())
            return out
        outs = ok_outcomes(run(repo, body, lambda: ([], {}), max_paths=256, area=_pipeline_area), F)
        results[name] = sorted({("raises " + o.raised) if o.raised else repr(_full_struct(o.value, attr_order=True)) for o in outs})
    Interp._modcache = {}
    if results["alone"] == results["after another document"] and results["prefixed alone"] != results["prefixed after another document"]:
        results["alone"], results["after another document"] = results["prefixed alone"], results["prefixed after another document"]
    if results["alone"] != results["after another document"]:
        a, b = results["alone"], results["after another document"]
        diff = "different results"
        try:
            import ast as _ast
            diff = "; ".join(_struct_diffs(_ast.literal_eval(a[0]), _ast.literal_eval(b[0]))[:2])
        except Exception:
            pass
        rep.fail(rule, F, "conversion after another conversion in the same process", "the result of converting a document depends on the documents converted before it in the same process: " + diff, svg, svg.func("SVG.topicosvg"))
    else:
        rep.ok(rule, F + " [history]", "schematic document converted alone and after another document (same ids, other view box and paints), and a document whose svg content is prefixed under a foreign default namespace alone and after an ordinary one, in one interpreter with persistent caches: identical results", True)


# =========================================================================================== command line
class _FlagVal(Ext):
    """The value of a command-line flag: opaque, its truth / comparisons are decided both ways."""

    def __init__(self, name):
        self.name = name

    def sym_truth(self, it):
        return it.decide(Cond("flag-set", (self.name,)))

    def sym_eq(self, it, other):
        if isinstance(other, _FlagVal):
            return other.name == self.name
        return it.decide(Cond("flag-equals", (self.name, repr(other))))

    def sym_copy(self):
        return self

    def __repr__(self):
        return f"FLAGS.{self.name}"


class _Flags(Ext):
    def sym_getattr(self, it, attr):
        return _FlagVal(attr)

    def sym_copy(self):
        return self


class _CliSvg(Ext):
    """What the command line does with the document: a log of the calls made on it."""

    def __init__(self, log, origin):
        self.log, self.origin = log, origin

    def sym_copy(self):
        return self

    def sym_truth(self, it):
        return True

    def sym_getattr(self, it, attr):
        def call(i, a, k):
            self.log.append((attr, tuple(a), dict(k)))
            if attr == "tostring":
                return "<serialised document>"
            return self
        return PyCallable(call)


class _Sink(Ext):
    def __init__(self, log, name):
        self.log, self.name = log, name

    def sym_enter(self, it):
        return self

    def sym_exit(self, it):
        self.log.append(("close", self.name))

    def sym_copy(self):
        return self

    def sym_getattr(self, it, attr):
        if attr == "write":
            return PyCallable(lambda i, a, k: self.log.append(("write", self.name, a[0])))
        if attr == "read":
            return PyCallable(lambda i, a, k: "<text read from " + repr(self.name) + ">")
        if attr == "close":
            return PyCallable(lambda i, a, k: self.log.append(("close", self.name)))
        raise Undecided(f"file.{attr}")


class _SysMod(Ext):
    def __init__(self, log):
        self.log = log

    def sym_getattr(self, it, attr):
        if attr in ("stdin", "stdout", "stderr"):
            return _Sink(self.log, attr)
        if attr == "argv":
            return ["picosvg", "in.svg"]
        raise Undecided(f"sys.{attr}")


class _AbslMod(Ext):
    def sym_getattr(self, it, attr):
        if attr == "flags":
            return self
        if attr == "FLAGS":
            return _Flags()
        if attr == "app":
            return self
        return PyCallable(lambda i, a, k: None)


def check_cli(repo: Repo, rep: Report, rules: Dict[str, str]):
    """The command line entry interpreted with opaque flag values, for an input file and for standard input:
    rules: 'options' (allow_text / drop_unsupported reach topicosvg under their own names), 'clip' (clip_to_viewbox only under its
    flag, after the conversion, on the converted document), 'output' (what is written is the serialisation of that document)."""
    cli = repo["picosvg"]
    F = "picosvg._run"
    rep.saw(F)
    fn = cli.func("_run")
    from sa.sym import closure_of, explore
    probs: Dict[str, List[str]] = {k: [] for k in ("options", "clip", "output")}
    n = 0
    class _Argv(list):
        log = None

    for argv in (["picosvg", "in.svg"], ["picosvg"]):
        cur = [None]

        def fresh(argv=argv, cur=cur):
            a = _Argv(argv)
            a.log = cur[0]
            return ([a], {})

        def setup(it, cur=cur):
            log = []
            cur[0] = log
            if not hasattr(it, "ext_modules"):
                it.ext_modules = {}
            it.ext_modules["sys"] = _SysMod(log)
            it.ext_modules["absl"] = _AbslMod()
            it._modcache[("picosvg", "FLAGS", None)] = _Flags()
            it.hooks[("svg", "SVG.parse")] = lambda i, a, k: _CliSvg(log, ("parse", a[-1]))
            it.hooks[("svg", "SVG.fromstring")] = lambda i, a, k: _CliSvg(log, ("fromstring", a[-1]))
            it.external["open"] = lambda i, a, k: (log.append(("open", a[0], a[1] if len(a) > 1 else k.get("mode", "r"))) or _Sink(log, a[0]))

        outs = explore(repo, closure_of(repo, "picosvg", "_run"), [], fresh_args=fresh, setup=setup, max_paths=64)
        for o in outs:
            log = o.args[0].log if o.args else []
            n += 1
            if o.undecided:
                raise AnalysisError(f"{F}: abstract machine cannot interpret the command line entry: {o.undecided}")
            if o.raised:
                probs["output"].append(f"argv={argv}: raises {o.raised}")
                continue
            dec = {(c.op, c.args): v for c, v in o.decisions if isinstance(c, Cond)}
            clip_on = dec.get(("flag-set", ("clip_to_viewbox",)))
            calls = [e for e in log if e and e[0] in ("topicosvg", "clip_to_viewbox", "tostring")]
            conv = [e for e in calls if e[0] == "topicosvg"]
            if len(conv) != 1:
                probs["options"].append(f"argv={argv}: topicosvg is called {len(conv)} times")
                continue
            kw = conv[0][2]
            for opt in ("allow_text", "drop_unsupported"):
                v = kw.get(opt)
                if not (isinstance(v, _FlagVal) and v.name == opt):
                    probs["options"].append(f"topicosvg receives {opt}={v!r}; the command line flag --{opt} must reach it under its own name")
            for k_, v in kw.items():
                if isinstance(v, _FlagVal) and v.name != k_:
                    probs["options"].append(f"topicosvg option {k_} is fed from the flag --{v.name}")
            order = [e[0] for e in calls]
            clips = [e for e in calls if e[0] == "clip_to_viewbox"]
            if clip_on is True and (len(clips) != 1 or order.index("clip_to_viewbox") < order.index("topicosvg")):
                probs["clip"].append(f"with --clip_to_viewbox the calls are {order}; clipping must happen once, after the conversion")
            if clip_on is not True and clips:
                probs["clip"].append(f"without --clip_to_viewbox the document is clipped all the same (calls {order})")
            if clip_on is None and not clips and ("flag-set", ("clip_to_viewbox",)) not in dec:
                pass
            if not order or order[-1] != "tostring":
                probs["output"].append(f"argv={argv}: the last thing done with the document is {order[-1:] or 'nothing'}, not its serialisation")
            written = [e for e in log if e and e[0] == "write"]
            if ("flag-equals", ("output_file", "'-'")) in dec and dec[("flag-equals", ("output_file", "'-'"))] is False:
                if not written or written[-1][2] != "<serialised document>":
                    probs["output"].append("with --output_file the serialised document is not what is written to the file")
    flag_seen = False
    for o_ in ():
        pass
    for cat, rule in rules.items():
        if probs.get(cat):
            u = list(dict.fromkeys(probs[cat]))
            rep.fail(rule, F, {"options": "flags reach topicosvg", "clip": "clip_to_viewbox under its flag", "output": "output of the command line"}[cat],
                     f"{len(u)} deviations; first: {u[0]}"[:500], cli, fn)
        else:
            rep.ok(rule, F + f" [{cat}]", {"options": f"{n} interpreted runs (file / stdin x flag values): allow_text and drop_unsupported reach topicosvg under their own names, no flag feeds another option",
                                           "clip": "clip_to_viewbox is applied exactly when its flag is set, once, after the conversion",
                                           "output": "the serialisation of the converted document is what is printed / written"}[cat], True)

"""Semantic site checks: methods of class SVG interpreted by the abstract machine (sa.machine) on schematic
documents; what they *do* (resulting tree, geometry terms, traversal contexts, event traces) is compared with
reference expectations written from the SVG specification / README.  Independent of how the code is spelled."""
from __future__ import annotations

from fractions import Fraction
from typing import Dict, List, Optional, Tuple

from sa.core import AnalysisError, Repo, Report
from sa.dom import AffTok, El, ETREE_COMMENT, ETREE_PI, parse_affine
from sa.machine import GeomTok, N, NumAttr, Trace, geom_of, make_svg, ok_outcomes, run
from sa.pathsem import PathData
from sa.poly import RF
from sa.sym import ClassRef, Cond, Ext, PyCallable, Rec, SymStr, Undecided

S = RF.sym


def pd(*letters_pts):
    return PathData([(l, tuple(S(x) if isinstance(x, str) else x for x in a)) for l, a in letters_pts])


# =========================================================================================== traversal
class ClipTok(Ext):
    def __init__(self, url, transform):
        self.url, self.transform = url, transform

    def sym_eq(self, it, other):
        return isinstance(other, ClipTok) and other.url == self.url and repr(other.transform) == repr(self.transform)

    def sym_copy(self):
        return self

    def __repr__(self):
        return f"Clip({self.url} @ {self.transform!r})"


def _trav_doc():
    p1 = El("path", {"d": pd(("M", (0, 0))), "id": "p1"}, name="p1")
    p2 = El("path", {"d": pd(("M", (1, 1))), "transform": "tB", "clip-path": "url(#c)", "fill": "blue"}, name="p2")
    p3 = El("path", {"d": pd(("M", (2, 2))), "stroke": "green"}, name="p3")
    g2 = El("g", {"clip-path": "none", "fill": "yellow"}, [p3], name="g2")
    g1 = El("g", {"transform": "tA", "opacity": "0.5", "clip-path": "url(#c)", "stroke-width": "3"}, [p1, El(ETREE_COMMENT, name="c1"), p2, g2], name="g1")
    p4 = El("path", {"d": pd(("M", (3, 3))), "clip-path": ""}, name="p4")
    clip = El("clipPath", {"id": "c"}, [El("rect", {"width": "4", "height": "3"}, name="cr")], name="clip")
    defs = El("defs", {}, [clip], name="defs")
    root = El("svg", {"viewBox": "0 0 10 10", "fill": "red"}, [El(ETREE_COMMENT, name="c0"), defs, g1, El(ETREE_PI, name="pi"), p4], name="root")
    return root


def _ref_traverse(root: El):
    """Reference: document-order walk skipping comments/PIs, nth-of-type per tag among element siblings."""
    out = []

    def rec(el, path, tf, clips, inherited):
        out.append((el.name, path, tf, clips))
        counts: Dict[str, int] = {}
        for ch in el.children:
            if not isinstance(ch.tag, str):
                continue
            loc = ch.local()
            n = counts.get(loc, 0)
            counts[loc] = n + 1
            ctf = ((f"parse({ch.attrib['transform']})",) if ch.attrib.get("transform") else ()) + tf
            cclips = clips
            cp = ch.attrib.get("clip-path")
            if cp and cp != "none":
                cclips = clips + ((cp, ctf),)
            rec(ch, f"{path}/{loc}[{n}]", ctf, cclips, None)

    rec(root, "/svg[0]", (), (), None)
    return out


def check_traverse(repo: Repo, rep: Report, rules: Dict[str, str]):
    """rules: subset of {'paths','ctm','clips','attrib','order'} -> rule id to report under."""
    svg = repo["svg"]
    F = "svg.SVG._traverse"
    rep.saw(F, "svg.SVG.depth_first", "svg.SVG.breadth_first", "svg._element_transform", "svg._attrib_to_pass_on")
    holder = {}

    def build():
        root = _trav_doc()
        holder["root"] = root
        return ([make_svg(root)], {})

    def extra(it):
        it.hooks[("svg", "SVG._resolve_clip_path")] = lambda i, a, k: ClipTok(a[1], a[2] if len(a) > 2 else k.get("transform", AffTok()))

    outs = ok_outcomes(run(repo, "SVG.depth_first", build, setup_extra=extra), F)
    if len(outs) != 1 or outs[0].raised:
        raise AnalysisError(f"{F}: traversal of the schematic document did not complete ({outs[0].raised if outs else ''})")
    ctxs = list(outs[0].value)
    ref = _ref_traverse(holder["root"])
    got_names = [c.f["element"].name for c in ctxs]
    fn = svg.func("SVG._traverse")
    if "order" in rules or "paths" in rules:
        if got_names != [r[0] for r in ref]:
            rep.fail(rules.get("order", rules.get("paths")), F, "depth_first() element order",
                     f"depth-first traversal visits {got_names}; document order without comments/processing instructions is {[r[0] for r in ref]}", svg, fn)
            return
        rep.ok(rules.get("order", rules.get("paths")), F + " [order]", f"{len(ctxs)} elements in document order, comments and processing instructions skipped", True)
    by = {r[0]: r for r in ref}
    bad = {k: [] for k in rules}
    for c in ctxs:
        name = c.f["element"].name
        _, path, tf, clips = by[name]
        if "paths" in rules and c.f["path"] != path:
            bad["paths"].append(f"{name}: path {c.f['path']!r}, expected {path!r} (/name[n], n counted per tag among element siblings)")
        if "ctm" in rules:
            got = c.f["transform"].app if isinstance(c.f["transform"], AffTok) else None
            if got != tf:
                bad["ctm"].append(f"{name}: CTM applies {got}, expected own transform first then the ancestors' {tf}")
        if "clips" in rules:
            got = tuple((cl.url, cl.transform.app) for cl in c.f["clips"]) if all(isinstance(cl, ClipTok) for cl in c.f["clips"]) else None
            if got != clips:
                bad["clips"].append(f"{name}: clips {got}, expected the ancestors' clips followed by its own resolved with its own CTM {clips}")
        if "attrib" in rules:
            at = c.f["attrib"]
            exp_fill = {"root": "red", "defs": "red", "clip": "red", "cr": "red", "g1": "red", "p1": "red", "p2": "blue", "g2": "yellow", "p3": "yellow", "p4": "red"}[name]
            exp_sw = "3" if name in ("g1", "p1", "p2", "g2", "p3") else "1"
            exp_stroke = "green" if name == "p3" else "none"
            if at.get("fill") != exp_fill or str(at.get("stroke-width")) != exp_sw or at.get("stroke") != exp_stroke:
                bad["attrib"].append(f"{name}: context has fill={at.get('fill')} stroke={at.get('stroke')} stroke-width={at.get('stroke-width')}; cascade gives fill={exp_fill} stroke={exp_stroke} stroke-width={exp_sw}")
            if any(k in at for k in ("opacity", "transform", "clip-path", "id")):
                bad["attrib"].append(f"{name}: context carries non-inherited attributes {sorted(k for k in at if k in ('opacity', 'transform', 'clip-path', 'id'))}")
    for k, rid in rules.items():
        if k == "order":
            continue
        what = {"paths": "element paths", "ctm": "accumulated transforms", "clips": "clip stacks", "attrib": "inherited attribute contexts"}[k]
        if bad[k]:
            rep.fail(rid, F, f"{what} on the schematic document", f"{len(bad[k])} contexts wrong; first: {bad[k][0]}", svg, fn)
        else:
            rep.ok(rid, F + f" [{what}]", f"{len(ctxs)} contexts equal the reference ({what})", True)
    # breadth-first: level order, and no clip resolution when asked not to
    outs = ok_outcomes(run(repo, "SVG.breadth_first", lambda: (build()[0], {"resolve_clip_paths": False}), setup_extra=extra), F)
    if outs[0].raised:
        raise AnalysisError(f"{F}: breadth_first did not complete")
    b = list(outs[0].value)
    depth = [c.f["path"].count("/") for c in b]
    if "order" in rules:
        if depth != sorted(depth) or any(c.f["clips"] for c in b):
            rep.fail(rules["order"], "svg.SVG.breadth_first", "breadth_first(resolve_clip_paths=False)", "not level order / clips resolved although disabled", svg, svg.func("SVG.breadth_first"))
        else:
            rep.ok(rules["order"], "svg.SVG.breadth_first", "level order; no clip resolution when disabled")


# =========================================================================================== clip region
def check_resolve_clip_path(repo: Repo, rep: Report, rule: str):
    svg = repo["svg"]
    F = "svg.SVG._resolve_clip_path"
    rep.saw(F)
    holder = {}

    def build():
        shape = El("circle", {"id": "shp", "r": N("sr")}, name="shape")
        c = El("clipPath", {"id": "c", "transform": "tC", "clip-path": "url(#d)"},
               [El("rect", {"width": N("w1"), "height": N("h1"), "transform": "t1", "clip-rule": "evenodd"}, name="r1"),
                El("use", {"{http://www.w3.org/1999/xlink}href": "#shp"}, name="u"),
                El("path", {"d": pd(("M", (0, 0)), ("L", (1, 1)))}, name="pth")], name="c")
        d = El("clipPath", {"id": "d"}, [El("ellipse", {"rx": N("ex"), "ry": N("ey")}, name="e1")], name="d")
        root = El("svg", {"viewBox": "0 0 10 10"}, [El("defs", {}, [shape, c, d]), El("path", {"d": pd(("M", (5, 5)))})], name="root")
        holder["root"] = root
        return ([make_svg(root), "url(#c)", AffTok.atom("CTM")], {})

    outs = ok_outcomes(run(repo, "SVG._resolve_clip_path", build), F)
    fn = svg.func("SVG._resolve_clip_path")
    probs = []
    n_ok = 0
    for o in outs:
        if o.raised:
            probs.append(f"raises {o.raised} on the schematic clipPath")
            continue
        clip = o.value
        g = geom_of(clip) if isinstance(clip, Rec) else None
        if not isinstance(g, GeomTok) or g.term[0] != "isect":
            probs.append(f"a clipPath that is itself clipped must yield the intersection of its region with its own clip; got {g!r}"[:300])
            continue
        ops, rules = g.term[1], g.term[2]
        if len(ops) != 2:
            probs.append(f"intersection of {len(ops)} operands (2 expected: the region and the nested clip)")
            continue
        region = ops[0].term[1] if ops[0].term[0] == "seq" else ops[0]
        if not (isinstance(region, GeomTok) and region.term[0] == "union"):
            probs.append(f"clip region is {region!r}; it must be the union of the clipPath's children"[:300])
            continue
        kids, krules = region.term[1], region.term[2]
        if len(kids) != 3:
            probs.append(f"union of {len(kids)} children; the clipPath has 3 (rect, instantiated use, path)")
            continue
        exp_tf = [("parse(t1)", "parse(tC)", "CTM"), None, ("parse(tC)", "CTM")]
        for i, (kid, etf) in enumerate(zip(kids, exp_tf)):
            inner = kid.term[1] if kid.term[0] == "seq" else kid
            if not (isinstance(inner, GeomTok) and inner.term[0] == "xf"):
                probs.append(f"child {i} of the clipPath is not transformed into the referencing element's coordinate system: {inner!r}"[:300])
                continue
            app = inner.term[2].app if isinstance(inner.term[2], AffTok) else None
            if etf is not None and app != etf:
                probs.append(f"child {i} is transformed by {app}; expected own transform, then the clipPath's, then the referencing element's CTM: {etf}")
            if i == 1 and (app is None or app[-2:] != ("parse(tC)", "CTM") or "shape" not in repr(inner.term[1]) and "SVGCircle" not in repr(inner.term[1])):
                probs.append(f"the <use> child was not instantiated before the children were read (child 1 is {inner!r})"[:300])
        if tuple(krules) != ("evenodd", "nonzero", "nonzero"):
            probs.append(f"children are combined under rules {tuple(krules)}; each child must be interpreted under its own clip-rule (evenodd, nonzero, nonzero)")
        nested = ops[1]
        if "SVGEllipse" not in repr(nested):
            probs.append("the clipPath's own clip-path (url(#d)) is not what the region is intersected with")
        if not probs:
            n_ok += 1
    if probs:
        rep.fail(rule, F, "_resolve_clip_path(url(#c), CTM) on the schematic document", f"{len(probs)} deviations; first: {probs[0]}", svg, fn)
    elif n_ok:
        rep.ok(rule, F, "region = intersection(union(children each under its own clip-rule, transformed own > clipPath > CTM, <use> instantiated first), nested clip)", True)
    else:
        raise AnalysisError(f"{F}: no completed path")


# =========================================================================================== _simplify
def _simplify_doc():
    clip = El("clipPath", {"id": "c"}, [El("rect", {"width": "4", "height": "3"}, name="cr")], name="clip")
    g_used = El("linearGradient", {"id": "g1", "x1": "0.25", "gradientTransform": "tG"}, [El("stop", {"offset": "0", "id": "s0"}), El("stop", {"offset": "1"})], name="g1")
    g_unused = El("radialGradient", {"id": "gU"}, [El("stop", {"offset": "0"})], name="gU")
    g_plain = El("linearGradient", {"id": "g2"}, [El("stop", {"offset": "0"})], name="g2")
    defs = El("defs", {}, [clip, g_used, g_unused, g_plain, El("path", {"id": "junk", "d": pd(("M", (9, 9)))}, name="junk")], name="defs")
    p1 = El("path", {"d": pd(("M", ("a", "b")), ("L", ("c", "d"))), "clip-path": "url(#c)", "fill-rule": "evenodd", "id": "p1"}, name="p1")
    p2 = El("path", {"d": pd(("M", (1, 1)), ("L", (2, 2))), "transform": "tB", "stroke": "blue", "stroke-width": "2", "id": "p2"}, name="p2")
    ga = El("g", {"transform": "tA", "opacity": "0.5", "id": "ga"}, [p1, El(ETREE_COMMENT, name="cm"), p2], name="ga")
    p5 = El("path", {"d": pd(("M", (5, 5)), ("L", (6, 6))), "id": "p5"}, name="p5")
    gb = El("g", {"fill": "green", "data-name": "layer"}, [p5], name="gb")
    rect = El("rect", {"x": "1", "width": "2", "height": "3", "fill": "url(#g1)", "transform": "tR", "id": "R"}, name="R")
    p6 = El("path", {"d": pd(("M", (7, 7)), ("L", (8, 8))), "fill": "url(#g2)", "id": "p6"}, name="p6")
    root = El("svg", {"viewBox": "0 0 10 10", "fill": "red", "stroke-linecap": "round"}, [defs, ga, gb, rect, p6], name="root")
    return root


class _ClipRec:
    pass


def run_simplify(repo: Repo):
    holder = {}

    def build():
        root = _simplify_doc()
        holder["root"] = root
        return ([make_svg(root)], {})

    def extra(it):
        def stroke(i, a, k):
            shape = a[1]
            it.trace.add("stroke", geom_of(shape))
            sp = Rec(shape.cls, dict(shape.f), True)
            sp.f["d"] = PathData([("G", (GeomTok("strokeof", geom_of(shape)),))])
            sp.f["fill"], sp.f["stroke"] = shape.f["stroke"], "none"
            fp = shape
            fp.f["id"] = ""
            sp.f["id"] = ""
            return (fp, sp)

        it.hooks[("svg", "SVG._stroke")] = stroke

    outs = ok_outcomes(run(repo, "SVG._simplify", build, setup_extra=extra, max_paths=128), "svg.SVG._simplify")
    return outs, holder


def _paths_under(el):
    return [n for n in el.subtree() if isinstance(n.tag, str) and n.local() in ("path", "rect", "circle", "ellipse", "line", "polygon", "polyline")]


def _geom(n):
    d = n.attrib.get("d")
    if isinstance(d, PathData) and len(d.cmds) == 1 and d.cmds[0][0] == "G":
        return d.cmds[0][1][0]
    return d


def _spine(g) -> List[str]:
    return g.flat() if isinstance(g, GeomTok) else []


def check_simplify(repo: Repo, rep: Report, rules: Dict[str, str]):
    """rules keys: structure, transform, clip, stroke-order, gradient, refs, document-order"""
    svg = repo["svg"]
    F = "svg.SVG._simplify"
    rep.saw(F, "svg.SVG._resolve_clip_path", "svg.SVG._transformed_gradient", "svg.SVG._apply_gradient_template", "svg.SVG._apply_gradient_translation",
            "svg.SVG._remove_orphaned_gradients", "svg.SVG._add_to_defs", "svg.to_element", "svg.from_element", "svg._try_remove_group", "svg._inherit_attrib")
    outs, holder = run_simplify(repo)
    fn = svg.func("SVG._simplify")
    probs: Dict[str, List[str]] = {k: [] for k in ("structure", "transform", "clip", "stroke-order", "gradient", "refs", "document-order")}
    done = 0
    for o in outs:
        if o.raised:
            for k in probs:
                probs[k].append(f"_simplify raises {o.raised} ({o.raise_msg}) on the schematic document")
            continue
        done += 1
    # the tree of the last completed run is in holder (all paths produce the same structure up to symbolic rect corner branches)
    root = holder["root"]
    els = [n for n in root.subtree() if isinstance(n.tag, str)]
    by_id = {}
    for n in els:
        if "id" in n.attrib:
            by_id.setdefault(n.attrib["id"], []).append(n)
    # ---- structure (C01)
    kids = [c for c in root.children if isinstance(c.tag, str)]
    if not kids or kids[0].local() != "defs":
        probs["structure"].append(f"first child of the root is {kids[0].local() if kids else None}, not defs")
    if sum(1 for n in els if n.local() == "defs") != 1:
        probs["structure"].append("the document does not have exactly one defs")
    defs = next((n for n in els if n.local() == "defs"), None)
    if defs is not None:
        non_grad = [c.local() for c in defs.children if c.local() not in ("linearGradient", "radialGradient")]
        if non_grad:
            probs["structure"].append(f"defs keeps non-gradient children {non_grad}")
        for gch in defs.children:
            if "id" not in gch.attrib:
                probs["structure"].append("a gradient without id stays in defs")
            if any("href" in k for k in gch.attrib):
                probs["structure"].append("a gradient keeps an href")
    for n in els:
        for a in ("clip-path", "transform"):
            if a in n.attrib:
                probs["structure"].append(f"<{n.local()} id={n.attrib.get('id')}> keeps attribute {a}")
        if n.local() in ("clipPath", "use", "svg") and n is not root:
            probs["structure"].append(f"a <{n.local()}> element survives")
    inheritable = {"fill", "stroke", "stroke-linecap", "fill-rule", "clip-rule", "opacity", "display", "stroke-width", "style"}
    left = sorted(inheritable & set(root.attrib))
    if left:
        probs["structure"].append(f"the root keeps inheritable presentation attributes {left}")
    groups = [n for n in els if n.local() == "g"]
    for g in groups:
        n_ch = len([c for c in g.children if isinstance(c.tag, str)])
        if set(g.attrib) != {"opacity"} or n_ch < 2:
            probs["structure"].append(f"a kept group has attributes {sorted(g.attrib)} and {n_ch} children (only opacity, at least two children allowed)")
    if not groups:
        probs["structure"].append("the translucent group with several children was flattened")
    if any(n.attrib.get("id") == "gb" or n.attrib.get("data-name") for n in els):
        probs["structure"].append("the opaque single-child group was not flattened")
    for n in _paths_under(root):
        for a in n.attrib:
            if a.startswith("stroke") and n.attrib[a] not in ("none",):
                probs["structure"].append(f"output shape {n.attrib.get('id')} keeps stroke attribute {a}={n.attrib[a]}")
    # ---- per-shape geometry
    shapes = [n for n in _paths_under(root) if n.parent is not None and n.parent.local() != "defs"]
    def find(pred):
        return [n for n in shapes if pred(n)]
    p1 = find(lambda n: n.attrib.get("id") == "p1")
    if len(p1) != 1:
        probs["clip"].append(f"the clipped path p1 appears {len(p1)} times")
    else:
        g = _geom(p1[0])
        sp = _spine(g)
        if not isinstance(g, GeomTok) or g.term[0] != "isect":
            probs["clip"].append(f"p1 is not the intersection of its geometry with its clip: {g!r}"[:300])
        else:
            ops, rules_ = g.term[1], g.term[2]
            if len(ops) != 2:
                probs["clip"].append(f"p1 is intersected with {len(ops) - 1} clips (1 expected)")
            first = ops[0].term[1] if isinstance(ops[0], GeomTok) and ops[0].term[0] == "seq" else ops[0]
            if not (isinstance(first, GeomTok) and first.term[0] == "xf"):
                probs["clip"].append("the piece is clipped before it is transformed into the clip's coordinate system")
                probs["transform"].append("p1 is not mapped through its accumulated transform")
            else:
                app = first.term[2].app
                if app != ("parse(tA)",):
                    probs["transform"].append(f"p1 is transformed by {app}; its accumulated transform is (parse(tA),)")
            if tuple(rules_)[:1] != ("evenodd",):
                probs["clip"].append(f"the clipped shape is interpreted under rule {tuple(rules_)[:1]}, its own fill-rule is evenodd")
            if len(rules_) > 1 and rules_[1] != "nonzero":
                probs["clip"].append(f"the clip operand is interpreted under {rules_[1]!r}, the clip's clip-rule is nonzero")
            if len(ops) > 1 and "parse(tA)" not in repr(ops[1]):
                probs["clip"].append("the clip region was not resolved in the coordinate system of the clipped element (its CTM)")
        if p1[0].attrib.get("fill-rule", "nonzero") != "nonzero":
            probs["clip"].append("a clipped path is not marked nonzero although Skia's result is")
    p2 = find(lambda n: "strokeof" in repr(_geom(n)) or (isinstance(_geom(n), GeomTok) and "[('M', (1, 1)), ('L', (2, 2))]" in repr(_geom(n))))
    if len(p2) != 2:
        probs["stroke-order"].append(f"the stroked path yields {len(p2)} pieces (fill piece and stroke piece expected)")
    else:
        gi = [_geom(n) for n in p2]
        if "strokeof" in repr(gi[0]) or "strokeof" not in repr(gi[1]):
            probs["document-order"].append("the stroke piece does not follow the fill piece in document order")
        for n, g in zip(p2, gi):
            if not (isinstance(g, GeomTok) and g.term[0] == "xf"):
                probs["transform"].append(f"a piece of the stroked path is not mapped through its accumulated transform: {g!r}"[:200])
                continue
            if g.term[2].app != ("parse(tB)", "parse(tA)"):
                probs["transform"].append(f"a piece of p2 is transformed by {g.term[2].app}; own transform first, then the group's: (parse(tB), parse(tA))")
            inner = g.term[1]
            if "xf" in repr(inner):
                probs["stroke-order"].append("the outline was computed after (not before) the transform")
        st = next((g for g in gi if "strokeof" in repr(g)), None)
        if st is not None and "xf" in repr(st.term[1].term[1] if isinstance(st.term[1], GeomTok) and len(st.term[1].term) > 1 else ""):
            probs["stroke-order"].append("stroke outline computed from transformed geometry")
        if p2[0].parent is not p2[1].parent or p2[0].parent.local() != "g":
            probs["document-order"].append("the pieces of the stroked path left their group")
    # order inside the kept group and at top level
    if groups:
        ids = [("stroke" if "strokeof" in repr(_geom(c)) else c.attrib.get("id", "?")) for c in groups[0].children if isinstance(c.tag, str)]
        if ids[:1] != ["p1"] or ids[-1:] != ["stroke"] or len(ids) != 3:
            probs["document-order"].append(f"children of the kept group are {ids}; document order is p1, fill piece of p2, stroke piece of p2")
    top = [c.attrib.get("id", c.local()) for c in root.children if isinstance(c.tag, str)]
    if top != ["defs", top[1] if len(top) > 1 else None, "p5", "R", "p6"] or (len(top) > 1 and root.children[1].local() != "g"):
        probs["document-order"].append(f"top-level order is {top}; expected defs, the kept group, p5, R, p6")
    p5 = find(lambda n: n.attrib.get("id") == "p5")
    if len(p5) == 1 and p5[0].attrib.get("fill") != "green":
        probs["structure"].append(f"p5 lost the fill inherited from its flattened group (fill={p5[0].attrib.get('fill')})")
    if len(p5) == 1 and p5[0].attrib.get("stroke-linecap") not in ("round", None):
        probs["structure"].append("p5 lost the root's inherited stroke-linecap")
    # ---- gradients / references (C06, C08)
    R = find(lambda n: n.attrib.get("id") == "R")
    grads = {c.attrib.get("id"): c for c in (defs.children if defs is not None else [])}
    if len(R) != 1:
        probs["gradient"].append(f"the transformed gradient-filled rect appears {len(R)} times")
    else:
        fill = R[0].attrib.get("fill", "")
        g = _geom(R[0])
        if not (isinstance(g, GeomTok) and g.term[0] == "xf" and g.term[2].app == ("parse(tR)",)):
            probs["transform"].append(f"R is not mapped through its transform: {g!r}"[:200])
        if fill == "url(#g1)":
            probs["gradient"].append("a transformed shape keeps referencing the untransformed gradient")
        tgt = fill[5:-1] if fill.startswith("url(#") else None
        if tgt not in grads:
            probs["refs"].append(f"R's fill {fill!r} points at no gradient in defs (defs has {sorted(grads)})")
        else:
            clone = grads[tgt]
            gt = clone.attrib.get("gradientTransform")
            tok = parse_affine(gt) if isinstance(gt, str) else gt
            app = tok.app if isinstance(tok, AffTok) else ()
            flat = " ".join(app)
            want_seq = ["parse(tG)", "rect_to_rect", "parse(tR)"]
            pos = [flat.find(w) for w in want_seq]
            if -1 in pos or pos != sorted(pos):
                probs["gradient"].append(f"clone's gradientTransform is {app}; it must apply the gradient's own transform, then unit-square->bbox, then the shape's CTM")
            if "bbx1<" not in flat or "'xf'" in flat or "SVGRect" not in flat:
                probs["gradient"].append("the bounding box folded into the clone is not that of the untransformed shape")
            if clone.attrib.get("gradientUnits") != "userSpaceOnUse":
                probs["gradient"].append("clone of a bounding-box gradient is not switched to userSpaceOnUse")
            if len([c for c in clone.children if c.local() == "stop"]) != 2:
                probs["gradient"].append("clone lost the stops of the original")
            if tgt == "g1":
                probs["refs"].append("the clone reuses the original id")
    for gid, lst in by_id.items():
        if len(lst) > 1 and gid not in ("s0",):
            probs["refs"].append(f"id {gid!r} occurs {len(lst)} times")
    if "gU" in grads:
        probs["refs"].append("a gradient no shape references (gU) stays in defs")
    if "g1" in grads and len(R) == 1 and R[0].attrib.get("fill") != "url(#g1)":
        probs["refs"].append("the original gradient g1 stays in defs although its only user now references the clone")
    if "g2" not in grads:
        probs["refs"].append("gradient g2 was removed although p6 references it")
    used = {n.attrib["fill"][5:-1] for n in shapes if str(n.attrib.get("fill", "")).startswith("url(#")}
    for u in used:
        if u not in grads:
            probs["refs"].append(f"fill url(#{u}) dangles")
    for k, rid in rules.items():
        what = {"structure": "output structure/attributes", "transform": "accumulated transform applied to every piece", "clip": "clip application", "stroke-order": "stroke before transform",
                "gradient": "gradient clone for a transformed shape", "refs": "ids and references", "document-order": "document order"}[k]
        if probs[k]:
            uniq = list(dict.fromkeys(probs[k]))
            rep.fail(rid, F, f"{what} on the schematic document", f"{len(uniq)} deviations; first: {uniq[0]}", svg, fn)
        else:
            rep.ok(rid, F + f" [{what}]", f"schematic document ({len(els)} elements after simplification, {done} completed paths): as the grammar / SVG semantics require", True)

"""C08 - converted documents have no duplicate, dangling or orphaned references (copy/allocate/order rules)."""
from __future__ import annotations

import ast
import re

from sa.calls import Resolver
from sa.core import AnalysisError, Repo, Report, call_name, kwarg, parent, unparse, walk_no_nested
from sa.selftest import Edit, Variant

EXPLANATION = (
    "(copy sites) every deepcopy of an element that is inserted into the same tree - the <use> instance and inherited gradient stops - has "
    "ids stripped from the copied root and all its descendants before it is attached; whole-tree copies are exempt; (split) when _stroke "
    "returns two pieces both ids are cleared; (allocation) every id the package writes comes from the source or from _new_id, which searches "
    "the whole current tree for the lowest free index, and each allocated element is attached before the next allocation: inside "
    "_transformed_gradient by statement order, and for nested svgs because _swap_elements consumes its argument lazily, one swap at a time, "
    "from generator expressions; (dangling) gradients are deleted only by _remove_orphaned_gradients, whose used-id scan ranges over all "
    "shapes with only the two documented skips, and by the non-gradient purge of defs; rewritten fills point at the element just added to "
    "defs; (orphans) no shape-deleting stage after the last orphan removal (fails today: known finding F5); (backstop) the gate reports "
    "duplicate ids."
)
ASSUMPTIONS = ["every reference in the source resolves (premise of the property)",
               "duplicate generated ids for doubly nested svg and unstripped stop ids in _transformed_gradient end in an exception at the gate / xpath_one (observations, not violations)"]
P = "C08"


def run(repo: Repo, rep: Report):
    svg = repo["svg"]
    res = Resolver(repo)
    for rid, txt in [
        ("R-SITE.copy-strips-ids", "element copies inserted into the same tree lose their ids (root and descendants) before insertion"),
        ("R-GUARD.split-clears-ids", "_stroke clears both ids when one shape becomes two"),
        ("R-ORDER.allocate-then-attach", "ids come from _new_id (whole-tree lowest-free search) and are attached before the next allocation"),
        ("R-SITE.dangling", "gradient deletion only through the orphan scan over all shapes / the non-gradient purge; fills rewritten to the added element"),
        ("R-ORDER.cleanup-after-removal", "no shape-deleting stage after the last orphan-gradient removal"),
        ("R-SITE.duplicate-report", "the gate reports duplicate ids"),
    ]:
        rep.rule(rid, txt)
    # ---- copy sites
    exempt = {"SVG._clone": "whole-tree copy (different tree)", "SVG.toetree": "whole-tree copy handed out", "_inherit_attrib": "copies an attribute mapping, not elements",
              "SVG._transformed_gradient": "stops of the cloned gradient: duplicate stop ids are caught by the gate (observation)"}
    n = 0
    for q, f in svg.functions.items():
        for c in ast.walk(f):
            if isinstance(c, ast.Call) and call_name(c) == "copy.deepcopy" and _owner(c) is f:
                n += 1
                arg = unparse(c.args[0])
                site = f"svg.{q}: copy.deepcopy({arg})"
                if q in exempt:
                    rep.ok("R-SITE.copy-strips-ids", site, "exempt: " + exempt[q])
                    continue
                if q == "SVG._resolve_use":
                    t = unparse(f)
                    m = re.search(r"(\w+) = copy\.deepcopy\(target\)\n\s+for (\w+) in \1\.getiterator\('\*'\):\n\s+if 'id' in \2\.attrib:\n\s+del \2\.attrib\['id'\]", t)
                    i_strip = t.find(".getiterator('*')")
                    i_attach = t.find("group.append(new_el)")
                    if m and 0 < i_strip < i_attach:
                        rep.ok("R-SITE.copy-strips-ids", site, "ids deleted from the copy and all its descendants (getiterator includes the root) before it is attached", True)
                    else:
                        rep.fail("R-SITE.copy-strips-ids", f"svg.{q}", "for el in new_el.getiterator('*'): del el.attrib['id']",
                                 "the instantiated copy of a <use> target keeps ids on itself or on descendants: instancing twice duplicates them", svg, c)
                    continue
                if q == "SVG._apply_gradient_template":
                    t = unparse(f)
                    if re.search(r"(\w+) = copy\.deepcopy\(stop_el\)\n\s+_del_attrs\(\1, 'id'\)\n\s+gradient\.append\(\1\)", t):
                        rep.ok("R-SITE.copy-strips-ids", site, "copied stop loses its id before it is appended", True)
                    else:
                        rep.fail("R-SITE.copy-strips-ids", f"svg.{q}", "_del_attrs(new_stop_el, 'id')", "stops inherited from a template keep their ids", svg, c)
                    continue
                if arg in ("self", "attrib", "target", "paths[0]") or "svg_root" in arg and q in ("SVG._clone", "SVG.toetree"):
                    rep.ok("R-SITE.copy-strips-ids", site, "not an element inserted into the tree")
                    continue
                if q == "SVG._simplify" and arg == "paths[0]":
                    continue
                rep.fail("R-SITE.copy-strips-ids", f"svg.{q}", c, "new element copy site: if the copy is inserted into the same tree its ids must be stripped first", svg, c)
    rep.floor("deepcopy sites in svg.py", n, 6)
    # ---- split
    sk = svg.func("SVG._stroke")
    body = [unparse(s) for s in sk.body]
    i_clear = next((i for i, b in enumerate(body) if b.replace(" ", "") in ("shape.id=stroke.id=''", "stroke.id=shape.id=''")), -1)
    i_ret = next((i for i, b in enumerate(body) if b == "return (shape, stroke)"), -1)
    if 0 <= i_clear < i_ret:
        rep.ok("R-GUARD.split-clears-ids", "svg.SVG._stroke", "shape.id = stroke.id = '' dominates the two-piece return", True)
    else:
        rep.fail("R-GUARD.split-clears-ids", "svg.SVG._stroke", "shape.id = stroke.id = ''", "both pieces of a split shape keep the original id", svg, sk)
    # ---- allocation
    nid = svg.func("SVG._new_id")
    t = unparse(nid)
    guarded_ret = any(isinstance(n, ast.If) and unparse(n.test) == "not existing" and any(isinstance(r, ast.Return) and unparse(r.value) == "potential_id" for r in n.body)
                      for n in ast.walk(nid))
    unguarded = [r for r in ast.walk(nid) if isinstance(r, ast.Return) and r.value is not None and not (isinstance(parent(r), ast.If) and unparse(parent(r).test) == "not existing")]
    if "//svg:*[@id=" in t and guarded_ret and not unguarded:
        rep.ok("R-ORDER.allocate-then-attach", "svg.SVG._new_id", "candidate checked against every element of the current tree; first free one returned")
    else:
        rep.fail("R-ORDER.allocate-then-attach", "svg.SVG._new_id", "self.xpath(f'//svg:*[@id=...]')", "the free-id search no longer looks at the whole current tree", svg, nid)
    tg = svg.func("SVG._transformed_gradient")
    b = [unparse(s) for s in tg.body]
    i_new = next((i for i, x in enumerate(b) if "self._new_id(" in x), -1)
    i_add = next((i for i, x in enumerate(b) if x.startswith("self._add_to_defs(defs, new_fill)")), -1)
    if 0 <= i_new < i_add and sum("self._new_id(" in x for x in b) == 1:
        rep.ok("R-ORDER.allocate-then-attach", "svg.SVG._transformed_gradient", "one allocation per call, attached to defs (already in the tree) before returning", True)
    else:
        rep.fail("R-ORDER.allocate-then-attach", "svg.SVG._transformed_gradient", "gradient.id = self._new_id(...); ...; self._add_to_defs(defs, new_fill)", "a clone's id is allocated but the clone is not attached before the next allocation can happen", svg, tg)
    sp = svg.func("SVG._simplify")
    ts = unparse(sp)
    if ts.find("self.svg_root.insert(0, defs)") < ts.find("for context in to_process") and ts.find("self.svg_root.insert(0, defs)") > 0:
        rep.ok("R-ORDER.allocate-then-attach", "svg.SVG._simplify", "the master defs is attached to the root before the walk allocates ids")
    else:
        rep.fail("R-ORDER.allocate-then-attach", "svg.SVG._simplify", "self.svg_root.insert(0, defs)", "defs is not attached before ids are allocated into it", svg, sp)
    # lazily consumed swaps
    sw = svg.func("SVG._swap_elements")
    loops = [l for l in sw.body if isinstance(l, ast.For)]
    pname = sw.args.args[0].arg
    lazy = len(loops) == 1 and unparse(loops[0].iter) == pname and not any(isinstance(c, ast.Call) and call_name(c) in ("tuple", "list", "sorted", "reversed") and c.args and unparse(c.args[0]) == pname for c in ast.walk(sw))
    if lazy:
        rep.ok("R-ORDER.allocate-then-attach", "svg.SVG._swap_elements", "iterates its argument directly: each (old, new) pair is produced, inserted and only then is the next one computed", True)
    else:
        rep.fail("R-ORDER.allocate-then-attach", "svg.SVG._swap_elements", f"for old_el, new_els in {pname}:", "the swaps are materialised before any of them is applied: generated ids (one per nested svg) "
                 "are all allocated against the same tree and collide", svg, sw)
    n_lazy = 0
    for q in ("SVG.resolve_nested_svgs", "SVG._unnest_svg"):
        f = svg.func(q)
        for c in ast.walk(f):
            if isinstance(c, ast.Call) and call_name(c) == "self._swap_elements":
                a = c.args[0]
                if isinstance(a, ast.GeneratorExp) and "self._unnest_svg(" in unparse(a.elt):
                    n_lazy += 1
                    rep.ok("R-ORDER.allocate-then-attach", f"svg.{q}: _swap_elements(<generator>)", "clip ids are allocated one nested svg at a time")
                else:
                    rep.fail("R-ORDER.allocate-then-attach", f"svg.{q}", c, "nested svgs are un-nested eagerly (list) before being swapped in: their generated clip ids collide", svg, c)
    rep.floor("lazy swap call sites", n_lazy, 1)
    un = svg.func("SVG._unnest_svg")
    if "{'id': self._new_id('nested-svg-viewport-%d')}" in unparse(un) and "clipped_g.attrib['clip-path'] = f\"url(#{clip_path.attrib['id']})\"" in unparse(un):
        rep.ok("R-ORDER.allocate-then-attach", "svg.SVG._unnest_svg", "clip id from _new_id; the group references exactly that id")
    else:
        rep.fail("R-ORDER.allocate-then-attach", "svg.SVG._unnest_svg", "{'id': self._new_id('nested-svg-viewport-%d')}", "nested-svg clip ids are not allocated through _new_id / not referenced consistently", svg, un)
    # ---- dangling
    og = svg.func("SVG._remove_orphaned_gradients")
    F = "svg.SVG._remove_orphaned_gradients"
    rep.saw(F)
    loops = [l for l in og.body if isinstance(l, ast.For)]
    scan = next((l for l in loops if unparse(l.iter) == "self.shapes()"), None)
    ok = False
    if scan is not None and len(scan.body) == 1 and isinstance(scan.body[0], ast.If) and unparse(scan.body[0].test) == "shape.fill.startswith('url(')":
        inner = scan.body[0]
        conts = [n for n in ast.walk(inner) if isinstance(n, ast.Continue)]
        tests = [unparse(n.test) for n in ast.walk(inner) if isinstance(n, ast.If) and n is not inner]
        ok = len(conts) == 2 and tests == ["strip_ns(el.tag) not in _GRADIENT_CLASSES"] and "used_gradient_ids.add(el.attrib['id'])" in unparse(inner) \
            and "except ValueError" in unparse(inner)
    if ok:
        rep.ok("R-SITE.dangling", F, "used ids collected over all shapes of the document; skips only unresolvable urls and non-gradient targets", True)
    else:
        rep.fail("R-SITE.dangling", F, "for shape in self.shapes(): if shape.fill.startswith('url('): ... used_gradient_ids.add(...)",
                 "the scan for used gradients no longer covers every shape (additional filter/skip): a gradient still referenced by a skipped shape is deleted and its fill dangles", svg, og)
    rm = next((l for l in loops if "self._select_gradients()" in unparse(l.iter)), None)
    if rm is not None and "if grad.attrib.get('id') not in used_gradient_ids:\n        _safe_remove(grad)" in unparse(rm):
        rep.ok("R-SITE.dangling", F + ": only gradients whose id is unused are removed")
    else:
        rep.fail("R-SITE.dangling", F, "if grad.attrib.get('id') not in used_gradient_ids: _safe_remove(grad)", "gradient deletion criterion changed", svg, og)
    # the scan sees the tree's current shapes: cache is fresh at the call (typestate: elements reset inside _simplify before? it is N or P-consistent)
    sp_t = unparse(sp)
    if "fill_id = fill_el.attrib['id']" in sp_t and "el.attrib['fill'] = f'url(#{fill_id})'" in sp_t:
        rep.ok("R-SITE.dangling", "svg.SVG._simplify", "a rewritten fill references the id of the element just added to defs")
    else:
        rep.fail("R-SITE.dangling", "svg.SVG._simplify", "el.attrib['fill'] = f'url(#{fill_id})'", "rewritten fills do not reference the clone that was added to defs", svg, sp)
    ad = svg.func("SVG._add_to_defs")
    if "if 'id' not in new_el.attrib:\n        return" in unparse(ad).replace("    ", "    ") or ("if 'id' not in new_el.attrib:" in unparse(ad)):
        rep.ok("R-SITE.dangling", "svg.SVG._add_to_defs", "id-less elements are not added to defs")
    # other gradient deleters
    deleters = []
    for q, f in svg.functions.items():
        for c in ast.walk(f):
            if isinstance(c, ast.Call) and call_name(c) in ("_safe_remove", "defs.remove") and _owner(c) is f and ("grad" in unparse(c) or "defs.remove" in call_name(c)):
                deleters.append(q)
    if set(deleters) <= {"SVG._remove_orphaned_gradients", "SVG._simplify"}:
        rep.ok("R-SITE.dangling", "gradient/defs deleters", f"only {sorted(set(deleters))}")
    else:
        rep.fail("R-SITE.dangling", "svg", str(sorted(set(deleters))), "additional code deletes gradients / defs children", svg)
    # ---- orphans
    from sa.rules import c01
    order = c01.topicosvg_order(repo, res)
    c01._cleanup_after_removal(repo, rep, res, order, ("orphan-gradient-removal",))
    # ---- duplicate report
    ck = svg.func("SVG.checkpicosvg")
    t = unparse(ck)
    if "if el_id in ids:" in t and "ids[el_id] = context.path" in t and "reuses id=" in t:
        rep.ok("R-SITE.duplicate-report", "svg.SVG.checkpicosvg", "check-then-insert on one dictionary keyed by id")
    else:
        rep.fail("R-SITE.duplicate-report", "svg.SVG.checkpicosvg", "if el_id in ids: errors.append(...)", "duplicate ids are no longer reported by the gate", svg, ck)


def _owner(node):
    p = parent(node)
    while p is not None and not isinstance(p, (ast.FunctionDef, ast.AsyncFunctionDef)):
        p = parent(p)
    return p


_S = "svg"
VARIANTS = [
    Variant("id strip loop deleted in _resolve_use", [Edit(_S, "SVG._resolve_use", "                for el in new_el.getiterator(\"*\"):\n                    if \"id\" in el.attrib:\n                        del el.attrib[\"id\"]\n", "")],
            [("R-SITE.copy-strips-ids", "_resolve_use")]),
    Variant("id strip restricted to children", [Edit(_S, "SVG._resolve_use", 'new_el.getiterator("*")', "new_el.iterchildren()")], [("R-SITE.copy-strips-ids", "_resolve_use")]),
    Variant("split pieces keep the id", [Edit(_S, "SVG._stroke", '        shape.id = stroke.id = ""\n', "")], [("R-GUARD.split-clears-ids", "_stroke")]),
    Variant("_new_id returns index 0", [Edit(_S, "SVG._new_id", "            if not existing:\n                return potential_id", "            return potential_id")], [("R-", "_new_id")]),
    Variant("orphan scan skips grouped shapes", [Edit(_S, "SVG._remove_orphaned_gradients", '            if shape.fill.startswith("url("):', '            if shape.fill.startswith("url(") and shape.opacity == 1.0:')],
            [("R-SITE.dangling", "_remove_orphaned_gradients")]),
    Variant("swaps materialised", [Edit(_S, "SVG._swap_elements", "        for old_el, new_els in swaps:", "        swaps = tuple(swaps)\n        for old_el, new_els in swaps:")], [("R-ORDER.allocate-then-attach", "_swap_elements")]),
    Variant("nested svgs un-nested eagerly", [Edit(_S, "SVG.resolve_nested_svgs", "        self._swap_elements(\n            (el, self._unnest_svg(el, vb.w, vb.h)) for el in nested_svgs\n        )", "        self._swap_elements(\n            [(el, self._unnest_svg(el, vb.w, vb.h)) for el in nested_svgs]\n        )")],
            [("R-ORDER.allocate-then-attach", "resolve_nested_svgs")]),
    Variant("inherited stops keep ids", [Edit(_S, "SVG._apply_gradient_template", '                _del_attrs(new_stop_el, "id")\n', "")], [("R-SITE.copy-strips-ids", "_apply_gradient_template")]),
    Variant("clone attached after a second allocation", [Edit(_S, "SVG._transformed_gradient", "        self._add_to_defs(defs, new_fill)\n        return new_fill", "        new_fill.attrib[\"data-alt\"] = self._new_id(\"alt-%d\")\n        self._add_to_defs(defs, new_fill)\n        return new_fill")],
            [("R-ORDER.allocate-then-attach", "_transformed_gradient")]),
    Variant("silent: rename loop variable", [Edit(_S, "SVG._remove_orphaned_gradients", "for grad in self._select_gradients():\n            if grad.attrib.get(\"id\") not in used_gradient_ids:\n                _safe_remove(grad)",
                                                  "for grad in self._select_gradients():\n            if grad.attrib.get(\"id\") not in used_gradient_ids:\n                _safe_remove(grad)  # unused")], silent=True),
]

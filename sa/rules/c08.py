"""C08 - converted documents have no duplicate, dangling or orphaned references (copy/allocate/order rules)."""
from __future__ import annotations

import ast
import re

from sa.calls import Resolver
from sa.core import AnalysisError, Repo, Report, call_name, kwarg, parent, unparse, walk_no_nested
from sa.selftest import Edit, Variant

from sa.texts import T as _TX

EXPLANATION = _TX["C08"]["explanation"] + " Not decided: " + _TX["C08"]["not_decided"] + "."
ASSUMPTIONS = _TX["C08"]["assumptions"]
P = "C08"


def run(repo: Repo, rep: Report):
    from sa.rules import sem
    for rid, txt in [
        ("R-SITE.copy-strips-ids", "resolve_use interpreted on a schematic document (shared targets, group targets, nested use): no duplicate id afterwards, ids of the originals untouched"),
        ("R-ORDER.allocate-then-attach", "generated ids (gradient clones, viewport clips) are unique in the interpreted result, also when a candidate id is already taken by another element or by a nested viewport"),
        ("R-SITE.dangling", "_simplify interpreted on schematic documents: every fill url points at a gradient in defs (also from inside retained groups), every gradient in defs is referenced, "
                            "split shapes and copied stops carry no duplicate id"),
        ("R-ORDER.cleanup-after-removal", "topicosvg interpreted end to end: no gradient is left unreferenced by a stage that runs after orphan removal"),
        ("R-SITE.duplicate-report", "the gate, interpreted on documents with a reused id (paths, gradients, stops), reports it"),
    ]:
        rep.rule(rid, txt)
    sem.check_resolve_use(repo, rep, {"ids": "R-SITE.copy-strips-ids"})
    sem.check_nested_svg(repo, rep, {"ids": "R-ORDER.allocate-then-attach"})
    sem.check_simplify(repo, rep, {"refs": "R-SITE.dangling"})
    sem.check_pipeline(repo, rep, {"orphans": "R-ORDER.cleanup-after-removal", "grammar": "R-SITE.dangling"})
    sem.check_gate(repo, rep, {"ids": "R-SITE.duplicate-report"})


_S = "svg"
VARIANTS = [
    Variant("without a view box the tolerance is taken from the content's bounding box (loads the shape cache in the middle of _simplify)",
            [Edit(_S, "SVG._default_tolerance", "        if vbox is None:\n            return _DEFAULT_DEFAULT_TOLERENCE\n",
                  "        if vbox is None:\n            bbox = self.bounding_box()\n            if bbox is None:\n                return _DEFAULT_DEFAULT_TOLERENCE\n            return _DEFAULT_DEFAULT_TOLERENCE\n")],
            [("R-", "topicosvg")]),
    Variant("id strip loop deleted in _resolve_use", [Edit(_S, "SVG._resolve_use", "                for el in new_el.getiterator(\"*\"):\n                    if \"id\" in el.attrib:\n                        del el.attrib[\"id\"]\n", "")],
            [("R-SITE.copy-strips-ids", "_resolve_use")]),
    Variant("id strip restricted to children", [Edit(_S, "SVG._resolve_use", 'new_el.getiterator("*")', "new_el.iterchildren()")], [("R-SITE.copy-strips-ids", "_resolve_use")]),
    Variant("split pieces keep the id", [Edit(_S, "SVG._stroke", '        shape.id = stroke.id = ""\n', "")], [("R-SITE.dangling", "_simplify")]),
    Variant("_new_id returns index 0", [Edit(_S, "SVG._new_id", "            if not existing:\n                return potential_id", "            return potential_id")], [("R-ORDER.allocate-then-attach", "_unnest_svg")]),
    Variant("orphan scan skips grouped shapes", [Edit(_S, "SVG._remove_orphaned_gradients", '            if shape.fill.startswith("url("):', '            if shape.fill.startswith("url(") and shape.opacity == 1.0:')],
            [("R-SITE.dangling", "_simplify")]),
    Variant("swaps materialised", [Edit(_S, "SVG._swap_elements", "        for old_el, new_els in swaps:", "        swaps = tuple(swaps)\n        for old_el, new_els in swaps:")], [("R-ORDER.allocate-then-attach", "_unnest_svg")]),
    Variant("nested svgs un-nested eagerly", [Edit(_S, "SVG.resolve_nested_svgs", "        self._swap_elements(\n            (el, self._unnest_svg(el, vb.w, vb.h)) for el in nested_svgs\n        )", "        self._swap_elements(\n            [(el, self._unnest_svg(el, vb.w, vb.h)) for el in nested_svgs]\n        )")],
            [("R-ORDER.allocate-then-attach", "_unnest_svg")]),
    Variant("inherited stops keep ids", [Edit(_S, "SVG._apply_gradient_template", '                _del_attrs(new_stop_el, "id")\n', "")], [("R-SITE.dangling", "_simplify")]),
    Variant("clone id searched among gradients only", [Edit(_S, "SVG._new_id", "existing = self.xpath(f'//svg:*[@id=\"{potential_id}\"]')", "existing = self.xpath(f'//svg:linearGradient[@id=\"{potential_id}\"]')")],
            [("R-", "")], allow_analysis_error=True),
    Variant("silent: rename loop variable", [Edit(_S, "SVG._remove_orphaned_gradients", "for grad in self._select_gradients():\n            if grad.attrib.get(\"id\") not in used_gradient_ids:\n                _safe_remove(grad)",
                                                  "for grad in self._select_gradients():\n            if grad.attrib.get(\"id\") not in used_gradient_ids:\n                _safe_remove(grad)  # unused")], silent=True),
]

"""Helpers shared by the rule modules: def-use resolution of locals, call-site lookup, operand normalisation."""
from __future__ import annotations

import ast
import copy
import re
from typing import Dict, List, Optional, Tuple

from sa.core import Module, call_name, parent, unparse, walk_no_nested


def assignments(fn) -> Dict[str, List[ast.Assign]]:
    out: Dict[str, List[ast.Assign]] = {}
    for n in walk_no_nested(fn):
        if isinstance(n, ast.Assign):
            for t in n.targets:
                if isinstance(t, ast.Name):
                    out.setdefault(t.id, []).append(n)
        elif isinstance(n, ast.AnnAssign) and isinstance(n.target, ast.Name) and n.value is not None:
            out.setdefault(n.target.id, []).append(n)
    for k in out:
        out[k].sort(key=lambda a: a.lineno)
    return out


def reaching_assign(fn, name: str, at_line: int):
    best = None
    for a in assignments(fn).get(name, []):
        if a.lineno < at_line:
            best = a
    return best


def reaching_def(fn, name: str, at_line: int) -> Optional[ast.AST]:
    """Value expression of the last assignment to `name` textually before the statement at `at_line` (good
    enough for the straight-line helper functions this is used on)."""
    best = reaching_assign(fn, name, at_line)
    return best.value if best is not None else None


def stmt_line(node) -> int:
    p = node
    while p is not None and not isinstance(p, ast.stmt):
        p = parent(p)
    return getattr(p, "lineno", getattr(node, "lineno", 10 ** 9))


def resolved(fn, expr, depth=3) -> ast.AST:
    """Copy of expr with local names replaced by their reaching definitions (recursively, depth-bounded);
    parameters are replaced by p0, p1, ... (self excluded from numbering when first)."""
    params = [a.arg for a in fn.args.args]
    if params and params[0] in ("self", "cls"):
        pmap = {p: f"p{i}" for i, p in enumerate(params[1:])}
    else:
        pmap = {p: f"p{i}" for i, p in enumerate(params)}

    def rec(node, d, line):
        node = ast.parse(unparse(node), mode="eval").body  # fresh copy without parent links

        class T(ast.NodeTransformer):
            def visit_Name(self, n):
                a = reaching_assign(fn, n.id, line)
                if n.id in pmap and a is None:
                    return ast.copy_location(ast.Name(id=pmap[n.id], ctx=ast.Load()), n)
                if d > 0 and a is not None and not isinstance(a.value, (ast.Lambda,)):
                    return rec(a.value, d - 1, a.lineno)
                return n

            def visit_Lambda(self, n):
                return n

        return T().visit(node)

    return rec(expr, depth, stmt_line(expr))


def rtext(fn, expr, depth=3) -> str:
    return unparse(resolved(fn, expr, depth))


def calls_named(fn, *names, nested=True) -> List[ast.Call]:
    it = ast.walk(fn) if nested else walk_no_nested(fn)
    out = [c for c in it if isinstance(c, ast.Call) and (call_name(c) in names or call_name(c).split(".")[-1] in names)]
    return sorted(out, key=lambda c: (c.lineno, c.col_offset))


def compose_operands(call: ast.Call) -> Optional[List[ast.AST]]:
    """Operands of Affine2D.compose_ltr((a, b, ...)) in application order."""
    if call_name(call).split(".")[-1] != "compose_ltr" or not call.args:
        return None
    a = call.args[0]
    if isinstance(a, (ast.Tuple, ast.List)):
        return list(a.elts)
    return None


def enclosing(node, kinds):
    p = parent(node)
    while p is not None and not isinstance(p, kinds):
        p = parent(p)
    return p


def top_level_index(fn_body, node) -> int:
    """Index of the top-level statement of fn_body that contains node (-1 if none)."""
    for i, st in enumerate(fn_body):
        for n in ast.walk(st):
            if n is node:
                return i
    return -1


def matches(pattern: str, text: str) -> bool:
    return re.search(pattern, text) is not None

"""C05 - every output path carries the paint and opacity the SVG cascade assigns (table/predicate clauses)."""
from __future__ import annotations

import ast

from sa import spec
from sa.core import AnalysisError, Repo, Report, call_name, kwarg, parent, unparse, walk_no_nested
from sa.fold import Folder, Ref
from sa.poly import RF
from sa.selftest import Edit, Variant
from sa.sym import ClassRef, Cond, Ext, Interp, PyCallable, Rec, SymStr, Undecided, Unknown, closure_of, explore, method_of, to_rf

from sa.texts import T as _TX

EXPLANATION = _TX["C05"]["explanation"] + " Not decided: " + _TX["C05"]["not_decided"] + "."
ASSUMPTIONS = _TX["C05"]["assumptions"]
P = "C05"
S = RF.sym

INHERITED = [p for p, (inh, _) in spec.PROPERTY_TABLE.items() if inh]
EXPECTED_KIND = {p: "copy" for p in INHERITED}
EXPECTED_KIND.update({"opacity": "multiply", "display": "display", "transform": "matrix", "clip-path": "accumulate", "overflow": "overflow",
                      "style": "copy", "id": "none", "data-name": "none", "enable-background": "none"})


class Attrib(dict):
    pass


def _child(attrs):
    return Rec(ClassRef("lxml", "Element"), {"attrib": dict(attrs), "tag": "{http://www.w3.org/2000/svg}path"}, mutable=True)


def _run_handler(repo, fname, parent_attrs, child_attrs, name):
    fn = closure_of(repo, "svg", fname)
    res = {}

    def setup(it):
        it.hooks[("svg_meta", "ntos")] = lambda i, a, k: a[0]
        it.hooks[("svg_transform", "Affine2D.fromstring")] = lambda i, a, k: ("T", a[0])
        it.hooks[("svg_transform", "parse_svg_transform")] = lambda i, a, k: ("T", a[0])
        it.hooks[("svg_transform", "Affine2D.compose_ltr")] = lambda i, a, k: ("ltr",) + tuple(a[-1])
        it.hooks[("svg_transform", "Affine2D.identity")] = lambda i, a, k: ("I",)

    def fresh():
        ch = _child(child_attrs)
        res["child"] = ch
        return ([dict(parent_attrs), ch, name], {})

    outs = explore(repo, fn, [], fresh_args=fresh, setup=setup)
    return outs, res


def handler_kind(repo, fname) -> str:
    """Classify an inheritance handler by interpreting its body on the four presence combinations."""
    name = "x-prop"
    pv, cv = S("pv"), S("cv")
    obs = {}
    for pp, cp in ((0, 0), (1, 0), (0, 1), (1, 1)):
        pa = {name: pv} if pp else {}
        ca = {name: cv} if cp else {}
        fn = closure_of(repo, "svg", fname)
        results = []

        class TVal(Ext):
            def __init__(self, tag): self.tag = tag
            def sym_eq(self, it, other): return isinstance(other, TVal) and other.tag == self.tag
            def sym_getattr(self, it, attr):
                if attr == "tostring":
                    return PyCallable(lambda i, a, k: self)
                raise Undecided(attr)
            def __repr__(self): return f"T{self.tag}"

        def setup(it):
            it.hooks[("svg_meta", "ntos")] = lambda i, a, k: a[0]
            it.hooks[("svg_transform", "Affine2D.fromstring")] = lambda i, a, k: TVal(("parse", repr(a[-1])))
            it.hooks[("svg_transform", "Affine2D.identity")] = lambda i, a, k: TVal(("I",))
            it.hooks[("svg_transform", "Affine2D.compose_ltr")] = lambda i, a, k: TVal(("ltr",) + tuple(x.tag for x in a[-1]))

        holder = {}

        def fresh():
            ch = _child(ca)
            holder["c"] = ch
            return ([dict(pa), ch, name], {})

        outs = explore(repo, fn, [], fresh_args=fresh, setup=setup)
        vals = set()
        for o in outs:
            if o.undecided:
                raise AnalysisError(f"svg.{fname}: evaluator undecided: {o.undecided}")
            if o.raised:
                vals.add(f"raise {o.raised}")
        # re-run deterministic single path to read the child's attribute (handlers do not fork on symbolic numbers)
        it_out = explore(repo, fn, [], fresh_args=fresh, setup=setup)
        v = holder["c"].f["attrib"].get(name, "<absent>")
        obs[(pp, cp)] = (v if isinstance(v, str) else repr(v)) if not any(o.raised for o in it_out) else f"raise {it_out[0].raised}"
    key = (obs[(0, 0)], obs[(1, 0)], obs[(0, 1)], obs[(1, 1)])
    if key == ("<absent>", "pv", "cv", "cv"):
        return "copy"
    if key == ("<absent>", "pv", "cv", "cv*pv") or key == ("<absent>", "pv", "cv", "pv*cv"):
        return "multiply"
    if key == ("<absent>", "<absent>", "cv", "cv"):
        return "none"
    return "other:" + "|".join(key)


def run(repo: Repo, rep: Report):
    svg = repo["svg"]
    st = repo["svg_types"]
    meta = repo["svg_meta"]
    folder = Folder(repo)
    for rid, txt in [
        ("R-TABLE.inheritance", "_INHERIT_ATTRIB_HANDLERS maps every property to the handler kind SVG prescribes (kinds derived from the bodies)"),
        ("R-TABLE.defaults", "ATTRIB_DEFAULTS equal the SVG initial values; inheritable defaults are a sub-table"),
        ("R-CASE.group-retention", "removable iff attribute-less, <=1 non-redundant child, or clamped opacity in {0,1}; the opacity of a dissolved group (also a <use> wrapper, also the root) reaches the children exactly once (interpreted)"),
        ("R-SITE.style-precedence", "apply_style_attributes interpreted: every declaration of every style attribute becomes an attribute and wins over the element's own; style consumed; with and without cached shapes"),
        ("R-CASE.normalize-opacity", "normalize_opacity folds the opacity of the absent paint (four none/paint combinations)"),
        ("R-SITE.context", "traversal contexts carry the cascaded presentation attributes (own wins); the converted schematic document paints every path as the cascade says (groups, root, use, nested svg, style)"),
    ]:
        rep.rule(rid, txt)
    # ---- handler table
    table = folder.table("svg", "_INHERIT_ATTRIB_HANDLERS")
    rep.tables.add("svg._INHERIT_ATTRIB_HANDLERS")
    rep.floor("entries of _INHERIT_ATTRIB_HANDLERS", len(table), 20)
    kinds = {}
    special = {}
    for fname in sorted({v.name for v in table.values() if isinstance(v, Ref)}):
        rep.saw(f"svg.{fname}")
        kinds[fname] = handler_kind(repo, fname)
    # refine the special handlers by targeted interpretation
    special["display"] = _display_kind(repo, table)
    special["overflow"] = _overflow_kind(repo, table)
    special["transform"] = _matrix_kind(repo, table)
    special["clip-path"] = _clip_kind(repo, table)
    for prop, want in sorted(EXPECTED_KIND.items()):
        h = table.get(prop)
        if h is None:
            if want == "none":
                continue
            rep.fail("R-TABLE.inheritance", "svg._INHERIT_ATTRIB_HANDLERS", f"{prop!r}: <missing>", f"property {prop!r} has no inheritance handler (SVG: {want})", svg)
            continue
        got = special.get(prop) or kinds.get(h.name, "?")
        if got == want:
            rep.ok("R-TABLE.inheritance", f"svg._INHERIT_ATTRIB_HANDLERS[{prop!r}] = {h.name}", f"behaves as {want}", True)
        else:
            rep.fail("R-TABLE.inheritance", "svg._INHERIT_ATTRIB_HANDLERS", f"{prop!r}: {h.name}",
                     f"property {prop!r} is handled as {got!r}; SVG prescribes {want!r}"
                     + (" (inherited: the child's own value wins, otherwise the parent's is used)" if want == "copy" else ""), svg)
    for prop in table:
        if prop not in EXPECTED_KIND:
            rep.fail("R-TABLE.inheritance", "svg._INHERIT_ATTRIB_HANDLERS", f"{prop!r}", f"unexpected property {prop!r} in the inheritance table", svg)
    cust = folder.table("svg", "_ATTRIB_W_CUSTOM_INHERITANCE")
    if set(cust) == {"clip-path", "opacity", "transform"}:
        rep.ok("R-TABLE.inheritance", "svg._ATTRIB_W_CUSTOM_INHERITANCE = {clip-path, opacity, transform}", "not passed down through the context (handled on flattening)")
    else:
        rep.fail("R-TABLE.inheritance", "svg._ATTRIB_W_CUSTOM_INHERITANCE", str(sorted(cust)), "set of attributes excluded from the traversal context changed", svg)
    # ---- defaults
    dflt = folder.table("svg_meta", "ATTRIB_DEFAULTS")
    bad = {k: (dflt.get(k), v[1]) for k, v in spec.PROPERTY_TABLE.items() if k in dflt and v[1] is not None and dflt.get(k) != v[1]}
    missing = [k for k, v in spec.PROPERTY_TABLE.items() if v[1] is not None and k not in dflt and k not in ("overflow",)]
    if bad or missing:
        rep.fail("R-TABLE.defaults", "svg_meta.ATTRIB_DEFAULTS", str(bad or missing), f"defaults differ from the SVG initial values: {bad} missing {missing}", meta)
    else:
        rep.ok("R-TABLE.defaults", "svg_meta.ATTRIB_DEFAULTS", f"{len(dflt)} entries equal the SVG initial values")
    idef = folder.table("svg", "_INHERITABLE_ATTRIB_DEFAULTS")
    bad = {k: v for k, v in idef.items() if k not in dflt or str(v) not in (str(dflt[k]), str(int(dflt[k])) if isinstance(dflt[k], float) and dflt[k].is_integer() else str(dflt[k]))}
    if bad:
        rep.fail("R-TABLE.defaults", "svg._INHERITABLE_ATTRIB_DEFAULTS", str(bad), "inheritable defaults disagree with ATTRIB_DEFAULTS", svg)
    else:
        rep.ok("R-TABLE.defaults", "svg._INHERITABLE_ATTRIB_DEFAULTS", f"{len(idef)} entries, each the printed form of the ATTRIB_DEFAULTS value")
    from sa.rules import groups, sem
    groups.check_removable_predicate(repo, rep, "R-CASE.group-retention", "keep-or-flatten decision")
    groups.check_try_remove_group(repo, rep, "R-CASE.group-retention", "flattening / retention effect")
    sem.check_resolve_use(repo, rep, {"render": "R-CASE.group-retention"})
    sem.check_simplify(repo, rep, {"structure": "R-CASE.group-retention"})
    sem.check_styles(repo, rep, "R-SITE.style-precedence")
    _check_normalize(repo, rep)
    sem.check_traverse(repo, rep, {"attrib": "R-SITE.context"})
    sem.check_pipeline(repo, rep, {"paint": "R-SITE.context"})
    sem.check_nested_svg(repo, rep, {"render": "R-SITE.context"})


def _val(repo, fname, pa, ca, name):
    fn = closure_of(repo, "svg", fname)
    holder = {}

    def setup(it):
        it.hooks[("svg_meta", "ntos")] = lambda i, a, k: a[0]

    def fresh():
        ch = _child(ca)
        holder["c"] = ch
        return ([dict(pa), ch, name], {})

    outs = explore(repo, fn, [], fresh_args=fresh, setup=setup)
    for o in outs:
        if o.undecided:
            raise AnalysisError(f"svg.{fname}: evaluator undecided: {o.undecided}")
    return holder["c"].f["attrib"].get(name, "<absent>")


def _display_kind(repo, table):
    h = table.get("display")
    if h is None:
        return None
    f = h.name
    n = "display"
    r = [_val(repo, f, {n: "none"}, {n: "inline"}, n), _val(repo, f, {n: "none"}, {}, n), _val(repo, f, {n: "inline"}, {n: "block"}, n),
         _val(repo, f, {n: "inline"}, {}, n), _val(repo, f, {}, {n: "none"}, n), _val(repo, f, {}, {}, n)]
    return "display" if r == ["none", "none", "block", "inline", "none", "<absent>"] else "other:" + "|".join(map(str, r))


def _overflow_kind(repo, table):
    h = table.get("overflow")
    if h is None:
        return None
    f, n = h.name, "overflow"
    r = [_val(repo, f, {n: "visible"}, {}, n), _val(repo, f, {n: "hidden"}, {}, n), _val(repo, f, {n: "hidden"}, {n: "visible"}, n), _val(repo, f, {}, {n: "hidden"}, n)]
    return "overflow" if r == ["<absent>", "hidden", "visible", "hidden"] else "other:" + "|".join(map(str, r))


def _clip_kind(repo, table):
    h = table.get("clip-path")
    if h is None:
        return None
    f, n = h.name, "clip-path"
    r = [_val(repo, f, {n: "url(#b)"}, {n: "url(#a)"}, n), _val(repo, f, {n: "url(#b)"}, {}, n), _val(repo, f, {}, {n: "url(#a)"}, n)]
    return "accumulate" if r == ["url(#a),url(#b)", "url(#b)", "url(#a)"] else "other:" + "|".join(map(str, r))


def _matrix_kind(repo, table):
    """The transform handler interpreted on formal affine maps: the child ends up with its own transform applied first, then the
    parent's; a lone transform is kept as it is; nothing is left when the product is the identity."""
    h = table.get("transform")
    if h is None:
        return None
    from sa.dom import AffTok, install_affine
    fn = closure_of(repo, "svg", h.name)
    n = "transform"
    got = []
    for pa, ca in (({n: "tP"}, {n: "tC"}), ({n: "tP"}, {}), ({}, {n: "tC"}), ({n: "tP"}, {n: "tC", "fill": "red"})):
        holder = {}

        def fresh(pa=pa, ca=ca):
            ch = _child(ca)
            holder["c"] = ch
            return ([dict(pa), ch, n], {})

        outs = explore(repo, fn, [], fresh_args=fresh, setup=install_affine)
        for o in outs:
            if o.undecided:
                raise AnalysisError(f"svg.{h.name}: evaluator undecided: {o.undecided}")
        if len(outs) != 1 or outs[0].raised:
            got.append(f"{len(outs)} outcomes" if len(outs) != 1 else f"raises {outs[0].raised}")
            continue
        v = holder["c"].f["attrib"].get(n, "<absent>")
        tok = AffTok.registry.get(v) if isinstance(v, str) else (v if isinstance(v, AffTok) else None)
        got.append("*".join(tok.app) if tok is not None else str(v))
    want = ["parse(tC)*parse(tP)", "parse(tP)", "parse(tC)", "parse(tC)*parse(tP)"]
    return "matrix" if got == want else "other:" + "|".join(got)


def _owner(node):
    p = parent(node)
    while p is not None and not isinstance(p, (ast.FunctionDef, ast.AsyncFunctionDef)):
        p = parent(p)
    return p


def _check_normalize(repo, rep):
    st = repo["svg_types"]
    F = "svg_types.SVGShape.normalize_opacity"
    rep.saw(F)
    from sa.pathsem import new_path, install_path_hooks
    fn = method_of(repo, "svg_types", "SVGShape", "normalize_opacity")
    bad = []
    for fill, stroke in (("none", "none"), ("none", "red"), ("blue", "none"), ("blue", "red")):
        outs = explore(repo, fn, [], fresh_args=lambda: ([new_path(repo, [], fill=fill, stroke=stroke, opacity=S("o"), fill_opacity=S("fo"), stroke_opacity=S("so"))], {"inplace": True}),
                       setup=lambda it: install_path_hooks(it))
        for o in outs:
            if o.undecided:
                raise AnalysisError(f"{F}: evaluator undecided: {o.undecided}")
            if o.raised:
                bad.append((fill, stroke, f"raises {o.raised}"))
                continue
            f = o.value.f
            if fill == "none" and stroke != "none":
                want = (S("o") * S("so"), S("fo"), RF.of(1))
            elif stroke == "none" and fill != "none":
                want = (S("o") * S("fo"), RF.of(1), S("so"))
            else:
                want = (S("o"), S("fo"), S("so"))
            got = (to_rf(f["opacity"]), to_rf(f["fill_opacity"]), to_rf(f["stroke_opacity"]))
            if not all(g.equals(w) for g, w in zip(got, want)):
                bad.append((fill, stroke, f"(opacity, fill-opacity, stroke-opacity) = {got}, expected {want}"))
    if bad:
        fl, sk, msg = bad[0]
        rep.fail("R-CASE.normalize-opacity", F, f"fill={fl} stroke={sk}", msg, st, st.func("SVGShape.normalize_opacity"))
    else:
        rep.ok("R-CASE.normalize-opacity", F, "4 none/paint combinations: the opacity of the only visible paint is folded into opacity and reset to 1", True)


_S = "svg"
VARIANTS = [
    Variant("<use> copies take the fill of the group the target sits in",
            [Edit(_S, "SVG._resolve_use", "                new_el = copy.deepcopy(target)\n",
                  "                new_el = copy.deepcopy(target)\n                if target.getparent() is not None and \"fill\" in target.getparent().attrib and \"fill\" not in new_el.attrib:\n                    new_el.attrib[\"fill\"] = target.getparent().attrib[\"fill\"]\n")],
            [("R-CASE.group-retention", "_resolve_use")]),
    Variant("group transform applied before the child's own", [Edit(_S, "_inherit_matrix_multiply", "(Affine2D.fromstring(child.attrib[attr_name]), transform)", "(transform, Affine2D.fromstring(child.attrib[attr_name]))")],
            [("R-TABLE.inheritance", "_INHERIT_ATTRIB_HANDLERS")]),
    Variant("child transform replaces the group's", [Edit(_S, "_inherit_matrix_multiply", "(Affine2D.fromstring(child.attrib[attr_name]), transform)", "(Affine2D.fromstring(child.attrib[attr_name]),)")],
            [("R-TABLE.inheritance", "_INHERIT_ATTRIB_HANDLERS")]),
    Variant("silent: transform handler rewritten with get / early return", [Edit(_S, "_inherit_matrix_multiply", "    if transform != Affine2D.identity():\n        child.attrib[attr_name] = transform.tostring()\n    else:\n        del child.attrib[attr_name]",
                                                                              "    if transform == Affine2D.identity():\n        del child.attrib[attr_name]\n        return\n    child.attrib[attr_name] = transform.tostring()")], silent=True),
    Variant("opacity copied instead of multiplied", [Edit(_S, None, '    "opacity": _inherit_multiply,', '    "opacity": _inherit_copy,')], [("R-TABLE.inheritance", "_INHERIT_ATTRIB_HANDLERS")]),
    Variant("fill-opacity multiplied", [Edit(_S, None, '    "fill-opacity": _inherit_copy,', '    "fill-opacity": _inherit_multiply,')], [("R-TABLE.inheritance", "_INHERIT_ATTRIB_HANDLERS")]),
    Variant("<= 1 becomes < 1", [Edit(_S, "_is_removable_group", "num_children <= 1", "num_children < 1")], [("R-CASE.group-retention", "_is_removable_group")]),
    Variant("redundant filter dropped from the count", [Edit(_S, "_is_removable_group", "sum(1 for e in el if not _is_redundant(e.tag))", "sum(1 for e in el)")], [("R-CASE.group-retention", "_is_removable_group")]),
    Variant("only shapes counted", [Edit(_S, "_is_removable_group", "sum(1 for e in el if not _is_redundant(e.tag))", "sum(1 for e in el if _is_shape(e.tag))")], [("R-CASE.group-retention", "_is_removable_group")]),
    Variant("style only if attribute absent", [Edit("svg_meta", "parse_css_declarations", "                try:\n                    output[property_name] = value", "                try:\n                    if property_name not in output:\n                        output[property_name] = value")],
            [("R-SITE.style-precedence", "apply_style_attributes")]),
    Variant("normalize_opacity pairs swapped", [Edit("svg_types", "SVGShape.normalize_opacity", '("fill", "stroke_opacity"),\n            ("stroke", "fill_opacity"),', '("fill", "fill_opacity"),\n            ("stroke", "stroke_opacity"),')],
            [("R-CASE.normalize-opacity", "normalize_opacity")]),
    Variant("use opacity pushed twice", [Edit(_S, "SVG._resolve_use", "_try_remove_group(group, push_opacity=False)", "_try_remove_group(group)")], [("R-CASE.group-retention", "_resolve_use")]),
    Variant("copy handler parent wins", [Edit(_S, "_inherit_copy", "    if attr_name in child.attrib:\n        return\n", "")], [("R-TABLE.inheritance", "_INHERIT_ATTRIB_HANDLERS")]),
    Variant("display none no longer dominates", [Edit(_S, "_inherit_nondefault_display", '    if value == "none":', '    if value == "never":')], [("R-TABLE.inheritance", "_INHERIT_ATTRIB_HANDLERS")]),
    Variant("default of fill changed", [Edit("svg_meta", None, '"fill": "black",', '"fill": "none",')], [("R-TABLE.defaults", "ATTRIB_DEFAULTS")]),
    Variant("silent: multiply written as product expression", [Edit(_S, "_inherit_multiply", "    value = float(attrib.get(attr_name, 1.0))\n    value *= float(child.attrib.get(attr_name, 1.0))\n", "    value = float(child.attrib.get(attr_name, 1.0)) * float(attrib.get(attr_name, 1.0))\n")], silent=True),
]

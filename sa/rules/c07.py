"""C07 - conversion is idempotent (ordering clauses; numeric stability is not applicable to this family)."""
from __future__ import annotations

import ast

from sa.calls import Resolver
from sa.core import AnalysisError, Repo, Report, call_name, kwarg, parent, unparse, walk_no_nested
from sa.poly import RF
from sa.selftest import Edit, Variant
from sa.sym import ClassRef, Rec, explore, method_of, to_rf

from sa.texts import T as _TX

EXPLANATION = _TX["C07"]["explanation"] + " Not decided: " + _TX["C07"]["not_decided"] + "."
ASSUMPTIONS = _TX["C07"]["assumptions"]
P = "C07"
S = RF.sym


def run(repo: Repo, rep: Report):
    from sa.rules import c09, sem
    svg = repo["svg"]
    for rid, txt in [
        ("R-ORDER.cleanup-after-removal", "topicosvg interpreted twice on a schematic document using every supported feature: the second pass leaves elements and attributes unchanged"),
        ("R-ORDER.rounding-last", "in the interpreted result rounding is the last writer of every number (engine geometry: outermost numeric operation; plain paths: every number has at most ndigits decimals); round_floats rounds every argument and float field"),
        ("R-CASE.gradient-fixpoint", "normalising a normalised gradient is a no-op: decompose_translation of a translation-free matrix is (identity, self); folding no translation moves nothing"),
        ("R-SITE.id-allocation", "an untransformed gradient-filled shape keeps its gradient (nothing is cloned or renamed when there is nothing to fold in)"),
        ("R-EFFECT.gate-pure", "a converted schematic document passes the gate; the gate does not modify a document unless drop_unsupported is given"),
    ]:
        rep.rule(rid, txt)
    sem.check_pipeline(repo, rep, {"fixpoint": "R-ORDER.cleanup-after-removal", "rounding": "R-ORDER.rounding-last", "completes": "R-EFFECT.gate-pure"})
    c09._check_round(repo, rep)
    from sa.rules import c10
    c10.check_ntos(repo, rep, "R-ORDER.rounding-last")
    sem.check_simplify(repo, rep, {"gradient": "R-SITE.id-allocation"})
    sem.check_gate(repo, rep, {"pure": "R-EFFECT.gate-pure", "accepts": "R-EFFECT.gate-pure"})
    sem.check_gradient_translation(repo, rep, "R-CASE.gradient-fixpoint")
    # ---- gradient fixpoint: decompose_translation with e = f = 0
    T = repo["svg_transform"]
    aff = Rec(ClassRef("svg_transform", "Affine2D"), {"a": S("a"), "b": S("b"), "c": S("c"), "d": S("d"), "e": 0, "f": 0})
    outs = explore(repo, method_of(repo, "svg_transform", "Affine2D", "decompose_translation"), [aff])
    good = bool(outs)
    for o in outs:
        if o.undecided:
            raise AnalysisError(f"decompose_translation: {o.undecided}")
        if o.raised:
            good = False
            continue
        tr, rest = o.value
        if not (all(to_rf(tr.f[k]).equals(v) for k, v in zip("abcdef", (1, 0, 0, 1, 0, 0))) and all(to_rf(rest.f[k]).equals(aff.f[k]) for k in "abcdef")):
            good = False
    if good:
        rep.ok("R-CASE.gradient-fixpoint", "svg_transform.Affine2D.decompose_translation(e = f = 0)", "returns (identity, self) on every path: _apply_gradient_translation leaves a normalised gradient unchanged", True)
    else:
        rep.fail("R-CASE.gradient-fixpoint", "svg_transform.Affine2D.decompose_translation", "decompose_translation() of a translation-free matrix",
                 "a matrix without translation is not decomposed into (identity, itself): the second pass rewrites gradient coordinates again", T, T.func("Affine2D.decompose_translation"))


def _in_body(node, body) -> bool:
    for s in body:
        for n in ast.walk(s):
            if n is node:
                return True
    return False


_S = "svg"
VARIANTS = [
    Variant("normalize_opacity after round_floats", [Edit(_S, "SVG.topicosvg", "        self.normalize_opacity(inplace=True)\n        self.absolute(inplace=True)\n        self.round_floats(ndigits, inplace=True)\n",
                                                          "        self.absolute(inplace=True)\n        self.round_floats(ndigits, inplace=True)\n        self.normalize_opacity(inplace=True)\n")],
            [("R-ORDER.rounding-last", "topicosvg")]),
    Variant("clipPaths swept at the end", [Edit(_S, "SVG._simplify", '            if "clipPath" in context.path:\n                _safe_remove(context.element)\n                continue\n', '            if "clipPath" in context.path:\n                continue\n'),
                                           Edit(_S, "SVG._simplify", "        self.elements = None  # force elements to reload", "        for cp in self.xpath(\"//svg:clipPath\"):\n            _safe_remove(cp)\n        self.elements = None  # force elements to reload")],
            [("R-ORDER.cleanup-after-removal", "topicosvg")]),
    Variant("empty subpaths removed before rounding", [Edit(_S, "SVG.topicosvg", "        self.round_floats(ndigits, inplace=True)\n", "        self.remove_empty_subpaths(inplace=True)\n        self.round_floats(ndigits, inplace=True)\n"),
                                                       Edit(_S, "SVG.topicosvg", "        # https://github.com/googlefonts/picosvg/issues/269 remove empty subpaths *after* rounding\n        self.remove_empty_subpaths(inplace=True)\n", "")],
            [("R-ORDER.rounding-last", "topicosvg")]),
    Variant("gradients cloned for untransformed shapes too", [Edit(_S, "SVG._simplify", 'if context.transform != Affine2D.identity() and "url" in el.attrib.get(\n                    "fill", ""\n                ):', 'if "url" in el.attrib.get("fill", ""):')],
            [("R-SITE.id-allocation", "_simplify")]),
    Variant("check drops empty groups", [Edit(_S, "SVG.checkpicosvg", "            paths_required.discard(context.path)\n", "            paths_required.discard(context.path)\n            if _is_group(context.element) and len(context.element) == 0:\n                _safe_remove(context.element)\n")],
            [("R-EFFECT.gate-pure", "checkpicosvg")]),
    Variant("new id allocation in remove_unpainted_shapes", [Edit(_S, "SVG.remove_unpainted_shapes", "        self.elements = None\n\n        return self", "        self.svg_root.attrib[\"id\"] = self._new_id(\"root-%d\")\n        self.elements = None\n\n        return self")],
            [("R-", "topicosvg")]),
    Variant("numbers with an exponent printed in fixed notation", [Edit("svg_meta", "ntos", "else str(n)", 'else (f"{n:f}" if "e" in str(n) else str(n))')],
            [("R-ORDER.rounding-last", "ntos")]),
    Variant("group opacity rounded after the keep decision", [Edit(_S, "SVG.round_floats", "        return self\n", '        self._update_etree()\n        for group_el in self.xpath("//svg:g[@opacity]"):\n            group_el.attrib["opacity"] = ntos(round(float(group_el.attrib["opacity"]), ndigits))\n        return self\n')],
            [("R-ORDER.cleanup-after-removal", "topicosvg")]),
    Variant("silent: comment", [Edit(_S, "SVG.topicosvg", "        # Tidy up\n", "        # Tidy up (order matters)\n")], silent=True),
]

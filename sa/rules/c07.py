"""C07 - conversion is idempotent (ordering clauses; numeric stability is not applicable to this family)."""
from __future__ import annotations

import ast

from sa.calls import Resolver
from sa.core import AnalysisError, Repo, Report, call_name, kwarg, parent, unparse, walk_no_nested
from sa.poly import RF
from sa.selftest import Edit, Variant
from sa.sym import ClassRef, Rec, explore, method_of, to_rf

EXPLANATION = (
    "Byte equality of two runs depends on float formatting and Skia and is not decidable statically. Decided, each necessary for a fixed "
    "point: (1) no stage that deletes shape elements follows the last group pruning / orphan-gradient removal (fails today: known finding "
    "F5); (2) round_floats is the last writer of numbers - no geometry- or opacity-producing stage after it, normalize_opacity and absolute "
    "before it, emptiness/paintedness judged after it - and it rounds every path number unconditionally and every float field; clipPath "
    "subtrees are deleted inside the leaves-first walk, i.e. before the keep/flatten decision of their parent group and before orphan "
    "removal; (3) gradient parameters are rounded with one constant and decompose_translation of an already translation-free matrix returns "
    "(identity, self), so re-normalising a normalised gradient is a no-op; (4) generated ids are only allocated for transformed-gradient "
    "clones and nested-svg clips, constructs that a converted document no longer contains; (5) the gate is on every normal return and "
    "checkpicosvg does not modify the tree unless drop_unsupported is set."
)
ASSUMPTIONS = ["re-parsing a printed number yields the same float (CPython), lxml re-serialises attributes in the same order"]
P = "C07"
S = RF.sym


def run(repo: Repo, rep: Report):
    svg = repo["svg"]
    res = Resolver(repo)
    from sa.rules import c01
    for rid, txt in [
        ("R-ORDER.cleanup-after-removal", "no shape-deleting stage after the last group pruning / orphan-gradient removal"),
        ("R-ORDER.rounding-last", "round_floats is the last writer of numbers; it covers every number"),
        ("R-SITE.clippath-early", "clipPath subtrees are deleted within the leaves-first walk, before group decisions and orphan removal"),
        ("R-CASE.gradient-fixpoint", "normalising a normalised gradient is a no-op"),
        ("R-SITE.id-allocation", "ids are allocated only for constructs absent from a converted document"),
        ("R-EFFECT.gate-pure", "the gate is on every normal return and does not edit the tree unless asked to"),
    ]:
        rep.rule(rid, txt)
    order = c01.topicosvg_order(repo, res)
    F = "svg.SVG.topicosvg"
    fn = svg.func("SVG.topicosvg")
    rep.saw(F)
    entry = order.branch_entry("not inplace", "false")
    c01._cleanup_after_removal(repo, rep, res, order)
    # ---- rounding last
    for a, b, why in [("normalize_opacity", "round_floats", "an opacity product computed after rounding is written unrounded and rounded only by the next pass"),
                      ("absolute", "round_floats", "rounding must see the final numbers"),
                      ("evenodd_to_nonzero_winding", "round_floats", "remove_overlaps produces new unrounded geometry"),
                      ("simplify", "round_floats", "simplify produces new unrounded geometry"),
                      ("round_floats", "remove_empty_subpaths", "emptiness must be judged on the rounded geometry the next pass will see"),
                      ("round_floats", "remove_unpainted_shapes", "paintedness must be judged on the rounded geometry the next pass will see")]:
        if not order.has(a) or not order.on_all_paths_from(entry, a):
            rep.fail("R-ORDER.rounding-last", F, f"self.{a}(inplace=True)", f"stage {a} missing or conditional ({why})", svg, fn)
            continue
        bad = order.must_precede(a, b)
        if bad:
            rep.fail("R-ORDER.rounding-last", F, f"{a} before {b}", f"{bad} - {why}", svg, fn, path=[f"entry {F}", bad])
        else:
            rep.ok("R-ORDER.rounding-last", f"{F}: {a} dominates {b}", why, True)
    for g in c01.GEOMETRY_STAGES:
        bad = order.never_after(g, "round_floats")
        if bad:
            rep.fail("R-ORDER.rounding-last", F, f"{g} after round_floats", f"{bad}: its numbers reach the output unrounded; the second pass rounds them and differs", svg, fn)
        else:
            rep.ok("R-ORDER.rounding-last", f"{F}: {g} never after round_floats")
    from sa.rules import c09
    c09._check_round(repo, rep)
    c01._check_stage_bodies(repo, rep)
    # ---- clipPath subtrees removed inside the walk
    sp = svg.func("SVG._simplify")
    main = next((l for l in sp.body if isinstance(l, ast.For) and unparse(l.iter) == "to_process"), None)
    if main is None:
        raise AnalysisError("_simplify: main loop not found")
    first = main.body[0]
    ok = isinstance(first, ast.If) and "'clipPath' in context.path" in unparse(first.test) and "_safe_remove(context.element)" in unparse(first.body[0])
    later = [c for s in sp.body[sp.body.index(main) + 1:] for c in ast.walk(s) if isinstance(c, ast.Call) and "clipPath" in unparse(c)]
    if ok and not later:
        rep.ok("R-SITE.clippath-early", "svg.SVG._simplify", "clipPath elements are removed when visited (leaves first), before their parent group is judged and before orphan removal", True)
    else:
        rep.fail("R-SITE.clippath-early", "svg.SVG._simplify", "if 'clipPath' in context.path: _safe_remove(context.element); continue",
                 "clipPath subtrees are removed after the group keep/flatten decisions or after orphan-gradient removal: pass 1 counts them as children / "
                 "users, pass 2 does not", svg, sp)
    if "to_process = reversed(tuple((c for c in self.breadth_first())))" in unparse(sp):
        rep.ok("R-SITE.clippath-early", "svg.SVG._simplify: leaves-first order (reversed breadth-first)")
    else:
        rep.fail("R-SITE.clippath-early", "svg.SVG._simplify", "to_process = reversed(tuple(c for c in self.breadth_first()))", "elements are no longer processed leaves first", svg, sp)
    # ---- gradient fixpoint: decompose_translation with e = f = 0
    T = repo["svg_transform"]
    aff = Rec(ClassRef("svg_transform", "Affine2D"), {"a": S("a"), "b": S("b"), "c": S("c"), "d": S("d"), "e": 0, "f": 0})
    outs = explore(repo, method_of(repo, "svg_transform", "Affine2D", "decompose_translation"), [aff])
    good = bool(outs)
    for o in outs:
        if o.undecided:
            raise AnalysisError(f"decompose_translation: {o.undecided}")
        if o.raised:
            good = False
            continue
        tr, rest = o.value
        if not (all(to_rf(tr.f[k]).equals(v) for k, v in zip("abcdef", (1, 0, 0, 1, 0, 0))) and all(to_rf(rest.f[k]).equals(aff.f[k]) for k in "abcdef")):
            good = False
    if good and len(outs) == 1:
        rep.ok("R-CASE.gradient-fixpoint", "svg_transform.Affine2D.decompose_translation(e = f = 0)", "returns (identity, self) without forking: _apply_gradient_translation leaves a normalised gradient unchanged", True)
    else:
        rep.fail("R-CASE.gradient-fixpoint", "svg_transform.Affine2D.decompose_translation", "decompose_translation() of a translation-free matrix",
                 "a matrix without translation is not decomposed into (identity, itself): the second pass rewrites gradient coordinates again", T, T.func("Affine2D.decompose_translation"))
    gt = svg.func("SVG._apply_gradient_translation")
    if "if translate.round(_GRADIENT_TRANSFORM_NDIGITS) != Affine2D.identity():" in unparse(gt):
        rep.ok("R-CASE.gradient-fixpoint", "svg.SVG._apply_gradient_translation", "coordinates are only touched when the (rounded) translation is not the identity")
    else:
        rep.fail("R-CASE.gradient-fixpoint", "svg.SVG._apply_gradient_translation", "if translate.round(_GRADIENT_TRANSFORM_NDIGITS) != Affine2D.identity()", "gradient coordinates are rewritten even without a translation", svg, gt)
    # ---- id allocation sites
    sites = []
    for q, f in svg.functions.items():
        for c in ast.walk(f):
            if isinstance(c, ast.Call) and call_name(c) == "self._new_id":
                sites.append((q, c))
    allowed = {"SVG._transformed_gradient": "clone of a gradient under a transformed shape (no transform survives pass 1)",
               "SVG._unnest_svg": "clip for a nested svg (no nested svg survives pass 1)"}
    for q, c in sites:
        if q in allowed:
            rep.ok("R-SITE.id-allocation", f"svg.{q}: {unparse(c)[:50]}", allowed[q])
        else:
            rep.fail("R-SITE.id-allocation", f"svg.{q}", c, "new id allocation site: if it can trigger on an already converted document the second pass renames things", svg, c)
    rep.floor("_new_id call sites", len(sites), 2)
    tg = [n for n in ast.walk(svg.func("SVG._simplify")) if isinstance(n, ast.If) and "context.transform != Affine2D.identity()" in unparse(n.test) and "url" in unparse(n.test)]
    if tg:
        rep.ok("R-SITE.id-allocation", "svg.SVG._simplify: gradient clones only under a non-identity context transform")
    else:
        rep.fail("R-SITE.id-allocation", "svg.SVG._simplify", "if context.transform != Affine2D.identity() and 'url' in fill", "gradients are cloned (and renamed) even for untransformed shapes: ids drift on every pass", svg, svg.func("SVG._simplify"))
    # ---- gate
    if order.has("checkpicosvg") and order.on_all_paths_from(entry, "checkpicosvg"):
        rep.ok("R-EFFECT.gate-pure", f"{F}: checkpicosvg on every normal return")
    else:
        rep.fail("R-EFFECT.gate-pure", F, "self.checkpicosvg(...)", "a converted document may not have passed the picosvg check", svg, fn)
    from sa.typestate import CacheTypestate
    ts = CacheTypestate(repo)
    ck = svg.func("SVG.checkpicosvg")
    writes = []
    for c in ast.walk(ck):
        if isinstance(c, ast.Call) and (call_name(c) in ts.tw.writers or call_name(c).endswith((".remove", ".append", ".insert")) and not call_name(c).startswith(("errors", "bad_paths", "paths_required", "path_allowlist"))):
            writes.append(c)
        if isinstance(c, (ast.Assign, ast.Delete)) and any("attrib" in unparse(t) for t in (c.targets if isinstance(c, (ast.Assign, ast.Delete)) else [])):
            writes.append(c)
    bad = []
    for w in writes:
        p = parent(w)
        guarded = False
        while p is not None and p is not ck:
            if isinstance(p, ast.If) and unparse(p.test) == "drop_unsupported" and _in_body(w, p.body):
                guarded = True
            p = parent(p)
        if not guarded:
            bad.append(w)
    if bad:
        rep.fail("R-EFFECT.gate-pure", "svg.SVG.checkpicosvg", bad[0], "the check modifies the tree outside the `if drop_unsupported` branch: checking a converted document changes it", svg, bad[0])
    else:
        rep.ok("R-EFFECT.gate-pure", "svg.SVG.checkpicosvg", f"{len(writes)} tree write(s), all under `if drop_unsupported`", True)


def _in_body(node, body) -> bool:
    for s in body:
        for n in ast.walk(s):
            if n is node:
                return True
    return False


_S = "svg"
VARIANTS = [
    Variant("normalize_opacity after round_floats", [Edit(_S, "SVG.topicosvg", "        self.normalize_opacity(inplace=True)\n        self.absolute(inplace=True)\n        self.round_floats(ndigits, inplace=True)\n",
                                                          "        self.absolute(inplace=True)\n        self.round_floats(ndigits, inplace=True)\n        self.normalize_opacity(inplace=True)\n")],
            [("R-ORDER.rounding-last", "topicosvg")]),
    Variant("clipPaths swept at the end", [Edit(_S, "SVG._simplify", '            if "clipPath" in context.path:\n                _safe_remove(context.element)\n                continue\n', '            if "clipPath" in context.path:\n                continue\n'),
                                           Edit(_S, "SVG._simplify", "        self.elements = None  # force elements to reload", "        for cp in self.xpath(\"//svg:clipPath\"):\n            _safe_remove(cp)\n        self.elements = None  # force elements to reload")],
            [("R-SITE.clippath-early", "_simplify")]),
    Variant("empty subpaths removed before rounding", [Edit(_S, "SVG.topicosvg", "        self.round_floats(ndigits, inplace=True)\n", "        self.remove_empty_subpaths(inplace=True)\n        self.round_floats(ndigits, inplace=True)\n"),
                                                       Edit(_S, "SVG.topicosvg", "        # https://github.com/googlefonts/picosvg/issues/269 remove empty subpaths *after* rounding\n        self.remove_empty_subpaths(inplace=True)\n", "")],
            [("R-ORDER.rounding-last", "topicosvg")]),
    Variant("gradients cloned for untransformed shapes too", [Edit(_S, "SVG._simplify", 'if context.transform != Affine2D.identity() and "url" in el.attrib.get(\n                    "fill", ""\n                ):', 'if "url" in el.attrib.get("fill", ""):')],
            [("R-SITE.id-allocation", "_simplify")]),
    Variant("translation-free matrices still decomposed", [Edit("svg_transform", "Affine2D.decompose_translation", "        if self.almost_equals(affine_prime):\n            return Affine2D.identity(), affine_prime\n", "")],
            [("R-CASE.gradient-fixpoint", "decompose_translation")], allow_analysis_error=True),
    Variant("check drops empty groups", [Edit(_S, "SVG.checkpicosvg", "            paths_required.discard(context.path)\n", "            paths_required.discard(context.path)\n            if _is_group(context.element) and len(context.element) == 0:\n                _safe_remove(context.element)\n")],
            [("R-EFFECT.gate-pure", "checkpicosvg")]),
    Variant("new id allocation in remove_unpainted_shapes", [Edit(_S, "SVG.remove_unpainted_shapes", "        self.elements = None\n\n        return self", "        self.svg_root.attrib[\"id\"] = self._new_id(\"root-%d\")\n        self.elements = None\n\n        return self")],
            [("R-SITE.id-allocation", "remove_unpainted_shapes")]),
    Variant("silent: comment", [Edit(_S, "SVG.topicosvg", "        # Tidy up\n", "        # Tidy up (order matters)\n")], silent=True),
]

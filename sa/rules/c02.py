"""C02 - flattening groups, transforms, use and nested svg preserves the rendering (composition-order clauses)."""
from __future__ import annotations

import ast
import re

from sa.core import AnalysisError, Repo, Report, call_name, kwarg, parent, unparse, walk_no_nested
from sa.rules.common import calls_named, compose_operands, rtext, enclosing
from sa.selftest import Edit, Variant

EXPLANATION = (
    "The geometric statement (same paint stack at every sample point) is not decidable statically. Decided necessary conditions: (R-SITE) "
    "every affine composition site of the flattening code is normalised to an application list (first-applied first, operands resolved "
    "through def-use to their provenance: own attribute of the element / accumulated context / use offset / viewport mapping) and compared "
    "with the order SVG prescribes; compose_ltr's own semantics is C11; (R-ORDER) in _simplify every emitted piece passes "
    "apply_transform(context.transform) unless the context transform is the identity, and apply_transform maps the command sequence through "
    "Skia with that affine; (document order) replacements are inserted at idx+k, swapped-in elements keep their order, the fill piece "
    "precedes the stroke piece; (viewport) _unnest_svg reads x/y/width/height/viewBox/preserveAspectRatio/overflow from the nested element, "
    "falls back to the parent extent, maps viewBox->viewport in this argument order and passes the nested viewBox extent down; (traversal) a "
    "child's CTM is built from its parent's context, use attributes are carried to the wrapper group."
)
ASSUMPTIONS = ["Skia transforms points correctly; shape->path geometry is C09; rendering equality is not decided"]
P = "C02"

# function -> list of (regex over the def-use-resolved operand text) in application order, with the reason
SITES = {
    ("svg", "_element_transform"): ([r"fromstring\(p0\.attrib\.get\(", r"^p1$"],
                                   "the element's own transform applies first, then the accumulated parent transform"),
    ("svg", "SVG._resolve_use"): ([r"\.translate\(float\(\w+\.attrib\.get\('x'", r"fromstring\(\w+\.attrib\['transform'\]\)"],
                                  "SVG 1.1 5.6: translate(x,y) is appended to (i.e. applied before) the use element's transform"),
    ("svg", "SVG._unnest_svg"): ([r"rect_to_rect\(|\.translate\(", r"fromstring\(p0\.attrib\['transform'\]\)"],
                                 "the viewBox->viewport mapping applies first, then the svg element's transform attribute"),
    ("svg", "_inherit_matrix_multiply"): ([r"fromstring\(p1\.attrib\[p2\]\)", r"fromstring\(p0\[p2\]\)|identity\(\)"],
                                         "child transform applies first, then the inherited (parent) transform"),
}


def run(repo: Repo, rep: Report):
    svg = repo["svg"]
    st = repo["svg_types"]
    for rid, txt in [
        ("R-SITE.compose-order", "operand order at every affine composition site of the flattening code"),
        ("R-ORDER.must-transform", "every emitted piece is mapped through the accumulated transform unless it is the identity"),
        ("R-SITE.document-order", "replacement/swap/stroke-split keep document (z) order"),
        ("R-SITE.viewport", "nested svg viewport parameters, fallbacks and recursion extent"),
        ("R-SITE.traversal", "child context is derived from the parent context; use attributes are carried over"),
    ]:
        rep.rule(rid, txt)
    # ---- the algebra the composition sites rely on (shared with C11): product, elementary operations, compose_ltr, parser
    from sa.rules import c11
    rep.rule("R-POLY", "Affine2D product / elementary operations / compose_ltr / transform-list parser equal the SVG matrices (rules of C11)")
    c11.run(repo, rep, only=("algebra", "parser"))
    # ---- composition sites
    n_sites = 0
    for mod in repo.modules.values():
        for q, fn in mod.functions.items():
            if "<locals>" in q:
                continue
            for c in calls_named(fn, "compose_ltr", nested=False):
                ops = compose_operands(c)
                if ops is None:
                    continue
                n_sites += 1
                key = (mod.name, q)
                if key in SITES:
                    pats, why = SITES[key]
                    texts = [rtext(fn, o) for o in ops]
                    site = f"{mod.name}.{q}: compose_ltr(({', '.join(unparse(o)[:30] for o in ops)}))"
                    if len(texts) == len(pats) and all(re.search(p, t) for p, t in zip(pats, texts)):
                        rep.ok("R-SITE.compose-order", site, why, True)
                    elif len(texts) == len(pats) and all(re.search(p, t) for p, t in zip(pats, reversed(texts))):
                        rep.fail("R-SITE.compose-order", f"{mod.name}.{q}", c, f"operands are composed in the reverse order: {why}", mod, c)
                    else:
                        rep.fail("R-SITE.compose-order", f"{mod.name}.{q}", c, f"operands {texts} do not have the provenance this site needs: {why}", mod, c)
    rep.floor("compose_ltr call sites in the package", n_sites, 12)
    for key in SITES:
        fn = repo[key[0]].func(key[1])
        rep.saw(f"{key[0]}.{key[1]}")
        if not any(compose_operands(c) for c in calls_named(fn, "compose_ltr", nested=False)):
            # a rewrite with `@` is equivalent when the operands are swapped: b @ a == compose_ltr((a, b))
            mm = [n for n in walk_no_nested(fn) if isinstance(n, ast.BinOp) and isinstance(n.op, ast.MatMult)]
            pats, why = SITES[key]
            ok = any(re.search(pats[0], rtext(fn, n.right)) and re.search(pats[1], rtext(fn, n.left)) for n in mm)
            if ok:
                rep.ok("R-SITE.compose-order", f"{key[0]}.{key[1]}: matrix product form", why, True)
            else:
                rep.fail("R-SITE.compose-order", f"{key[0]}.{key[1]}", "Affine2D.compose_ltr((...))", f"composition site vanished or changed form: {why}", repo[key[0]], fn)
    # _element_transform: raw taken from gradientTransform for gradients, transform otherwise; no-attribute => context unchanged
    et = svg.func("_element_transform")
    t = unparse(et)
    if "return p1" not in t and "return current_transform" in t and "attr_name = 'gradientTransform'" in t and "_is_gradient(el.tag)" in t:
        rep.ok("R-SITE.compose-order", "svg._element_transform: absent attribute returns the context transform unchanged")
    else:
        rep.fail("R-SITE.compose-order", "svg._element_transform", "return current_transform", "an element without transform no longer inherits the context transform unchanged", svg, et)

    # ---- must-transform in _simplify
    fn = svg.func("SVG._simplify")
    F = "svg.SVG._simplify"
    rep.saw(F)
    shape_if = [n for n in ast.walk(fn) if isinstance(n, ast.If) and unparse(n.test) == "_is_shape(el.tag)"]
    if not shape_if:
        raise AnalysisError("_simplify: shape branch not found")
    sb = shape_if[0].body
    tr_ifs = [s for s in sb if isinstance(s, ast.If) and unparse(s.test) in ("context.transform != Affine2D.identity()", "context.transform != Affine2D.identity()")]
    ok = False
    for s in tr_ifs:
        bt = unparse(s)
        if re.search(r"paths = \[\w+\.apply_transform\(context\.transform\) for \w+ in paths\]", bt) and not s.orelse:
            ok = True
    if ok:
        rep.ok("R-ORDER.must-transform", f"{F}: paths = [p.apply_transform(context.transform) ...] guarded only by `!= identity`", "top-level statement of the shape branch, all pieces mapped", True)
    else:
        rep.fail("R-ORDER.must-transform", F, "if context.transform != Affine2D.identity(): paths = [p.apply_transform(context.transform) for p in paths]",
                 "emitted pieces are no longer all mapped through the accumulated transform (or the mapping became conditional on something else)", svg, shape_if[0])
    # nothing between entry of shape branch and replace may `continue`/return around it except the documented ones
    for s in sb:
        for n in ast.walk(s):
            if isinstance(n, (ast.Continue, ast.Return)) and s not in tr_ifs:
                rep.fail("R-ORDER.must-transform", F, n, "early exit inside the shape branch can bypass the transform of the emitted pieces", svg, n)
    ap = st.func("SVGShape.apply_transform")
    t = unparse(ap)
    if "svg_pathops.transform(self.as_cmd_seq(), transform)" in t and "if not transform.is_degenerate()" in t and "target.update_path(cmds, inplace=True)" in t:
        rep.ok("R-ORDER.must-transform", "svg_types.SVGShape.apply_transform: commands mapped through Skia with the given affine (degenerate -> M0,0)")
    else:
        rep.fail("R-ORDER.must-transform", "svg_types.SVGShape.apply_transform", "cmds = svg_pathops.transform(self.as_cmd_seq(), transform)",
                 "apply_transform no longer maps the shape's command sequence with the affine it was given", st, ap)
    pt = repo["svg_pathops"].func("transform")
    if ".transform(*affine)" in unparse(pt):
        rep.ok("R-ORDER.must-transform", "svg_pathops.transform: skia_path(...).transform(*affine)")
    else:
        rep.fail("R-ORDER.must-transform", "svg_pathops.transform", "sk_path.transform(*affine)", "the six affine components are no longer passed to Skia in a b c d e f order", repo["svg_pathops"], pt)

    # ---- document order
    from sa.rules import groups
    groups.check_replace_and_swap(repo, rep, "R-SITE.document-order")
    sk = svg.func("SVG._stroke")
    rets = [unparse(r.value) for r in walk_no_nested(sk) if isinstance(r, ast.Return) and r.value is not None]
    if "(shape, stroke)" in rets and all(r in ("(shape, stroke)", "(stroke,)") for r in rets):
        rep.ok("R-SITE.document-order", "svg.SVG._stroke: returns (fill piece, stroke piece): the stroke is painted above the fill")
    else:
        rep.fail("R-SITE.document-order", "svg.SVG._stroke", "return (shape, stroke)", f"stroke split returns {rets}: the stroke piece must follow the fill piece", svg, sk)

    # ---- viewport
    un = svg.func("SVG._unnest_svg")
    F = "svg.SVG._unnest_svg"
    rep.saw(F)
    t = unparse(un)
    needs = [
        ("x = float(svg.attrib.get('x', 0))", "x read from the nested element, default 0"),
        ("y = float(svg.attrib.get('y', 0))", "y read from the nested element, default 0"),
        ("width = float(svg.attrib.get('width', parent_width))", "width falls back to the parent's extent"),
        ("height = float(svg.attrib.get('height', parent_height))", "height falls back to the parent's extent"),
        ("viewbox = parse_view_box(svg.attrib['viewBox'])", "viewBox read from the nested element"),
        ("svg.attrib.get('preserveAspectRatio', 'xMidYMid')", "preserveAspectRatio default xMidYMid (meet)"),
        ("Affine2D.rect_to_rect(viewbox, viewport, preserve_aspect_ratio)", "viewBox (source) mapped onto the viewport (destination)"),
        ("Affine2D.identity().translate(x, y)", "without viewBox the content is only translated to (x, y)"),
        ("svg.attrib.get('overflow', 'hidden')", "overflow default hidden"),
        ("viewport = viewbox = Rect(x, y, width, height)", "viewport rectangle is (x, y, width, height)"),
    ]
    for needle, what in needs:
        if needle in t:
            rep.ok("R-SITE.viewport", f"{F}: {what}")
        else:
            rep.fail("R-SITE.viewport", F, needle, f"missing/changed: {what}", svg, un)
    rec = [c for c in ast.walk(un) if isinstance(c, ast.Call) and call_name(c) == "self._unnest_svg"]
    if rec and [unparse(a) for a in rec[0].args[1:]] == ["viewbox.w", "viewbox.h"]:
        rep.ok("R-SITE.viewport", f"{F}: nested levels resolve their default size against this element's viewBox extent", "", True)
    else:
        got = [unparse(a) for a in rec[0].args[1:]] if rec else None
        rep.fail("R-SITE.viewport", F, "self._unnest_svg(el, viewbox.w, viewbox.h)",
                 f"the recursive call passes {got} as the parent extent: a nested svg without width/height must default to 100% of the "
                 "enclosing viewBox (user-space) extent, not of the viewport size", svg, rec[0] if rec else un)
    top = svg.func("SVG.resolve_nested_svgs")
    tt = unparse(top)
    if "self._unnest_svg(el, vb.w, vb.h)" in tt and "vb = self.view_box()" in tt:
        rep.ok("R-SITE.viewport", "svg.SVG.resolve_nested_svgs: top level resolves against the root view box")
    else:
        rep.fail("R-SITE.viewport", "svg.SVG.resolve_nested_svgs", "self._unnest_svg(el, vb.w, vb.h)", "top-level nested svgs no longer resolve against the root view box extent", svg, top)
    # clip for overflow hidden is the viewport rectangle
    if "to_element(SVGRect(x=x, y=y, width=width, height=height))" in t and "if overflow == 'visible':" in t:
        rep.ok("R-SITE.viewport", f"{F}: overflow hidden clips to the viewport rectangle; visible does not clip")
    else:
        rep.fail("R-SITE.viewport", F, "SVGRect(x=x, y=y, width=width, height=height)", "the overflow clip is no longer the viewport rectangle", svg, un)

    # ---- traversal
    tr = svg.func("SVG._traverse")
    F = "svg.SVG._traverse"
    t = unparse(tr)
    needs = [
        ("transform = _element_transform(child, context.transform)", "child CTM = own transform then the parent's CTM"),
        ("clips = context.clips", "child starts from the parent's clip stack"),
        ("_attrib_to_pass_on(context.attrib, child)", "child attributes inherit from the parent context"),
        ("Affine2D.identity()", "root context starts from the identity"),
    ]
    for needle, what in needs:
        if needle in t:
            rep.ok("R-SITE.traversal", f"{F}: {what}")
        else:
            rep.fail("R-SITE.traversal", F, needle, f"missing/changed: {what}", svg, tr)
    ctxs = [c for c in ast.walk(tr) if isinstance(c, ast.Call) and call_name(c) == "SVGTraverseContext"]
    child_ctx = [c for c in ctxs if enclosing(c, (ast.For,)) is not None]
    if child_ctx and [unparse(a) for a in child_ctx[0].args[:5]] == ["nth_of_type", "child", "path", "transform", "clips"]:
        rep.ok("R-SITE.traversal", f"{F}: child context carries the child's own transform and clip stack", "", True)
    else:
        rep.fail("R-SITE.traversal", F, "SVGTraverseContext(nth_of_type, child, path, transform, clips, ...)", "the child context is not built from the child's transform/clips", svg, tr)
    ru = svg.func("SVG._resolve_use")
    t = unparse(ru)
    structural = {"'x'", "'y'", "'width'", "'height'", "'transform'", "_xlink_href_attr_name()"}
    sets = [n for n in walk_no_nested(ru) if isinstance(n, ast.Assign) and unparse(n.targets[0]) == "attrib_not_copied" and isinstance(n.value, ast.Set)]
    if sets and {unparse(e) for e in sets[0].value.elts} == structural and "group.attrib[attr_name] = use_el.attrib[attr_name]" in t:
        rep.ok("R-SITE.traversal", "svg.SVG._resolve_use: every attribute of the use except the six structural ones is carried to the wrapper group")
    else:
        rep.fail("R-SITE.traversal", "svg.SVG._resolve_use", "attrib_not_copied = {x, y, width, height, transform, href}", "the set of use attributes not copied to the instance changed", svg, ru)
    if "new_el = copy.deepcopy(target)" in t and "group.append(new_el)" in t and "old_el.getparent().replace(old_el, new_el)" in t:
        rep.ok("R-SITE.traversal", "svg.SVG._resolve_use: one deep copy of the target per use, replacing the use in place")
    else:
        rep.fail("R-SITE.traversal", "svg.SVG._resolve_use", "new_el = copy.deepcopy(target); parent.replace(use, instance)", "instancing no longer copies the target once per use in place of the use", svg, ru)
    if "if affine != Affine2D.identity():" in t and "group.attrib['transform'] = affine.tostring()" in t:
        rep.ok("R-SITE.traversal", "svg.SVG._resolve_use: wrapper group carries the composed use transform")
    else:
        rep.fail("R-SITE.traversal", "svg.SVG._resolve_use", "group.attrib['transform'] = affine.tostring()", "the use offset/transform is not written to the wrapper group", svg, ru)


_S = "svg"
VARIANTS = [
    Variant("operands swapped in _resolve_use", [Edit(_S, "SVG._resolve_use", "                            affine,\n                            Affine2D.fromstring(use_el.attrib[\"transform\"]),\n",
                                                        "                            Affine2D.fromstring(use_el.attrib[\"transform\"]),\n                            affine,\n")],
            [("R-SITE.compose-order", "_resolve_use")]),
    Variant("operands swapped in _element_transform", [Edit(_S, "_element_transform", "(Affine2D.fromstring(raw), current_transform)", "(current_transform, Affine2D.fromstring(raw))")],
            [("R-SITE.compose-order", "_element_transform")]),
    Variant("_swap_elements drops reversed", [Edit(_S, "SVG._swap_elements", "for new_el in reversed(new_els):", "for new_el in new_els:")], [("R-SITE.document-order", "_swap_elements")]),
    Variant("_stroke returns (stroke, shape)", [Edit(_S, "SVG._stroke", "        return (shape, stroke)", "        return (stroke, shape)")], [("R-SITE.document-order", "_stroke")]),
    Variant("nested default size from the viewport", [Edit(_S, "SVG._unnest_svg", "self._unnest_svg(el, viewbox.w, viewbox.h)", "self._unnest_svg(el, width, height)")],
            [("R-SITE.viewport", "_unnest_svg")]),
    Variant("viewport mapped onto viewbox", [Edit(_S, "SVG._unnest_svg", "Affine2D.rect_to_rect(viewbox, viewport, preserve_aspect_ratio)", "Affine2D.rect_to_rect(viewport, viewbox, preserve_aspect_ratio)")],
            [("R-SITE.viewport", "_unnest_svg")]),
    Variant("child CTM from identity", [Edit(_S, "SVG._traverse", "_element_transform(child, context.transform)", "_element_transform(child)")], [("R-SITE.traversal", "_traverse")]),
    Variant("transform only for the first piece", [Edit(_S, "SVG._simplify", "paths = [p.apply_transform(context.transform) for p in paths]", "paths[0] = paths[0].apply_transform(context.transform)")],
            [("R-ORDER.must-transform", "_simplify")]),
    Variant("inherit matrix parent first", [Edit(_S, "_inherit_matrix_multiply", "(Affine2D.fromstring(child.attrib[attr_name]), transform)", "(transform, Affine2D.fromstring(child.attrib[attr_name]))")],
            [("R-SITE.compose-order", "_inherit_matrix_multiply")]),
    Variant("unnest: transform attribute first", [Edit(_S, "SVG._unnest_svg", "(transform, Affine2D.fromstring(svg.attrib[\"transform\"]))", "(Affine2D.fromstring(svg.attrib[\"transform\"]), transform)")],
            [("R-SITE.compose-order", "_unnest_svg")]),
    Variant("silent: compose_ltr((a, b)) rewritten as b @ a", [Edit(_S, "_element_transform", "Affine2D.compose_ltr((Affine2D.fromstring(raw), current_transform))", "current_transform @ Affine2D.fromstring(raw)")], silent=True),
    Variant("silent: local renamed", [Edit(_S, "_element_transform", "raw", "raw_value", count=3)], silent=True),
]

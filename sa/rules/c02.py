"""C02 - flattening groups, transforms, use and nested svg preserves the rendering (composition-order clauses)."""
from __future__ import annotations

import ast
import re

from sa.core import AnalysisError, Repo, Report, call_name, kwarg, parent, unparse, walk_no_nested
from sa.rules.common import calls_named, compose_operands, rtext, enclosing
from sa.selftest import Edit, Variant

from sa.texts import T as _TX

EXPLANATION = _TX["C02"]["explanation"] + " Not decided: " + _TX["C02"]["not_decided"] + "."
ASSUMPTIONS = _TX["C02"]["assumptions"]
P = "C02"

def run(repo: Repo, rep: Report):
    from sa.rules import c11, groups, sem, sempath
    for rid, txt in [
        ("R-SITE.compose-order", "accumulated transforms (own first, then the ancestors') in the traversal contexts of a schematic document; instances of <use> render under translate(x,y) then the use's transform then the context"),
        ("R-ORDER.must-transform", "_simplify interpreted on schematic documents: every emitted piece (fill and stroke, clipped or not) is mapped through its accumulated transform; apply_transform hands the six components to the engine in order"),
        ("R-SITE.document-order", "replacement / swap helpers and _simplify keep document (z) order; the stroke piece follows the fill piece"),
        ("R-SITE.viewport", "resolve_nested_svgs interpreted on a schematic document: render list equals the SVG viewport model (mapping, default size, overflow clip, inheritance, order)"),
        ("R-SITE.traversal", "depth/breadth-first traversal visits elements in document order with the contexts of the reference walk; resolve_use instantiates every use once per reference"),
    ]:
        rep.rule(rid, txt)
    # ---- the algebra the composition sites rely on (shared with C11): product, elementary operations, compose_ltr, parser
    rep.rule("R-POLY", "Affine2D product / elementary operations / compose_ltr / transform-list parser equal the SVG matrices (rules of C11)")
    c11.run(repo, rep, only=("algebra", "parser"))
    sem.check_traverse(repo, rep, {"ctm": "R-SITE.compose-order", "order": "R-SITE.traversal", "paths": "R-SITE.traversal"})
    sem.check_resolve_use(repo, rep, {"render": "R-SITE.compose-order", "gone": "R-SITE.traversal"})
    sem.check_nested_svg(repo, rep, "R-SITE.viewport")
    sem.check_simplify(repo, rep, {"transform": "R-ORDER.must-transform", "document-order": "R-SITE.document-order"})
    sempath.check_apply_transform(repo, rep, "R-ORDER.must-transform")
    groups.check_replace_and_swap(repo, rep, "R-SITE.document-order")
    # shapes_to_paths is part of the flattening: the outline of every basic shape (rules of C09)
    from sa.rules import c09
    rep.rule("R-SITE.shape-outline", "rect (corner radii defaulting and clamping), circle, ellipse, line, polygon, polyline become the outline SVG 1.1 chapter 9 prescribes (rule of C09)")
    c09._check_builders(repo, rep, rule="R-SITE.shape-outline")


_S = "svg"
VARIANTS = [
    Variant("<use> of a target inside a display:none container is not instantiated",
            [Edit(_S, "SVG._resolve_use", "                new_el = copy.deepcopy(target)\n",
                  "                new_el = copy.deepcopy(target)\n                if target.getparent() is not None and target.getparent().attrib.get(\"display\") == \"none\":\n                    new_el = etree.Element(f\"{{{svgns()}}}g\")\n")],
            [("R-SITE.compose-order", "_resolve_use")]),
    Variant("operands swapped in _resolve_use", [Edit(_S, "SVG._resolve_use", "                            affine,\n                            Affine2D.fromstring(use_el.attrib[\"transform\"]),\n",
                                                        "                            Affine2D.fromstring(use_el.attrib[\"transform\"]),\n                            affine,\n")],
            [("R-SITE.compose-order", "_resolve_use")]),
    Variant("operands swapped in _element_transform", [Edit(_S, "_element_transform", "(Affine2D.fromstring(raw), current_transform)", "(current_transform, Affine2D.fromstring(raw))")],
            [("R-SITE.compose-order", "_traverse")]),
    Variant("_swap_elements drops reversed", [Edit(_S, "SVG._swap_elements", "for new_el in reversed(new_els):", "for new_el in new_els:")], [("R-SITE.document-order", "_swap_elements")]),
    Variant("_stroke returns (stroke, shape)", [Edit(_S, "SVG._stroke", "        return (shape, stroke)", "        return (stroke, shape)")], [("R-SITE.document-order", "_simplify")]),
    Variant("nested default size from the viewport", [Edit(_S, "SVG._unnest_svg", "self._unnest_svg(el, viewbox.w, viewbox.h)", "self._unnest_svg(el, width, height)")],
            [("R-SITE.viewport", "_unnest_svg")]),
    Variant("viewport mapped onto viewbox", [Edit(_S, "SVG._unnest_svg", "Affine2D.rect_to_rect(viewbox, viewport, preserve_aspect_ratio)", "Affine2D.rect_to_rect(viewport, viewbox, preserve_aspect_ratio)")],
            [("R-SITE.viewport", "_unnest_svg")]),
    Variant("child CTM from identity", [Edit(_S, "SVG._traverse", "_element_transform(child, context.transform)", "_element_transform(child)")], [("R-SITE.compose-order", "_traverse")]),
    Variant("transform only for the first piece", [Edit(_S, "SVG._simplify", "paths = [p.apply_transform(context.transform) for p in paths]", "paths[0] = paths[0].apply_transform(context.transform)")],
            [("R-ORDER.must-transform", "_simplify")]),
    Variant("inherit matrix parent first", [Edit(_S, "_inherit_matrix_multiply", "(Affine2D.fromstring(child.attrib[attr_name]), transform)", "(transform, Affine2D.fromstring(child.attrib[attr_name]))")],
            [("R-SITE.compose-order", "_resolve_use")]),
    Variant("unnest: transform attribute first", [Edit(_S, "SVG._unnest_svg", "(transform, Affine2D.fromstring(svg.attrib[\"transform\"]))", "(Affine2D.fromstring(svg.attrib[\"transform\"]), transform)")],
            [("R-SITE.viewport", "_unnest_svg")]),
    Variant("rect radii clamped to the shorter side", [Edit("svg_types", "SVGRect.__post_init__", "self.rx = min(self.rx, self.width / 2)", "self.rx = min(self.rx, min(self.width, self.height) / 2)")],
            [("R-SITE.shape-outline", "SVGRect")]),
    Variant("silent: compose_ltr((a, b)) rewritten as b @ a", [Edit(_S, "_element_transform", "Affine2D.compose_ltr((Affine2D.fromstring(raw), current_transform))", "current_transform @ Affine2D.fromstring(raw)")], silent=True),
    Variant("silent: local renamed", [Edit(_S, "_element_transform", "raw", "raw_value", count=3)], silent=True),
]

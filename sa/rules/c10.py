"""C10 - path data parses per the SVG grammar or is rejected; printing round-trips.

Decided statically (DESIGN.md section 3/C10): lexical automata of the tokenizer against the
transcribed SVG number grammar, the tokenizer loop's match-check-slice discipline, arity and
implicit-repeat tables, exception discipline of everything reachable from parse_svg_path,
and printer-language included in parser-language.
"""
from __future__ import annotations

import ast
import itertools

from sa import spec
from sa.calls import Resolver
from sa.core import AnalysisError, Repo, Report, call_name, unparse, walk_no_nested
from sa.fold import Folder, Regex, Ref
from sa.regex import Compiled, DFA, common_alphabet, difference_witness, glushkov_deterministic
from sa.selftest import Edit, Variant
from sa.sym import (ClassRef, Interp, PyCallable, Rec, closure_of, explore, method_of)
from sa.poly import RF

from sa.texts import T as _TX

EXPLANATION = _TX["C10"]["explanation"] + " Not decided: " + _TX["C10"]["not_decided"] + "."
ASSUMPTIONS = _TX["C10"]["assumptions"]

P = "C10"


def _regex_of(folder: Folder, name: str) -> Regex:
    v = folder.table("svg_path_iter", name)
    if not isinstance(v, Regex) or not isinstance(v.pattern, str):
        raise AnalysisError(f"svg_path_iter.{name} is not a foldable re.compile(<str>) any more: {v!r}")
    return v


def tokenize(dfa: DFA, word: str):
    """Iterated longest-prefix tokenisation; returns list of tokens or None when some remainder has no match."""
    out, i = [], 0
    while i < len(word):
        n = dfa.longest_prefix(word, i)
        if not n:
            return None
        out.append(word[i:i + n])
        i += n
    return out


def run(repo: Repo, rep: Report):
    folder = Folder(repo)
    res = Resolver(repo)
    spi = repo["svg_path_iter"]
    meta = repo["svg_meta"]
    rep.rule("R-REGEX.float-lang", "L(_FLOAT_RE) vs SVG number grammar; tokenizer model vs maximal munch")
    rep.rule("R-REGEX.greedy-longest", "token regexes are 1-unambiguous and greedy, so re.match returns the longest prefix")
    rep.rule("R-GUARD.tokenizer", "parse_svg_path interpreted on a corpus generated from the path grammar (and strings with stray characters): result equals the grammar reading, or ValueError")
    rep.rule("R-CASE.roundtrip", "SVGPath.from_commands interpreted on command sequences: reading the path back gives the same commands")
    rep.rule("R-TABLE.arity", "_CMD_ARGS/_CMD_RE/_IMPLICIT_REPEAT_CMD/_ARC_ARGUMENT_TYPES equal the specification tables")
    rep.rule("R-CASE.check_cmd", "check_cmd, _explode_cmd specialised per letter and argument count")
    rep.rule("R-EFFECT.exceptions", "only ValueError escapes parse_svg_path on the corpus; only ValueError raised in its closure; no swallowing handler; table lookups guarded")
    rep.rule("R-CASE.printer", "ntos prints repr or int; path_segment separates numbers; printer language within parser language")

    # ---------------------------------------------------------------- lexical level
    fl = _regex_of(folder, "_FLOAT_RE")
    bo = _regex_of(folder, "_BOOL_RE")
    se = _regex_of(folder, "_SEPARATOR_RE")
    cm = _regex_of(folder, "_CMD_RE")
    rep.tables.update({"svg_path_iter._FLOAT_RE", "svg_path_iter._BOOL_RE", "svg_path_iter._SEPARATOR_RE", "svg_path_iter._CMD_RE"})
    cP = Compiled(fl.pattern)
    cS = Compiled(spec.SVG_NUMBER_RE)
    cR = Compiled(spec.PY_NUMBER_REPR_RE)
    cB = Compiled(bo.pattern)
    al = common_alphabet([cP, cS, cR, cB])
    dP, dS, dR = (DFA.from_glushkov(c.g, al) for c in (cP, cS, cR))
    site = "svg_path_iter._FLOAT_RE"

    conflict = glushkov_deterministic(cP.g, al)
    if conflict or cP.info["lazy"]:
        rep.fail("R-REGEX.greedy-longest", site, fl.pattern,
                 f"_FLOAT_RE is not 1-unambiguous/greedy ({conflict or 'lazy quantifier'}): ordered-choice matching may return a "
                 "shorter prefix than the grammar's maximal munch", spi)
    else:
        rep.ok("R-REGEX.greedy-longest", site, f"position automaton deterministic ({len(cP.g.leaves)} positions, DFA {dP.n_states()} states)", True)
    if cP.g.nullable:
        rep.fail("R-REGEX.float-lang", site, fl.pattern, "_FLOAT_RE matches the empty string: _parse_args would not make progress", spi)
    else:
        rep.ok("R-REGEX.float-lang", site + " non-nullable", "", True)
    if cP.info.get("anchored_end") or cP.info.get("inner_anchor"):
        rep.fail("R-REGEX.float-lang", site, fl.pattern, "_FLOAT_RE carries an anchor: adjacent numbers (1-2, 1.5.5) cannot be split", spi)
    w = difference_witness(dP, dS)
    if w is not None:
        rep.fail("R-REGEX.float-lang", site, fl.pattern,
                 f"_FLOAT_RE accepts {w!r}, which is not an SVG number: a non-conforming token would be parsed silently", spi)
    else:
        rep.ok("R-REGEX.float-lang", site + " subset of SVG number", f"product automaton {dP.n_states()}x{dS.n_states()} states, no witness", True)

    # tokenizer model vs maximal-munch of the specification, all strings over the number alphabet
    num_alpha = [ch for ch in al if dS.trans[0].get(ch) is not None or any(ch in t for t in dS.trans)]
    num_alpha = sorted({ch for st in dS.trans for ch in st})
    maxlen = 8 if rep.tier == "thorough" else 6
    checked = silent = raises = 0
    classes = {}
    for n in range(1, maxlen + 1):
        for tup in itertools.product(num_alpha, repeat=n):
            wd = "".join(tup)
            st = tokenize(dS, wd)
            if st is None:
                continue  # not a sequence of conforming numbers: anything or ValueError allowed
            checked += 1
            it = tokenize(dP, wd)
            if it is None:
                raises += 1
                continue
            if it != st:
                silent += 1
                key = (len(st), len(it))
                classes.setdefault(key, wd)
    if silent:
        ex = sorted(classes.values(), key=len)[:4]
        rep.fail("R-REGEX.float-lang", site, fl.pattern,
                 f"silent mis-parse: {silent} conforming strings (length <= {maxlen}) are tokenised differently from the grammar's "
                 f"maximal munch, e.g. " + ", ".join(f"{e!r}: {tokenize(dS, e)} vs {tokenize(dP, e)}" for e in ex), spi)
    else:
        rep.ok("R-REGEX.float-lang", site + " tokenizer model = maximal munch",
               f"{checked} conforming strings over {num_alpha} up to length {maxlen}: {checked - raises} identical, {raises} rejected (ValueError, allowed), 0 silent differences", True)

    # flags
    ascii_al = [chr(i) for i in range(32, 127)] + ["\n", "\t", "β"]
    dB = DFA.from_glushkov(cB.g, ascii_al)
    bwords = sorted(dB.words(3))
    if not cB.info["anchored_start"] and False:
        pass
    if bwords != ["0", "1"] or cB.g.nullable:
        rep.fail("R-REGEX.float-lang", "svg_path_iter._BOOL_RE", bo.pattern,
                 f"flag regex language is {bwords} (must be exactly one character 0 or 1, non-empty)", spi)
    else:
        rep.ok("R-REGEX.float-lang", "svg_path_iter._BOOL_RE = {0,1}", "", True)
    # separator
    cSe = Compiled(se.pattern)
    bad = [l.text for l in cSe.g.leaves if any(l.pred(ch) for ch in "0123456789.-+eEmMzZ#")]
    if bad or cSe.g.nullable:
        rep.fail("R-REGEX.float-lang", "svg_path_iter._SEPARATOR_RE", se.pattern,
                 "separator regex can match part of a number/command or the empty string", spi)
    else:
        rep.ok("R-REGEX.float-lang", "svg_path_iter._SEPARATOR_RE within (comma|space)+", "", True)
    # command regex
    cC = Compiled(cm.pattern)
    dC = DFA.from_glushkov(cC.g, ascii_al)
    letters = sorted(dC.words(2))
    cmd_args = folder.table("svg_meta", "_CMD_ARGS")
    rep.tables.add("svg_meta._CMD_ARGS")
    if sorted(cmd_args) != sorted(spec.CMD_ARITY) or any(cmd_args[k] != spec.CMD_ARITY[k] for k in cmd_args if k in spec.CMD_ARITY):
        diff = {k: (cmd_args.get(k), spec.CMD_ARITY.get(k)) for k in set(cmd_args) | set(spec.CMD_ARITY)
                if cmd_args.get(k) != spec.CMD_ARITY.get(k)}
        rep.fail("R-TABLE.arity", "svg_meta._CMD_ARGS", str(diff), f"command arity table differs from SVG 1.1: {diff}", meta)
    else:
        rep.ok("R-TABLE.arity", "svg_meta._CMD_ARGS = specification (20 letters)")
    if letters != sorted(spec.CMD_ARITY) or cC.info["groups"] != 1:
        rep.fail("R-TABLE.arity", "svg_path_iter._CMD_RE", cm.pattern,
                 f"command splitter alphabet {letters} / groups {cC.info['groups']} (needs exactly the 20 letters, one capture group)", spi)
    else:
        rep.ok("R-TABLE.arity", "svg_path_iter._CMD_RE alphabet = keys(_CMD_ARGS), one capture group", "", True)
    irc = folder.table("svg_path_iter", "_IMPLICIT_REPEAT_CMD")
    if irc != spec.IMPLICIT_REPEAT:
        rep.fail("R-TABLE.arity", "svg_path_iter._IMPLICIT_REPEAT_CMD", repr(irc), "implicit repeat table must be {m: l, M: L}", spi)
    else:
        rep.ok("R-TABLE.arity", "svg_path_iter._IMPLICIT_REPEAT_CMD = {m:l, M:L}")
    arc = folder.table("svg_path_iter", "_ARC_ARGUMENT_TYPES")
    kinds = []
    for ent in arc:
        conv, rx = (ent + (None, None))[:2] if isinstance(ent, tuple) else (None, None)
        if isinstance(rx, Regex) and rx.pattern == fl.pattern and isinstance(conv, Ref) and conv.name == "float":
            kinds.append("number")
        elif isinstance(rx, Regex) and rx.pattern == bo.pattern and isinstance(conv, Ref) and conv.name == "int":
            kinds.append("flag")
        else:
            kinds.append(f"?{conv}/{getattr(rx, 'pattern', rx)}")
    if tuple(kinds) != spec.ARC_ARG_KINDS:
        rep.fail("R-TABLE.arity", "svg_path_iter._ARC_ARGUMENT_TYPES", str(kinds),
                 f"arc argument typing is {kinds}, specification is {list(spec.ARC_ARG_KINDS)}", spi)
    else:
        rep.ok("R-TABLE.arity", "svg_path_iter._ARC_ARGUMENT_TYPES = n n n flag flag n n")

    # ---------------------------------------------------------------- the parser itself, interpreted on a grammar-derived corpus
    from sa.rules import semparse
    semparse.check_parser(repo, rep, "R-GUARD.tokenizer", "R-EFFECT.exceptions")
    semparse.check_command_roundtrip(repo, rep, "R-CASE.roundtrip")

    # ---------------------------------------------------------------- check_cmd / _explode_cmd per letter
    chk = closure_of(repo, "svg_meta", "check_cmd")
    rep.saw("svg_meta.check_cmd", "svg_meta.num_args", "svg_path_iter._explode_cmd")
    bad_cases = []
    n_cases = 0
    for letter, ar in spec.CMD_ARITY.items():
        for n in range(0, 2 * ar + 2):
            args = tuple(RF.sym(f"a{i}") for i in range(n))
            outs = explore(repo, chk, [letter, args])
            n_cases += 1
            want_raise = (n % ar != 0) if ar else (n != 0)
            for o in outs:
                if o.undecided:
                    raise AnalysisError(f"check_cmd({letter!r}, {n} args): evaluator undecided: {o.undecided}")
                got = o.raised
                if want_raise and got != "ValueError":
                    bad_cases.append((letter, n, f"expected ValueError, got {got or 'return ' + repr(o.value)}"))
                if not want_raise and (got or o.value != ar):
                    bad_cases.append((letter, n, f"expected return {ar}, got {got or o.value}"))
    for bad_letter in ("x", "E", "1", ""):
        for o in explore(repo, chk, [bad_letter, ()]):
            n_cases += 1
            if o.raised != "ValueError":
                bad_cases.append((bad_letter, 0, f"unknown command must raise ValueError, got {o.raised or o.value}"))
    if bad_cases:
        l, n, msg = bad_cases[0]
        rep.fail("R-CASE.check_cmd", "svg_meta.check_cmd", f"check_cmd({l!r}, <{n} args>)",
                 f"{len(bad_cases)} of {n_cases} (letter, count) cases wrong; first: {msg}", meta, meta.func("check_cmd"))
    else:
        rep.ok("R-CASE.check_cmd", "svg_meta.check_cmd", f"{n_cases} (letter x argument count) cases: raises ValueError iff count is not a multiple of the arity", True)
    expl = closure_of(repo, "svg_path_iter", "_explode_cmd")
    bad_cases = []
    n_cases = 0
    for letter, ar in spec.CMD_ARITY.items():
        if ar == 0:
            continue
        for groups in (1, 2, 3):
            args = tuple(RF.sym(f"a{i}") for i in range(ar * groups))
            for o in explore(repo, expl, [ar, letter, args]):
                n_cases += 1
                if o.undecided or o.raised:
                    bad_cases.append((letter, groups, o.undecided or o.raised))
                    continue
                want = [(letter if g == 0 else spec.IMPLICIT_REPEAT.get(letter, letter), args[g * ar:(g + 1) * ar]) for g in range(groups)]
                got = [(c, tuple(a)) for c, a in o.value]
                if repr(got) != repr(want):
                    bad_cases.append((letter, groups, f"{got} != {want}"))
    if bad_cases:
        l, g, msg = bad_cases[0]
        rep.fail("R-CASE.check_cmd", "svg_path_iter._explode_cmd", f"_explode_cmd({l!r}, {g} groups)",
                 f"implicit repetition wrong in {len(bad_cases)} cases; first: {msg}", spi, spi.func("_explode_cmd"))
    else:
        rep.ok("R-CASE.check_cmd", "svg_path_iter._explode_cmd", f"{n_cases} cases: first group keeps the letter, later groups use the implicit-repeat letter, arguments partitioned in order", True)

    _check_exceptions(repo, rep, res)
    _check_printer(repo, rep, folder, dP, dR, al, cP)


def _check_exceptions(repo: Repo, rep: Report, res: Resolver):
    roots = [("svg_path_iter", "parse_svg_path")]
    reach = res.reachable_from(roots)
    reach = {k for k in reach if k[0] in ("svg_path_iter", "svg_meta")}
    rep.floor("functions reachable from parse_svg_path", len(reach), 5)
    n_raise = 0
    for key in sorted(reach):
        mod = repo[key[0]]
        fn = res.func(key)
        rep.saw(f"{key[0]}.{key[1]}")
        for n in ast.walk(fn):
            if isinstance(n, ast.Raise):
                n_raise += 1
                nm = unparse(n.exc.func) if isinstance(n.exc, ast.Call) else unparse(n.exc) if n.exc else "re-raise"
                if nm != "ValueError":
                    rep.fail("R-EFFECT.exceptions", f"{key[0]}.{key[1]}", n, f"raises {nm}; only ValueError may escape the parser", mod, n)
                else:
                    rep.ok("R-EFFECT.exceptions", f"{key[0]}.{key[1]}: {unparse(n)[:60]}")
    rep.floor("raise statements in the parser closure", n_raise, 1)


def check_ntos(repo: Repo, rep: Report, rule: str):
    """ntos interpreted on a symbolic number: str(int(n)) only under n.is_integer(), otherwise str(n) - the shortest text that re-reads as the same float."""
    meta = repo["svg_meta"]
    # ntos: returns str(int(n)) only for integral floats, str(n) otherwise
    nt = closure_of(repo, "svg_meta", "ntos")
    rep.saw("svg_meta.ntos", "svg_meta.path_segment")
    outs = explore(repo, nt, [RF.sym("n")])
    bad = None
    for o in outs:
        if o.undecided or o.raised:
            bad = f"evaluator: {o.undecided or o.raised}"
            break
        conds = {repr(c): v for c, v in o.decisions}
        val = getattr(o.value, "text", o.value)
        if val == "{int(n)}":
            if not (conds.get("is_integer(n,)") is True or conds.get("is_integer(n)") is True or any("is_integer" in k and v for k, v in conds.items())):
                bad = f"prints int(n) without n.is_integer() being true (path: {o.cond_text()})"
        elif val != "{n}":
            bad = f"prints {val!r} (path: {o.cond_text()}): only str(n) (shortest round-tripping repr) or str(int(n)) keep the value"
    if bad:
        rep.fail(rule, "svg_meta.ntos", "ntos", f"number printer changed: {bad}", meta, meta.func("ntos"))
    else:
        rep.ok(rule, "svg_meta.ntos", f"{len(outs)} paths: str(int(n)) only under is_integer, else str(n)", True)


def _check_printer(repo: Repo, rep: Report, folder: Folder, dP: DFA, dR: DFA, al, cP):
    meta = repo["svg_meta"]
    st = repo["svg_types"]
    # printer language within the parser language and consumed as ONE token
    w = difference_witness(dR, dP)
    if w is not None:
        rep.fail("R-CASE.printer", "svg_path_iter._FLOAT_RE", cP.pattern,
                 f"a printed number such as {w!r} (CPython repr form) is not matched whole by _FLOAT_RE: print -> parse does not round-trip",
                 repo["svg_path_iter"])
    else:
        rep.ok("R-CASE.printer", "L(repr of finite float/int) within L(_FLOAT_RE)", f"product automaton, no witness ({dR.n_states()} x {dP.n_states()} states)", True)
    check_ntos(repo, rep, "R-CASE.printer")
    # path_segment per letter: letter first, then the numbers in order separated by exactly one ',' or ' '
    import re as _re
    ps = closure_of(repo, "svg_meta", "path_segment")
    bad_cases = []
    n_cases = 0

    def setup(it):
        it.hooks[("svg_meta", "ntos")] = lambda itp, a, k: f"<{a[0]!r}>"

    for letter, ar in spec.CMD_ARITY.items():
        for groups in ((1, 2) if ar else (1,)):
            n = ar * groups
            args = [RF.sym(f"a{i}") for i in range(n)]
            for o in explore(repo, ps, [letter] + args, setup=setup):
                n_cases += 1
                if o.undecided or o.raised:
                    bad_cases.append((letter, n, o.undecided or o.raised))
                    continue
                want_tokens = [f"<a{i}>" for i in range(n)]
                s = o.value
                if not isinstance(s, str) or not s.startswith(letter):
                    bad_cases.append((letter, n, f"segment {s!r} does not start with the letter"))
                    continue
                body = s[len(letter):]
                toks = _re.split(r"[ ,]", body) if body else []
                seps_ok = _re.fullmatch(r"(?:<a\d+>(?:[ ,]<a\d+>)*)?", body) is not None
                if toks != want_tokens or not seps_ok:
                    bad_cases.append((letter, n, f"segment {s!r}: numbers must appear in order separated by one ',' or ' '"))
    if bad_cases:
        l, n, msg = bad_cases[0]
        rep.fail("R-CASE.printer", "svg_meta.path_segment", f"path_segment({l!r}, <{n} args>)",
                 f"{len(bad_cases)} of {n_cases} cases wrong; first: {msg}", meta, meta.func("path_segment"))
    else:
        rep.ok("R-CASE.printer", "svg_meta.path_segment", f"{n_cases} (letter x groups) cases: letter, then all numbers in order, one separator between any two", True)


# ----------------------------------------------------------------------------------------
_SPI = "svg_path_iter"
VARIANTS = [
    Variant("reverted-fix F1: integer part 0|[1-9][0-9]*", [Edit(_SPI, None, 'r"(?:[0-9]+)(?:\\.[0-9]+)?"', 'r"(?:0|[1-9][0-9]*)(?:\\.[0-9]+)?"')],
            [("R-REGEX.float-lang", "_FLOAT_RE")]),
    Variant("empty mantissa allowed", [Edit(_SPI, None, 'r"(?:[0-9]+)(?:\\.[0-9]+)?"', 'r"(?:[0-9]*)(?:\\.[0-9]+)?"')],
            [("R-REGEX", "_FLOAT_RE")]),
    Variant("e added to the command class", [Edit(_SPI, None, """f'([{"".join(svg_meta.cmds())}])'""", """f'([e{"".join(svg_meta.cmds())}])'""")],
            [("R-TABLE.arity", "_CMD_RE")]),
    Variant("arc position 3 typed as float", [Edit(_SPI, None, "(int, _BOOL_RE),  # large-arc-flag", "(float, _FLOAT_RE),  # large-arc-flag")],
            [("R-TABLE.arity", "_ARC_ARGUMENT_TYPES")]),
    Variant("implicit repeat from the first group", [Edit(_SPI, "_explode_cmd", "if i > 0:", "if i >= 0:")],
            [("R-CASE.check_cmd", "_explode_cmd")]),
    Variant("num_args raises KeyError", [Edit("svg_meta", "num_args", "raise ValueError(f'Invalid svg command \"{cmd}\"')", "raise KeyError(cmd)")],
            [("R-", "num_args"), ("R-", "check_cmd")]),
    Variant("printed pairs joined with nothing", [Edit("svg_meta", "path_segment", 'f"{sub_args[i]},{sub_args[i+1]}"', 'f"{sub_args[i]}{sub_args[i+1]}"')],
            [("R-CASE.printer", "path_segment")]),
    Variant("failed match no longer raises", [Edit(_SPI, "_parse_args", "raise ValueError(f\"Invalid argument #{i} for '{cmd}': {arg!r}\")", "break")],
            [("R-GUARD.tokenizer", "parse_svg_path")]),
    Variant("remainder dropped", [Edit(_SPI, "_parse_args", "if end < len(arg):\n            raw_args[j] = arg[end:]\n        else:\n            j += 1", "j += 1")],
            [("R-GUARD.tokenizer", "parse_svg_path")]),
    Variant("ntos prints fixed notation", [Edit("svg_meta", "ntos", "else str(n)", 'else f"{n:f}"')],
            [("R-CASE.printer", "ntos")]),
    Variant("flags may be any digit", [Edit(_SPI, None, '_BOOL_RE = re.compile("^[01]")', '_BOOL_RE = re.compile("^[0-9]")')],
            [("R-REGEX", "_BOOL_RE")]),
    Variant("arity of t changed", [Edit("svg_meta", None, '"t": 2,', '"t": 4,')], [("R-TABLE.arity", "_CMD_ARGS"), ("R-", "check_cmd")]),
    Variant("zero-arity commands exploded", [Edit(_SPI, "parse_svg_path", "if args_per_cmd == 0 or not exploded:", "if not exploded:")],
            [("R-", "parse_svg_path")]),
    Variant("update_path drops a moveto followed by a moveto", [Edit("svg_types", "SVGPath.update_path", "        for cmd, args in svg_cmds:\n            target._add_cmd(cmd, *args)", "        prev = None\n        for cmd, args in svg_cmds:\n            if prev is not None and not (prev[0] in 'Mm' and cmd in 'Mm'):\n                target._add_cmd(*prev[0:1], *prev[1])\n            prev = (cmd, args)\n        if prev is not None:\n            target._add_cmd(prev[0], *prev[1])")], [("R-CASE.roundtrip", "from_commands")]),
    Variant("stray characters skipped by the tokenizer", [Edit(_SPI, "_parse_args", "raw_args = [s for s in _SEPARATOR_RE.split(args) if s]", "raw_args = [s for s in re.split(r'[^0-9eE.+-]+', args) if s]")], [("R-GUARD.tokenizer", "parse_svg_path")]),
    Variant("silent: rename loop variable", [Edit(_SPI, "_explode_cmd", "cmds = []", "cmds = list()")], silent=True),
    Variant("silent: reorder arity table entries", [Edit("svg_meta", None, '    "m": 2,\n    "z": 0,', '    "z": 0,\n    "m": 2,')], silent=True),
]

"""C19 - clipping to the viewBox and bounding boxes (API choice and guard structure)."""
from __future__ import annotations

import ast
import re

from sa.core import AnalysisError, Repo, Report, call_name, kwarg, parent, unparse, walk_no_nested
from sa.fold import Folder
from sa.poly import RF, fn_atom
from sa.selftest import Edit, Variant
from sa.sym import ClassRef, Cond, Interp, Rec, explore, method_of, to_rf, closure_of

from sa.texts import T as _TX

EXPLANATION = _TX["C19"]["explanation"] + " Not decided: " + _TX["C19"]["not_decided"] + "."
ASSUMPTIONS = _TX["C19"]["assumptions"]
P = "C19"
S = RF.sym


def R(p):
    return Rec(ClassRef("geometric_types", "Rect"), {k: S(p + k) for k in "xywh"})


def run(repo: Repo, rep: Report):
    svg, st, po, gt = repo["svg"], repo["svg_types"], repo["svg_pathops"], repo["geometric_types"]
    for rid, txt in [
        ("R-SITE.bounds-api", "interpreted: the engine is asked for the tight .bounds of the shape's own current commands on every call (also after an in-place edit), converted to (x, y, w, h); the document box is the union over all shapes"),
        ("R-POLY.rect", "Rect.intersection / Rect.union equal the interval formulas (min/max opaque)"),
        ("R-GUARD.clip-viewbox", "clip_to_viewbox interpreted on documents with given bounding boxes (two view boxes, one with negative origin): outside dropped, inside untouched, straddling intersected with the visible rectangle under (fill-rule, nonzero); order and paints kept"),
    ]:
        rep.rule(rid, txt)
    from sa.rules import sem, sempath
    sempath.check_bounds(repo, rep, "R-SITE.bounds-api")
    sempath.check_document_box(repo, rep, "R-SITE.bounds-api")
    # ---- Rect algebra
    a, b = R("a"), R("b")
    F = "geometric_types.Rect.union"
    rep.saw(F, "geometric_types.Rect.intersection")
    outs = explore(repo, method_of(repo, "geometric_types", "Rect", "union"), [a, b])
    ax2, ay2, bx2, by2 = S("ax") + S("aw"), S("ay") + S("ah"), S("bx") + S("bw"), S("by") + S("bh")
    good = len(outs) == 1 and not outs[0].raised and not outs[0].undecided
    if good:
        v = outs[0].value.f
        x, y = fn_atom("min", S("ax"), S("bx")), fn_atom("min", S("ay"), S("by"))
        good = to_rf(v["x"]).equals(x) and to_rf(v["y"]).equals(y) and to_rf(v["w"]).equals(fn_atom("max", ax2, bx2) - x) and to_rf(v["h"]).equals(fn_atom("max", ay2, by2) - y)
    if good:
        rep.ok("R-POLY.rect", F, "[min of starts, max of ends] per axis", True)
    else:
        rep.fail("R-POLY.rect", F, "Rect.union", f"union is {outs[0].value if outs else None}; expected [min of starts, max of ends] per axis", gt, gt.func("Rect.union"))
    F = "geometric_types.Rect.intersection"
    outs = explore(repo, method_of(repo, "geometric_types", "Rect", "intersection"), [a, b])
    some = none = 0
    bad = None
    xs, xe = fn_atom("max", S("ax"), S("bx")), fn_atom("min", ax2, bx2)
    ys, ye = fn_atom("max", S("ay"), S("by")), fn_atom("min", ay2, by2)
    comps = []
    for o in outs:
        if o.undecided:
            raise AnalysisError(f"{F}: evaluator undecided: {o.undecided}")
        if o.raised:
            bad = f"raises {o.raised}"
            break
        cmp_conds = [(c, v) for c, v in o.decisions if isinstance(c, Cond) and c.op in (">=", ">", "<", "<=")]
        comps += cmp_conds
        any_empty = any(v for _, v in cmp_conds)
        if o.value is None:
            if not any_empty:
                continue  # infeasible: both axes non-empty (max < min) but start == end decided - cannot happen
            none += 1
        else:
            some += 1
            v = o.value.f
            if any_empty:
                bad = f"returns a rectangle although an axis is empty (path {o.cond_text()[:80]})"
                break
            if not (to_rf(v["x"]).equals(xs) and to_rf(v["y"]).equals(ys) and to_rf(v["w"]).equals(xe - xs) and to_rf(v["h"]).equals(ye - ys)):
                bad = f"intersection is {o.value}; expected [max of starts, min of ends] per axis"
                break
    if not comps and not bad:
        bad = "no emptiness test found (an empty overlap must give None)"
    for c, _v in comps:
        lhs, rhs = to_rf(c.args[0]), to_rf(c.args[1])
        if c.op != ">=" or not ((lhs.equals(xs) and rhs.equals(xe)) or (lhs.equals(ys) and rhs.equals(ye))):
            bad = f"emptiness test is {c!r}; expected max(starts) >= min(ends) on each axis"
    if bad or not some or not none:
        rep.fail("R-POLY.rect", F, "Rect.intersection", bad or "missing outcome (rectangle / None)", gt, gt.func("Rect.intersection"))
    else:
        rep.ok("R-POLY.rect", F, f"{len(outs)} paths: rectangle = [max of starts, min of ends]; None exactly when max(start) >= min(end) on an axis", True)
    sem.check_clip_to_viewbox(repo, rep, "R-GUARD.clip-viewbox")
    from sa.rules import sem as _sem
    _sem.check_cli(repo, rep, {"clip": "R-GUARD.clip-viewbox", "output": "R-GUARD.clip-viewbox"})


def _inside(node, anc) -> bool:
    p = parent(node)
    while p is not None:
        if p is anc:
            return True
        p = parent(p)
    return False


_S = "svg"
VARIANTS = [
    Variant("a shape whose bounding box covers the view box is replaced by the view box rectangle",
            [Edit(_S, "SVG.clip_to_viewbox", "            shape = shape.as_path().absolute(inplace=True)\n            shape.update_path(\n",
                  "            shape = shape.as_path().absolute(inplace=True)\n            if isct == view_box:\n                shape.update_path(clip_path.as_cmd_seq(), inplace=True)\n                updates.append((idx, el, shape))\n                continue\n            shape.update_path(\n")],
            [("R-GUARD.clip-viewbox", "clip_to_viewbox")]),
    Variant("control point bounds", [Edit("svg_pathops", "bounding_box", ".bounds", ".controlPointBounds")], [("R-SITE.bounds-api", "bounding_box")]),
    Variant("union uses max for the start", [Edit("geometric_types", "Rect.union", "x, y = min(self.x, other.x), min(self.y, other.y)", "x, y = max(self.x, other.x), min(self.y, other.y)")], [("R-POLY.rect", "union")]),
    Variant("skip when not None", [Edit(_S, "SVG.clip_to_viewbox", "            if bbox == isct:\n                continue", "            if isct is not None and bbox.w == isct.w:\n                continue")], [("R-GUARD.clip-viewbox", "clip_to_viewbox")]),
    Variant("phase 1 test dropped", [Edit(_S, "SVG.clip_to_viewbox", "            if view_box.intersection(shape.bounding_box()) is None:\n                _safe_remove(el)", "            if shape.bounding_box().w == 0:\n                _safe_remove(el)")],
            [("R-GUARD.clip-viewbox", "clip_to_viewbox")]),
    Variant("clip rectangle at the origin", [Edit(_S, "SVG.clip_to_viewbox", "SVGRect(x=isct.x, y=isct.y, width=isct.w, height=isct.h)", "SVGRect(width=view_box.w, height=view_box.h)")], [("R-GUARD.clip-viewbox", "clip_to_viewbox")]),
    Variant("height from y2 only", [Edit("svg_types", "SVGShape.bounding_box", "return Rect(x1, y1, x2 - x1, y2 - y1)", "return Rect(x1, y1, x2 - x1, y2)")], [("R-SITE.bounds-api", "SVGShape.bounding_box")]),
    Variant("memoised bounding box on paths", [Edit("svg_types", "SVGPath", "    def as_path(self) -> \"SVGPath\":\n        return self\n", "    def as_path(self) -> \"SVGPath\":\n        return self\n\n    def bounding_box(self) -> Rect:\n        if getattr(self, \"_bbox\", None) is None:\n            self._bbox = super().bounding_box()\n        return self._bbox\n")],
            [("R-SITE.bounds-api", "bounding_box")]),
    Variant("intersection emptiness strict", [Edit("geometric_types", "Rect.intersection", "if start >= end:", "if start > end + 1:")], [("R-POLY.rect", "intersection")]),
    Variant("document box of the first shape only", [Edit(_S, "SVG.bounding_box", "(shape.bounding_box() for shape in shapes)", "(shape.bounding_box() for shape in shapes[:1])")], [("R-SITE.bounds-api", "SVG.bounding_box")]),
    Variant("silent: union written with x_max helper inline", [Edit("geometric_types", "Rect.union", "max(self.x_max, other.x_max)", "max(self.x + self.w, other.x + other.w)")], silent=True),
]

"""C19 - clipping to the viewBox and bounding boxes (API choice and guard structure)."""
from __future__ import annotations

import ast
import re

from sa.core import AnalysisError, Repo, Report, call_name, kwarg, parent, unparse, walk_no_nested
from sa.fold import Folder
from sa.poly import RF, fn_atom
from sa.selftest import Edit, Variant
from sa.sym import ClassRef, Cond, Interp, Rec, explore, method_of, to_rf, closure_of

EXPLANATION = (
    "Geometric exactness is Skia's (not decided). Decided: (bounding boxes) svg_pathops.bounding_box reads the tight `.bounds` of the path "
    "built from the normalised command sequence, SVGShape.bounding_box converts (x1,y1,x2,y2) to (x, y, x2-x1, y2-y1) (symbolic), "
    "SVG.bounding_box folds Rect.union over all shapes, and no class of the shape hierarchy memoises geometry-derived values on the instance "
    "(every bounding box is recomputed from the current data); (Rect algebra, symbolic with opaque min/max) intersection = [max of starts, "
    "min of ends] per axis and None exactly when empty on an axis, union = [min of starts, max of ends]; (clip_to_viewbox) a shape is deleted "
    "only when its box does not meet the viewBox, clipping is skipped only when the box lies inside, otherwise the shape is intersected with "
    "the rectangle of the intersection (its x, y, w, h - not a rectangle at the origin) under (fill_rule, clip_rule) and marked nonzero, "
    "emptied groups are pruned, and the CLI applies it only under its flag after the conversion."
)
ASSUMPTIONS = ["Skia's .bounds is the tight box of the curve geometry and its intersection is exact"]
P = "C19"
S = RF.sym


def R(p):
    return Rec(ClassRef("geometric_types", "Rect"), {k: S(p + k) for k in "xywh"})


def run(repo: Repo, rep: Report):
    svg, st, po, gt = repo["svg"], repo["svg_types"], repo["svg_pathops"], repo["geometric_types"]
    for rid, txt in [
        ("R-SITE.bounds-api", "tight bounds API, coordinate conversion, fold over all shapes, no memoised geometry on shapes"),
        ("R-POLY.rect", "Rect.intersection / Rect.union equal the interval formulas (min/max opaque)"),
        ("R-GUARD.clip-viewbox", "clip_to_viewbox: delete only if disjoint, skip only if inside, clip with the intersection rectangle"),
    ]:
        rep.rule(rid, txt)
    # ---- bounds API
    bb = po.func("bounding_box")
    t = unparse(bb)
    if re.search(r"return skia_path\(svg_cmds, fill_rule='nonzero'\)\.bounds$", t.strip().splitlines()[-1].strip()) or "skia_path(svg_cmds, fill_rule='nonzero').bounds" in t:
        rep.ok("R-SITE.bounds-api", "svg_pathops.bounding_box: skia_path(cmds).bounds (tight bounds, not control-point bounds)")
    else:
        rep.fail("R-SITE.bounds-api", "svg_pathops.bounding_box", "skia_path(svg_cmds, fill_rule='nonzero').bounds", "bounding boxes are no longer Skia's tight bounds of the path", po, bb)
    F = "svg_types.SVGShape.bounding_box"
    rep.saw(F)
    fn = method_of(repo, "svg_types", "SVGShape", "bounding_box")

    def setup(it):
        it.hooks[("svg_pathops", "bounding_box")] = lambda i, a, k: (S("x1"), S("y1"), S("x2"), S("y2"))
        it.hooks[("svg_types", "SVGShape.as_cmd_seq")] = lambda i, a, k: "<cmd-seq>"

    outs = explore(repo, fn, [Rec(ClassRef("svg_types", "SVGShape"), {}, mutable=True)], setup=setup)
    ok = len(outs) == 1 and not outs[0].raised and not outs[0].undecided
    if ok:
        v = outs[0].value.f
        ok = to_rf(v["x"]).equals(S("x1")) and to_rf(v["y"]).equals(S("y1")) and to_rf(v["w"]).equals(S("x2") - S("x1")) and to_rf(v["h"]).equals(S("y2") - S("y1"))
    if ok:
        rep.ok("R-SITE.bounds-api", F, "Rect(x1, y1, x2 - x1, y2 - y1) from the shape's own command sequence", True)
    else:
        rep.fail("R-SITE.bounds-api", F, "Rect(x1, y1, x2 - x1, y2 - y1)", f"(x1,y1,x2,y2) is not converted to (x, y, w, h): {outs[0].value if outs else None} {outs[0].undecided if outs else ''}", st, st.func("SVGShape.bounding_box"))
    if "svg_pathops.bounding_box(self.as_cmd_seq())" in unparse(st.func("SVGShape.bounding_box")):
        rep.ok("R-SITE.bounds-api", F + ": computed from self.as_cmd_seq() on every call")
    else:
        rep.fail("R-SITE.bounds-api", F, "svg_pathops.bounding_box(self.as_cmd_seq())", "the box is not computed from the shape's current command sequence", st, st.func("SVGShape.bounding_box"))
    sb = svg.func("SVG.bounding_box")
    t = unparse(sb)
    if "reduce(lambda a, b: a.union(b), (shape.bounding_box() for shape in shapes))" in t and "shapes = self.shapes()" in t:
        rep.ok("R-SITE.bounds-api", "svg.SVG.bounding_box: union over all shapes")
    else:
        rep.fail("R-SITE.bounds-api", "svg.SVG.bounding_box", "reduce(lambda a, b: a.union(b), (shape.bounding_box() for shape in shapes))", "the document box is no longer the union of all shape boxes", svg, sb)
    # overrides / memoisation in the shape hierarchy
    folder = Folder(repo)
    n_cls = 0
    for cq, c in st.classes.items():
        if not (cq.startswith("SVG") and not cq.startswith("_")):
            continue
        n_cls += 1
        declared = {f.name for f in folder.dataclass_fields("svg_types", cq)} if any("dataclass" in unparse(d) for d in c.decorator_list) else None
        for s in c.body:
            if isinstance(s, ast.FunctionDef):
                if s.name == "bounding_box" and cq != "SVGShape":
                    if "svg_pathops.bounding_box(self.as_cmd_seq())" not in unparse(s) or any(isinstance(x, ast.Attribute) and unparse(x).startswith("self._") for x in ast.walk(s)):
                        rep.fail("R-SITE.bounds-api", f"svg_types.{cq}.bounding_box", "def bounding_box", "an override of bounding_box that does not recompute from the current command sequence "
                                 "(a cached box goes stale when the shape is edited in place)", st, s)
                for a in ast.walk(s):
                    if isinstance(a, (ast.Assign, ast.AugAssign, ast.AnnAssign)):
                        tg = a.targets if isinstance(a, ast.Assign) else [a.target]
                        for tnode in tg:
                            if isinstance(tnode, ast.Attribute) and isinstance(tnode.value, ast.Name) and tnode.value.id in ("self", "target") and declared is not None \
                                    and tnode.attr not in declared and not tnode.attr.startswith("__"):
                                rep.fail("R-SITE.bounds-api", f"svg_types.{cq}.{s.name}", a, f"hidden instance state {unparse(tnode)!r} on a shape dataclass (not a declared field): values "
                                         "memoised there survive in-place edits, copies and comparisons unpredictably", st, a)
    rep.floor("shape classes inspected for memoised geometry", n_cls, 8)
    rep.ok("R-SITE.bounds-api", "svg_types: no shape class keeps undeclared instance state / overrides bounding_box with a cache", f"{n_cls} classes")
    # ---- Rect algebra
    a, b = R("a"), R("b")
    F = "geometric_types.Rect.union"
    rep.saw(F, "geometric_types.Rect.intersection")
    outs = explore(repo, method_of(repo, "geometric_types", "Rect", "union"), [a, b])
    ax2, ay2, bx2, by2 = S("ax") + S("aw"), S("ay") + S("ah"), S("bx") + S("bw"), S("by") + S("bh")
    good = len(outs) == 1 and not outs[0].raised and not outs[0].undecided
    if good:
        v = outs[0].value.f
        x, y = fn_atom("min", S("ax"), S("bx")), fn_atom("min", S("ay"), S("by"))
        good = to_rf(v["x"]).equals(x) and to_rf(v["y"]).equals(y) and to_rf(v["w"]).equals(fn_atom("max", ax2, bx2) - x) and to_rf(v["h"]).equals(fn_atom("max", ay2, by2) - y)
    if good:
        rep.ok("R-POLY.rect", F, "[min of starts, max of ends] per axis", True)
    else:
        rep.fail("R-POLY.rect", F, "Rect.union", f"union is {outs[0].value if outs else None}; expected [min of starts, max of ends] per axis", gt, gt.func("Rect.union"))
    F = "geometric_types.Rect.intersection"
    outs = explore(repo, method_of(repo, "geometric_types", "Rect", "intersection"), [a, b])
    some = none = 0
    bad = None
    xs, xe = fn_atom("max", S("ax"), S("bx")), fn_atom("min", ax2, bx2)
    ys, ye = fn_atom("max", S("ay"), S("by")), fn_atom("min", ay2, by2)
    comps = []
    for o in outs:
        if o.undecided:
            raise AnalysisError(f"{F}: evaluator undecided: {o.undecided}")
        if o.raised:
            bad = f"raises {o.raised}"
            break
        cmp_conds = [(c, v) for c, v in o.decisions if isinstance(c, Cond) and c.op in (">=", ">", "<", "<=")]
        comps += cmp_conds
        any_empty = any(v for _, v in cmp_conds)
        if o.value is None:
            if not any_empty:
                continue  # infeasible: both axes non-empty (max < min) but start == end decided - cannot happen
            none += 1
        else:
            some += 1
            v = o.value.f
            if any_empty:
                bad = f"returns a rectangle although an axis is empty (path {o.cond_text()[:80]})"
                break
            if not (to_rf(v["x"]).equals(xs) and to_rf(v["y"]).equals(ys) and to_rf(v["w"]).equals(xe - xs) and to_rf(v["h"]).equals(ye - ys)):
                bad = f"intersection is {o.value}; expected [max of starts, min of ends] per axis"
                break
    if not comps and not bad:
        bad = "no emptiness test found (an empty overlap must give None)"
    for c, _v in comps:
        lhs, rhs = to_rf(c.args[0]), to_rf(c.args[1])
        if c.op != ">=" or not ((lhs.equals(xs) and rhs.equals(xe)) or (lhs.equals(ys) and rhs.equals(ye))):
            bad = f"emptiness test is {c!r}; expected max(starts) >= min(ends) on each axis"
    if bad or not some or not none:
        rep.fail("R-POLY.rect", F, "Rect.intersection", bad or "missing outcome (rectangle / None)", gt, gt.func("Rect.intersection"))
    else:
        rep.ok("R-POLY.rect", F, f"{len(outs)} paths: rectangle = [max of starts, min of ends]; None exactly when max(start) >= min(end) on an axis", True)
    _check_clip(repo, rep)


def _check_clip(repo, rep):
    svg = repo["svg"]
    fn = svg.func("SVG.clip_to_viewbox")
    F = "svg.SVG.clip_to_viewbox"
    rep.saw(F)
    loops = [l for l in fn.body if isinstance(l, ast.For)]
    if len(loops) < 3:
        rep.fail("R-GUARD.clip-viewbox", F, "phase loops", "the three phases (drop outside / clip partial / prune groups) are no longer present", svg, fn)
        return
    p1 = loops[0]
    t1 = unparse(p1)
    if unparse(p1.iter) == "self._elements()" and "if view_box.intersection(shape.bounding_box()) is None:\n        _safe_remove(el)" in t1 and len(p1.body) == 1:
        rep.ok("R-GUARD.clip-viewbox", f"{F}: phase 1 deletes a shape only when its box does not intersect the viewBox", "", True)
    else:
        rep.fail("R-GUARD.clip-viewbox", F, "if view_box.intersection(shape.bounding_box()) is None: _safe_remove(el)", "shapes are deleted under a different condition than 'box disjoint from the viewBox'", svg, p1)
    p2 = loops[1]
    t2 = unparse(p2)
    ok_skip = "if bbox == isct:\n        continue" in t2 and "bbox = shape.bounding_box()" in t2 and "isct = view_box.intersection(bbox)" in t2
    conts = [n for n in ast.walk(p2) if isinstance(n, ast.Continue)]
    if ok_skip and len(conts) == 1:
        rep.ok("R-GUARD.clip-viewbox", f"{F}: clipping is skipped only for shapes whose box lies inside the viewBox", "", True)
    else:
        rep.fail("R-GUARD.clip-viewbox", F, "if bbox == isct: continue", "shapes are left unclipped under a different condition than 'box inside the viewBox'", svg, p2)
    rects = [c for c in ast.walk(fn) if isinstance(c, ast.Call) and call_name(c) == "SVGRect"]
    ok_rect = len(rects) == 1 and _inside(rects[0], p2) and {k.arg: unparse(k.value) for k in rects[0].keywords} == {"x": "isct.x", "y": "isct.y", "width": "isct.w", "height": "isct.h"}
    if ok_rect:
        rep.ok("R-GUARD.clip-viewbox", f"{F}: clip rectangle = the intersection rectangle (x, y, w, h), built per shape", "", True)
    else:
        got = {k.arg: unparse(k.value) for k in rects[0].keywords} if rects else None
        rep.fail("R-GUARD.clip-viewbox", F, "SVGRect(x=isct.x, y=isct.y, width=isct.w, height=isct.h)", f"the clip rectangle is {got}: it must be the intersection of the shape's box with the "
                 "viewBox, including its origin (a viewBox that does not start at 0,0 would clip against the wrong region)", svg, rects[0] if rects else p2)
    if "fill_rules=(shape.fill_rule, clip_path.clip_rule)" in t2 and "shape.fill_rule = 'nonzero'" in t2 and "intersection((shape, clip_path)" in t2.replace("\n", ""):
        rep.ok("R-GUARD.clip-viewbox", f"{F}: intersection under (fill_rule, clip_rule), result marked nonzero")
    else:
        rep.fail("R-GUARD.clip-viewbox", F, "intersection((shape, clip_path), fill_rules=(shape.fill_rule, clip_path.clip_rule))", "rule pairing of the view-box clip changed", svg, p2)
    p3 = loops[-1]
    if "_try_remove_group(context.element)" in unparse(p3) and "reversed(list(self.depth_first()))" in unparse(p3.iter):
        rep.ok("R-GUARD.clip-viewbox", f"{F}: emptied groups pruned afterwards (leaves first)")
    else:
        rep.fail("R-GUARD.clip-viewbox", F, "for context in reversed(list(self.depth_first())): _try_remove_group", "groups emptied by the clip are no longer pruned", svg, p3)
    if "view_box = self.view_box()" in unparse(fn):
        rep.ok("R-GUARD.clip-viewbox", f"{F}: clips against the document's own viewBox")
    cli = repo["picosvg"].func("_run")
    t = unparse(cli)
    if "if FLAGS.clip_to_viewbox:\n        svg.clip_to_viewbox(inplace=True)" in t.replace("    ", "    ") or ("if FLAGS.clip_to_viewbox:" in t and "svg.clip_to_viewbox(inplace=True)" in t):
        rep.ok("R-GUARD.clip-viewbox", "picosvg._run: clip_to_viewbox only under --clip_to_viewbox, after the conversion")
    else:
        rep.fail("R-GUARD.clip-viewbox", "picosvg._run", "if FLAGS.clip_to_viewbox: svg.clip_to_viewbox(inplace=True)", "CLI wiring of clip_to_viewbox changed", repo["picosvg"], cli)


def _inside(node, anc) -> bool:
    p = parent(node)
    while p is not None:
        if p is anc:
            return True
        p = parent(p)
    return False


_S = "svg"
VARIANTS = [
    Variant("control point bounds", [Edit("svg_pathops", "bounding_box", ".bounds", ".controlPointBounds")], [("R-SITE.bounds-api", "bounding_box")]),
    Variant("union uses max for the start", [Edit("geometric_types", "Rect.union", "x, y = min(self.x, other.x), min(self.y, other.y)", "x, y = max(self.x, other.x), min(self.y, other.y)")], [("R-POLY.rect", "union")]),
    Variant("skip when not None", [Edit(_S, "SVG.clip_to_viewbox", "            if bbox == isct:\n                continue", "            if isct is not None and bbox.w == isct.w:\n                continue")], [("R-GUARD.clip-viewbox", "clip_to_viewbox")]),
    Variant("phase 1 test dropped", [Edit(_S, "SVG.clip_to_viewbox", "            if view_box.intersection(shape.bounding_box()) is None:\n                _safe_remove(el)", "            if shape.bounding_box().w == 0:\n                _safe_remove(el)")],
            [("R-GUARD.clip-viewbox", "clip_to_viewbox")]),
    Variant("clip rectangle at the origin", [Edit(_S, "SVG.clip_to_viewbox", "SVGRect(x=isct.x, y=isct.y, width=isct.w, height=isct.h)", "SVGRect(width=view_box.w, height=view_box.h)")], [("R-GUARD.clip-viewbox", "clip_to_viewbox")]),
    Variant("height from y2 only", [Edit("svg_types", "SVGShape.bounding_box", "return Rect(x1, y1, x2 - x1, y2 - y1)", "return Rect(x1, y1, x2 - x1, y2)")], [("R-SITE.bounds-api", "SVGShape.bounding_box")]),
    Variant("memoised bounding box on paths", [Edit("svg_types", "SVGPath", "    def as_path(self) -> \"SVGPath\":\n        return self\n", "    def as_path(self) -> \"SVGPath\":\n        return self\n\n    def bounding_box(self) -> Rect:\n        if getattr(self, \"_bbox\", None) is None:\n            self._bbox = super().bounding_box()\n        return self._bbox\n")],
            [("R-SITE.bounds-api", "SVGPath")]),
    Variant("intersection emptiness strict", [Edit("geometric_types", "Rect.intersection", "if start >= end:", "if start > end + 1:")], [("R-POLY.rect", "intersection")]),
    Variant("document box of the first shape only", [Edit(_S, "SVG.bounding_box", "(shape.bounding_box() for shape in shapes)", "(shape.bounding_box() for shape in shapes[:1])")], [("R-SITE.bounds-api", "SVG.bounding_box")]),
    Variant("silent: union written with x_max helper inline", [Edit("geometric_types", "Rect.union", "max(self.x_max, other.x_max)", "max(self.x + self.w, other.x + other.w)")], silent=True),
]

"""C14 - content that renderers ignore never influences the converted document (filter/ordering clauses)."""
from __future__ import annotations

import ast

from sa.calls import Resolver
from sa.core import AnalysisError, Repo, Report, call_name, kwarg, parent, unparse, walk_no_nested
from sa.selftest import Edit, Variant

EXPLANATION = (
    "A relation between two conversions cannot be observed statically; what is decided is that ignorable nodes are removed or skipped before "
    "any decision that counts, orders or interprets nodes: (parser) the single XML entry point drops comments and blank text; (order, by "
    "dominance on the CFG of topicosvg) the junk removers dominate the first stages that read attributes or count children "
    "(apply_style_attributes, resolve_nested_svgs, shapes_to_paths, resolve_use, simplify) and processing instructions are removed on every "
    "path; (removers) each remover selects its targets with a materialised query and never deletes while walking a live tree iterator, "
    "remove_nonsvg_content drops foreign-namespace elements and attributes, remove_title_meta_desc covers title/desc/metadata, "
    "remove_anonymous_symbols selects symbols without id; (filters) every child iteration that counts, indexes or dispatches filters comments "
    "and processing instructions, and attribute-less groups are removable before their children are looked at."
)
ASSUMPTIONS = ["numbering of generated gradient ids, order of gradients in defs and last-digit rounding may differ (as the property allows)"]
P = "C14"
REMOVERS = ["remove_nonsvg_content", "remove_processing_instructions", "remove_anonymous_symbols", "remove_title_meta_desc"]
READERS = ["apply_style_attributes", "resolve_nested_svgs", "shapes_to_paths", "expand_shorthand", "resolve_use", "simplify"]
LIVE_ITERS = ("iter", "getiterator", "iterdescendants", "itertext", "itersiblings", "iterfind")


def run(repo: Repo, rep: Report):
    svg = repo["svg"]
    res = Resolver(repo)
    for rid, txt in [
        ("R-SITE.parser-flags", "XMLParser(remove_comments=True, remove_blank_text=True) at the only XML entry point"),
        ("R-ORDER.junk-first", "junk removers dominate every stage that reads attributes or counts children"),
        ("R-SITE.removers", "removers: materialised selection, complete target sets, no deletion during a live tree walk"),
        ("R-SITE.redundant-filter", "child iterations that count/index/dispatch filter comments and processing instructions"),
    ]:
        rep.rule(rid, txt)
    # ---- parser
    fs = svg.func("SVG.fromstring")
    ps = [c for c in ast.walk(svg.tree) if isinstance(c, ast.Call) and call_name(c) == "etree.XMLParser"]
    if len(ps) == 1 and _true(ps[0], "remove_comments") and _true(ps[0], "remove_blank_text"):
        rep.ok("R-SITE.parser-flags", "svg.SVG.fromstring: XMLParser(remove_comments=True, remove_blank_text=True)")
    else:
        rep.fail("R-SITE.parser-flags", "svg.SVG.fromstring", ps[0] if ps else "etree.XMLParser(...)", "comments / inter-element whitespace are no longer dropped at parse time", svg, ps[0] if ps else fs)
    # ---- order
    from sa.rules.c01 import topicosvg_order
    order = topicosvg_order(repo, res)
    F = "svg.SVG.topicosvg"
    rep.saw(F)
    entry = order.branch_entry("not inplace", "false")
    for r in REMOVERS:
        if not order.has(r) or not order.on_all_paths_from(entry, r):
            rep.fail("R-ORDER.junk-first", F, f"self.{r}(inplace=True)", f"{r} is not on every path of the conversion", svg, svg.func("SVG.topicosvg"))
            continue
        if r == "remove_processing_instructions":
            rep.ok("R-ORDER.junk-first", f"{F}: {r} on every path")
        for s in READERS:
            bad = order.must_precede(r, s)
            if bad:
                rep.fail("R-ORDER.junk-first", F, f"{r} before {s}", f"{bad}: ignorable content is still in the tree when {s} interprets / counts / instantiates elements", svg, svg.func("SVG.topicosvg"),
                         path=[f"entry {F}", bad])
            else:
                rep.ok("R-ORDER.junk-first", f"{F}: {r} dominates {s}", "", True)
    # ---- removers
    _check_removers(repo, rep)
    # ---- redundant filters
    _check_filters(repo, rep)


def _true(call, name):
    v = kwarg(call, name)
    return isinstance(v, ast.Constant) and v.value is True


def _check_removers(repo, rep):
    svg = repo["svg"]
    # generic: no deletion while walking a live tree iterator, anywhere in svg.py
    n_loops = 0
    for q, f in svg.functions.items():
        for loop in ast.walk(f):
            if not isinstance(loop, ast.For):
                continue
            it = loop.iter
            live = isinstance(it, ast.Call) and isinstance(it.func, ast.Attribute) and it.func.attr in LIVE_ITERS
            if not live:
                continue
            n_loops += 1
            deletes = [c for c in ast.walk(loop) if isinstance(c, ast.Call) and (call_name(c).endswith(".remove") and "getparent" in call_name(c) or call_name(c) in ("_safe_remove", "_replace_el")
                                                                                 or call_name(c).endswith((".replace", ".addnext", ".addprevious")) and "attrib" not in call_name(c) and not any(isinstance(a, ast.Constant) for a in c.args))]
            if deletes:
                rep.fail("R-SITE.removers", f"svg.{q}", deletes[0], f"elements are removed/replaced inside `for ... in {unparse(it)}`, a live document-order walk: removing a node with its "
                         "subtree makes the walk stop early, so later nodes are never visited (nested ignorable content hides following content)", svg, deletes[0])
            else:
                rep.ok("R-SITE.removers", f"svg.{q}: for .. in {unparse(it)[:50]}", "no structural edit inside the live walk (targets are collected first)")
    rep.floor("live tree walks in svg.py", n_loops, 2)
    # remove_title_meta_desc
    f = svg.func("SVG.remove_title_meta_desc")
    t = unparse(f)
    tags = [n for n in walk_no_nested(f) if isinstance(n, ast.For) and isinstance(n.iter, (ast.Tuple, ast.List))]
    names = {e.value for l in tags for e in l.iter.elts if isinstance(e, ast.Constant)}
    if {"title", "desc", "metadata"} <= names and "self.xpath(f'//svg:{tag}')" in t and "el.getparent().remove(el)" in t:
        rep.ok("R-SITE.removers", "svg.SVG.remove_title_meta_desc", "title, desc, metadata selected anywhere in the tree by materialised xpath lists, then removed")
    else:
        rep.fail("R-SITE.removers", "svg.SVG.remove_title_meta_desc", "for tag in ('title','desc','metadata'): for el in self.xpath(f'//svg:{tag}')",
                 "title/desc/metadata are no longer all selected (by a materialised query) and removed", svg, f)
    f = svg.func("SVG.remove_anonymous_symbols")
    if "self.xpath('//svg:symbol[not(@id)]')" in unparse(f) and "el.getparent().remove(el)" in unparse(f):
        rep.ok("R-SITE.removers", "svg.SVG.remove_anonymous_symbols", "symbols without id, anywhere")
    else:
        rep.fail("R-SITE.removers", "svg.SVG.remove_anonymous_symbols", "self.xpath('//svg:symbol[not(@id)]')", "id-less symbols are no longer all removed", svg, f)
    f = svg.func("SVG.remove_processing_instructions")
    if "self.xpath('//processing-instruction()')" in unparse(f) and "el.getparent().remove(el)" in unparse(f):
        rep.ok("R-SITE.removers", "svg.SVG.remove_processing_instructions", "every processing instruction below the root")
    else:
        rep.fail("R-SITE.removers", "svg.SVG.remove_processing_instructions", "self.xpath('//processing-instruction()')", "processing instructions are no longer all removed", svg, f)
    f = svg.func("SVG.remove_nonsvg_content")
    t = unparse(f)
    needs = [("good_ns = {svgns(), xlinkns()}", "only svg and xlink namespaces are kept"),
             ("for el in self.svg_root.getiterator('*'):", "every element is visited"),
             ("if ns not in good_ns:\n        el_to_rm.append(el)\n        continue", "foreign elements are collected for removal"),
             ("attr_to_rm.append(attr)", "foreign attributes are collected"),
             ("del el.attrib[attr]", "and deleted"),
             ("for el in el_to_rm:\n    el.getparent().remove(el)", "foreign elements removed after the walk")]
    flat = t.replace("        ", "    ")
    for needle, what in needs:
        if needle in t or needle in flat or needle.replace("\n        ", "\n            ") in t or needle.replace("\n    ", "\n        ") in t:
            rep.ok("R-SITE.removers", f"svg.SVG.remove_nonsvg_content: {what}")
        else:
            rep.fail("R-SITE.removers", "svg.SVG.remove_nonsvg_content", needle.split("\n")[0], f"missing: {what}", svg, f)


def _check_filters(repo, rep):
    svg = repo["svg"]
    from sa.rules import groups
    groups.check_removable_predicate(repo, rep, "R-SITE.redundant-filter", "comments / processing instructions among the children must not influence the keep-or-flatten decision")
    groups.check_try_remove_group(repo, rep, "R-SITE.redundant-filter", "comments among the children must be skipped when the opacity is pushed")
    sites = {
        "SVG._traverse": ("if _is_redundant(child.tag):\n    continue", "traversal (nth-of-type numbering, context building)"),
        "SVG._iter_nested_svgs": ("if _is_redundant(el.tag):\n    continue", "nested svg search"),
    }
    for q, (needle, what) in sites.items():
        f = svg.func(q)
        t = unparse(f)
        import re as _re
        pat = _re.escape(needle).replace(r"\
\ \ \ \ ", r"\n\s+").replace("\\\n    ", r"\n\s+")
        pat = r"\n\s+".join(_re.escape(part.strip()) for part in needle.split("\n"))
        if _re.search(pat, t):
            rep.ok("R-SITE.redundant-filter", f"svg.{q}", f"{what}: comments and processing instructions are skipped", True)
        else:
            rep.fail("R-SITE.redundant-filter", f"svg.{q}", needle.split("\n")[0], f"{what} no longer skips comments / processing instructions: their presence changes counts, numbering or decisions", svg, f)
    # in _traverse the filter must come before the counter update
    tr = svg.func("SVG._traverse")
    inner = [l for l in ast.walk(tr) if isinstance(l, ast.For) and unparse(l.iter) == "context.element"]
    if inner:
        b = [unparse(s) for s in inner[0].body]
        i_f = next((i for i, x in enumerate(b) if x.startswith("if _is_redundant(child.tag)")), -1)
        i_c = next((i for i, x in enumerate(b) if "child_idxs[" in x and "+= 1" in x), -1)
        if 0 <= i_f < i_c:
            rep.ok("R-SITE.redundant-filter", "svg.SVG._traverse: filter precedes the nth-of-type counter")
        else:
            rep.fail("R-SITE.redundant-filter", "svg.SVG._traverse", "if _is_redundant(child.tag): continue  (before child_idxs[...] += 1)", "ignorable nodes take part in the nth-of-type numbering", svg, inner[0])
    ir = svg.func("_is_redundant")
    if "tag is etree.Comment or tag is etree.ProcessingInstruction" in unparse(ir):
        rep.ok("R-SITE.redundant-filter", "svg._is_redundant: comments and processing instructions")
    else:
        rep.fail("R-SITE.redundant-filter", "svg._is_redundant", "tag is etree.Comment or tag is etree.ProcessingInstruction", "the set of ignorable node kinds changed", svg, ir)


_S = "svg"
VARIANTS = [
    Variant("comments kept by the parser", [Edit(_S, "SVG.fromstring", "remove_comments=True", "remove_comments=False")], [("R-SITE.parser-flags", "fromstring")]),
    Variant("title/desc removed after simplify", [Edit(_S, "SVG.topicosvg", "        self.remove_title_meta_desc(inplace=True)\n", ""),
                                                  Edit(_S, "SVG.topicosvg", "        self.simplify(inplace=True)\n", "        self.simplify(inplace=True)\n        self.remove_title_meta_desc(inplace=True)\n")],
            [("R-ORDER.junk-first", "topicosvg")]),
    Variant("anonymous symbols removed after resolve_use", [Edit(_S, "SVG.topicosvg", "        self.remove_anonymous_symbols(inplace=True)\n", ""),
                                                            Edit(_S, "SVG.topicosvg", "        self.resolve_use(inplace=True)\n", "        self.resolve_use(inplace=True)\n        self.remove_anonymous_symbols(inplace=True)\n")],
            [("R-ORDER.junk-first", "topicosvg")]),
    Variant("traversal does not skip comments", [Edit(_S, "SVG._traverse", "                if _is_redundant(child.tag):\n                    continue\n", "")], [("R-SITE.redundant-filter", "_traverse")]),
    Variant("foreign attributes kept", [Edit(_S, "SVG.remove_nonsvg_content", "            for attr in attr_to_rm:\n                del el.attrib[attr]\n", "")], [("R-SITE.removers", "remove_nonsvg_content")]),
    Variant("title removal during a live walk", [Edit(_S, "SVG.remove_title_meta_desc", "        for tag in (\"title\", \"desc\", \"metadata\", \"comment\"):\n            for el in self.xpath(f\"//svg:{tag}\"):\n                el.getparent().remove(el)\n",
                                                      "        for el in self.svg_root.iter(*(f\"{{{svgns()}}}{t}\" for t in (\"title\", \"desc\", \"metadata\", \"comment\"))):\n            el.getparent().remove(el)\n")],
            [("R-SITE.removers", "remove_title_meta_desc")]),
    Variant("metadata no longer removed", [Edit(_S, "SVG.remove_title_meta_desc", '("title", "desc", "metadata", "comment")', '("title", "desc", "comment")')], [("R-SITE.removers", "remove_title_meta_desc")]),
    Variant("only root-level symbols", [Edit(_S, "SVG.remove_anonymous_symbols", '"//svg:symbol[not(@id)]"', '"/svg:svg/svg:symbol[not(@id)]"')], [("R-SITE.removers", "remove_anonymous_symbols")]),
    Variant("silent: swap two removers", [Edit(_S, "SVG.topicosvg", "        self.remove_nonsvg_content(inplace=True)\n        self.remove_processing_instructions(inplace=True)\n", "        self.remove_processing_instructions(inplace=True)\n        self.remove_nonsvg_content(inplace=True)\n")], silent=True),
]

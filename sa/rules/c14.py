"""C14 - content that renderers ignore never influences the converted document (filter/ordering clauses)."""
from __future__ import annotations

import ast

from sa.calls import Resolver
from sa.core import AnalysisError, Repo, Report, call_name, kwarg, parent, unparse, walk_no_nested
from sa.selftest import Edit, Variant

from sa.texts import T as _TX

EXPLANATION = _TX["C14"]["explanation"] + " Not decided: " + _TX["C14"]["not_decided"] + "."
ASSUMPTIONS = _TX["C14"]["assumptions"]
P = "C14"
REMOVERS = ["remove_nonsvg_content", "remove_processing_instructions", "remove_anonymous_symbols", "remove_title_meta_desc"]
READERS = ["apply_style_attributes", "resolve_nested_svgs", "shapes_to_paths", "expand_shorthand", "resolve_use", "simplify"]
LIVE_ITERS = ("iter", "getiterator", "iterdescendants", "itertext", "itersiblings", "iterfind")


def run(repo: Repo, rep: Report):
    from sa.rules import groups, sem
    svg = repo["svg"]
    for rid, txt in [
        ("R-SITE.parser-flags", "fromstring / parse interpreted: the document is handed to lxml once, through an XMLParser with remove_comments=True and remove_blank_text=True"),
        ("R-ORDER.junk-first", "topicosvg interpreted on a schematic document with and without ignorable content at every level (processing instructions, nested title/desc/metadata, "
                               "foreign elements and attributes, id-less symbols shadowing live ids, attribute-less wrapper groups): identical results"),
        ("R-SITE.redundant-filter", "traversal numbering and the keep-or-flatten decision are independent of comments and processing instructions among the children"),
    ]:
        rep.rule(rid, txt)
    sem.check_xml_entry(repo, rep, "R-SITE.parser-flags", {"remove_comments": True, "remove_blank_text": True})
    sem.check_noise_invariance(repo, rep, "R-ORDER.junk-first")
    groups.check_removable_predicate(repo, rep, "R-SITE.redundant-filter", "comments / processing instructions among the children must not influence the keep-or-flatten decision")
    groups.check_try_remove_group(repo, rep, "R-SITE.redundant-filter", "comments among the children must be skipped when the opacity is pushed")
    sem.check_traverse(repo, rep, {"order": "R-SITE.redundant-filter", "paths": "R-SITE.redundant-filter"})


def _true(call, name):
    v = kwarg(call, name)
    return isinstance(v, ast.Constant) and v.value is True


_S = "svg"
VARIANTS = [
    Variant("processing instructions removed only after simplify (a gradient that takes its stops from a template is no longer childless)",
            [Edit(_S, "SVG.topicosvg", "        self.remove_processing_instructions(inplace=True)\n", ""),
             Edit(_S, "SVG.topicosvg", "        self.simplify(inplace=True)\n", "        self.simplify(inplace=True)\n        self.remove_processing_instructions(inplace=True)\n")],
            [("R-", "topicosvg")], allow_analysis_error=True),
    Variant("comments kept by the parser", [Edit(_S, "SVG.fromstring", "remove_comments=True", "remove_comments=False")], [("R-SITE.parser-flags", "fromstring")]),
    Variant("title/desc removed after simplify", [Edit(_S, "SVG.topicosvg", "        self.remove_title_meta_desc(inplace=True)\n", ""),
                                                  Edit(_S, "SVG.topicosvg", "        self.simplify(inplace=True)\n", "        self.simplify(inplace=True)\n        self.remove_title_meta_desc(inplace=True)\n")],
            [("R-ORDER.junk-first", "topicosvg")]),
    Variant("anonymous symbols removed after resolve_use", [Edit(_S, "SVG.topicosvg", "        self.remove_anonymous_symbols(inplace=True)\n", ""),
                                                            Edit(_S, "SVG.topicosvg", "        self.resolve_use(inplace=True)\n", "        self.resolve_use(inplace=True)\n        self.remove_anonymous_symbols(inplace=True)\n")],
            [("R-ORDER.junk-first", "topicosvg")]),
    Variant("traversal does not skip comments", [Edit(_S, "SVG._traverse", "                if _is_redundant(child.tag):\n                    continue\n", "")], [("R-SITE.redundant-filter", "_traverse")]),
    Variant("foreign attributes kept", [Edit(_S, "SVG.remove_nonsvg_content", "            for attr in attr_to_rm:\n                del el.attrib[attr]\n", "")], [("R-ORDER.junk-first", "topicosvg")]),
    Variant("title removal during a live walk", [Edit(_S, "SVG.remove_title_meta_desc", "        for tag in (\"title\", \"desc\", \"metadata\", \"comment\"):\n            for el in self.xpath(f\"//svg:{tag}\"):\n                el.getparent().remove(el)\n",
                                                      "        for el in self.svg_root.iter(*(f\"{{{svgns()}}}{t}\" for t in (\"title\", \"desc\", \"metadata\", \"comment\"))):\n            el.getparent().remove(el)\n")],
            [("R-ORDER.junk-first", "topicosvg")]),
    Variant("metadata no longer removed", [Edit(_S, "SVG.remove_title_meta_desc", '("title", "desc", "metadata", "comment")', '("title", "desc", "comment")')], [("R-ORDER.junk-first", "topicosvg")]),
    Variant("only root-level symbols", [Edit(_S, "SVG.remove_anonymous_symbols", '"//svg:symbol[not(@id)]"', '"/svg:svg/svg:symbol[not(@id)]"')], [("R-ORDER.junk-first", "topicosvg")], allow_analysis_error=True),
    Variant("anonymous symbols with an id inside are kept", [Edit(_S, "SVG.remove_anonymous_symbols", '"//svg:symbol[not(@id)]"', '"//svg:symbol[not(@id) and not(.//@id)]"')], [("R-ORDER.junk-first", "topicosvg")]),
    Variant("namespace walk skipped when the root declares nothing foreign", [Edit(_S, "SVG.remove_nonsvg_content", "        self._update_etree()\n", "        self._update_etree()\n        if all(v in (svgns(), xlinkns()) for v in self.svg_root.nsmap.values()):\n            return self\n")],
            [("R-ORDER.junk-first", "topicosvg")]),
    Variant("silent: swap two removers", [Edit(_S, "SVG.topicosvg", "        self.remove_nonsvg_content(inplace=True)\n        self.remove_processing_instructions(inplace=True)\n", "        self.remove_processing_instructions(inplace=True)\n        self.remove_nonsvg_content(inplace=True)\n")], silent=True),
]

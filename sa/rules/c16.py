"""C16 - output bytes depend only on input bytes and options (source-of-nondeterminism analysis)."""
from __future__ import annotations

import ast
from typing import Dict, List, Optional, Set, Tuple

from sa.core import AnalysisError, Module, Repo, Report, call_name, parent, unparse, walk_no_nested
from sa.fold import Folder, SetVal
from sa.selftest import Edit, Variant

from sa.texts import T as _TX

EXPLANATION = _TX["C16"]["explanation"] + " Not decided: " + _TX["C16"]["not_decided"] + "."
ASSUMPTIONS = _TX["C16"]["assumptions"]
P = "C16"

FORBIDDEN_CALLS = {"id", "hash", "getpid", "urandom", "getenv", "uuid1", "uuid4", "time", "monotonic", "perf_counter", "now", "today",
                   "mkstemp", "mkdtemp", "getrandbits", "randint", "random", "choice", "shuffle", "getuid", "gethostname", "object_repr"}
FORBIDDEN_MODULES = {"random", "time", "uuid", "datetime", "tempfile", "threading", "secrets", "socket", "multiprocessing", "getpass", "platform"}
INSENSITIVE_FUNCS = {"len", "sorted", "min", "max", "any", "all", "set", "frozenset", "bool", "isinstance", "sum", "dict.fromkeys"}
SENSITIVE_FUNCS = {"tuple", "list", "enumerate", "zip", "iter", "next", "reversed", "map", "filter", "deque", "chain", "str"}
SET_METHODS_OK = {"add", "discard", "update", "remove", "clear", "copy", "issubset", "issuperset", "isdisjoint",
                  "union", "intersection", "difference", "symmetric_difference", "intersection_update", "difference_update", "__contains__"}
SET_RETURNING_METHODS = {"union", "intersection", "difference", "symmetric_difference", "copy"}
MUTATING_METHODS = {"append", "extend", "insert", "add", "update", "pop", "popitem", "clear", "remove", "discard", "setdefault", "sort", "reverse", "__setitem__"}

POSITIVE_CONTROL = '''
import random, os
_SEEN = {}
def f(el, names):
    global _COUNT
    _SEEN[id(el)] = os.getenv("X")
    for n in {"a", "b"} | names.keys():
        el.attrib[n] = str(random.random())
    return tuple({1, 2})
'''


def run(repo: Repo, rep: Report):
    rep.rule("R-EFFECT.forbidden-source", "no environment/time/identity/randomness API anywhere in the package")
    rep.rule("R-TAINT.unordered", "the schematic document, converted with sets (and the module tables built from them) iterated in two opposite orders, gives identical documents including attribute order; "
                                   "inventory of order-sensitive uses of set-typed values")
    rep.rule("R-EFFECT.cross-call-state", "no global statement / module-level container mutation / mutable class attribute / mutated default; a document converted after another one in the same "
                                           "interpreter (functools caches, class attributes and module tables persist) gives the same result as converted alone")
    rep.rule("R-EFFECT.new-id", "generated ids are unique and the same whether or not other documents were converted before")
    folder = Folder(repo)
    # positive control: the lints must fire on a tiny example on every run
    ctl = Module("control", "<control>", POSITIVE_CONTROL)
    c_forb = _forbidden(ctl)
    c_set = [u for u in _set_uses(ctl, set()) if u[0] == "sensitive"]
    c_state = _state_writes(ctl)
    if not (len(c_forb) >= 3 and len(c_set) >= 2 and len(c_state) >= 2):
        raise AnalysisError(f"positive control no longer matches (forbidden={len(c_forb)}, unordered={len(c_set)}, state={len(c_state)}): the lint is broken")
    rep.ok("R-EFFECT.forbidden-source", "positive control", f"control snippet: {len(c_forb)} forbidden calls, {len(c_set)} unordered sinks, {len(c_state)} state writes detected", True)

    n_calls = 0
    for mod in repo.modules.values():
        for fq in mod.functions:
            rep.saw(f"{mod.name}.{fq}")
        n_calls += sum(1 for n in ast.walk(mod.tree) if isinstance(n, ast.Call))
        # (1) forbidden sources
        for node, what in _forbidden(mod):
            fn = _fn_of(node)
            rep.fail("R-EFFECT.forbidden-source", f"{mod.name}.{fn}", node, f"{what}: the result depends on process/environment state, not on the input document", mod, node)
    rep.call_sites += n_calls
    rep.ok("R-EFFECT.forbidden-source", "package-wide scan", f"{n_calls} call sites, {len(repo.modules)} modules: none resolves to a forbidden API")

    # (2) unordered iteration
    mod_sets = _module_level_sets(repo, folder)
    total_sets = 0
    sensitive_seen = []
    for mod in repo.modules.values():
        uses = _set_uses(mod, mod_sets.get(mod.name, set()) | _imported_sets(repo, mod, mod_sets))
        total_sets += len({id(u[1]) for u in uses})
        for kind, expr, sink, why in uses:
            fn = _fn_of(sink)
            key = (f"{mod.name}.{fn}", _norm_sink(sink))
            if kind == "sensitive":
                sensitive_seen.append((mod, key, expr, sink, why))
            else:
                rep.ob("R-TAINT.unordered", f"{key[0]}: {unparse(expr)[:50]} -> {why}", True, "order-insensitive use")
    rep.floor("set-typed expressions found in the package", total_sets, 12)
    for mod, key, expr, sink, why in sensitive_seen:
        exc = _frozen_exception(repo, folder, mod, key, expr, sink)
        if exc is True:
            continue
        if exc:
            rep.ok("R-TAINT.unordered", f"{key[0]}: {key[1][:70]}", f"order-sensitive use whose order cannot reach the document: {exc}", True)
        else:
            # inventory only: whether the order reaches the converted document is decided by the interpretation under two set orders below
            rep.ok("R-TAINT.unordered", f"{key[0]}: {key[1][:70]}", f"order-sensitive use of a hash-ordered value ({why}): decided by the two-order interpretation", True)

    # (3) cross-call state
    for mod in repo.modules.values():
        for node, what in _state_writes(mod):
            rep.fail("R-EFFECT.cross-call-state", f"{mod.name}.{_fn_of(node)}", node, what, mod, node)
        for node, what in _class_state(mod):
            rep.fail("R-EFFECT.cross-call-state", f"{mod.name}.{_cls_of(node)}", node, what, mod, node)
        for node, what in _mutable_defaults(mod):
            rep.fail("R-EFFECT.cross-call-state", f"{mod.name}.{_fn_of(node)}", node, what, mod, node)
    rep.ok("R-EFFECT.cross-call-state", "package-wide scan", "no global statement, no mutation of a module-level container inside a function, no mutable class attribute, no mutated mutable default")
    from sa.rules import sem
    sem.check_set_order_independence(repo, rep, "R-TAINT.unordered")
    sem.check_history_independence(repo, rep, "R-EFFECT.cross-call-state")
    sem.check_simplify(repo, rep, {"refs": "R-EFFECT.new-id"})
    sem.check_nested_svg(repo, rep, {"ids": "R-EFFECT.new-id"})


# -------------------------------------------------------------------------------------------
def _fn_of(node) -> str:
    p = node
    while p is not None:
        if isinstance(p, (ast.FunctionDef, ast.AsyncFunctionDef)):
            return getattr(p, "_qualname", p.name)
        p = parent(p)
    return "<module>"


def _cls_of(node) -> str:
    p = node
    while p is not None:
        if isinstance(p, ast.ClassDef):
            return p.name
        p = parent(p)
    return "<module>"


def _forbidden(mod: Module):
    out = []
    for n in ast.walk(mod.tree):
        if isinstance(n, (ast.Import, ast.ImportFrom)):
            names = [a.name.split(".")[0] for a in n.names] if isinstance(n, ast.Import) else [(n.module or "").split(".")[0]]
            for nm in names:
                if nm in FORBIDDEN_MODULES:
                    out.append((n, f"imports {nm}"))
        if isinstance(n, ast.Call):
            nm = call_name(n)
            last = nm.split(".")[-1]
            root = nm.split(".")[0]
            if isinstance(n.func, ast.Name) and n.func.id in ("id", "hash"):
                out.append((n, f"calls builtin {n.func.id}()"))
            elif root in FORBIDDEN_MODULES or (root == "os" and last in ("getenv", "getpid", "urandom", "getuid", "times")):
                out.append((n, f"calls {nm}()"))
        if isinstance(n, ast.Attribute) and unparse(n) in ("os.environ",):
            out.append((n, "reads os.environ"))
        if isinstance(n, ast.Attribute) and n.attr == "__repr__" and unparse(n.value) == "object":
            out.append((n, "default object repr (contains an address)"))
    return out


def _is_set_expr(node, set_names: Set[str]) -> bool:
    if isinstance(node, (ast.Set, ast.SetComp)):
        return True
    if isinstance(node, ast.Call):
        nm = call_name(node)
        if nm in ("set", "frozenset"):
            return True
        if isinstance(node.func, ast.Attribute) and node.func.attr in SET_RETURNING_METHODS and _is_set_expr(node.func.value, set_names):
            return True
        return False
    if isinstance(node, ast.BinOp) and isinstance(node.op, (ast.BitAnd, ast.BitOr, ast.Sub, ast.BitXor)):
        def viewish(x):
            return isinstance(x, ast.Call) and isinstance(x.func, ast.Attribute) and x.func.attr in ("keys", "items")
        l, r = node.left, node.right
        if _is_set_expr(l, set_names) or _is_set_expr(r, set_names):
            return True
        if viewish(l) or viewish(r):
            return True  # dict-view algebra yields a set
        return False
    if isinstance(node, ast.Name):
        return node.id in set_names
    if isinstance(node, ast.Attribute):
        return unparse(node) in set_names or node.attr in set_names and node.attr.startswith("_") and node.attr.isupper()
    if isinstance(node, ast.IfExp):
        return _is_set_expr(node.body, set_names) or _is_set_expr(node.orelse, set_names)
    return False


def _module_level_sets(repo: Repo, folder: Folder) -> Dict[str, Set[str]]:
    out: Dict[str, Set[str]] = {}
    for mod in repo.modules.values():
        names: Set[str] = set()
        changed = True
        while changed:
            changed = False
            for nm, vals in mod.assigns.items():
                if nm not in names and all(_is_set_expr(v, names) for v in vals):
                    names.add(nm)
                    changed = True
        for cq, c in mod.classes.items():
            for st in c.body:
                if isinstance(st, ast.Assign) and len(st.targets) == 1 and isinstance(st.targets[0], ast.Name) and _is_set_expr(st.value, names):
                    names.add(st.targets[0].id)
        out[mod.name] = names
    return out


def _imported_sets(repo: Repo, mod: Module, mod_sets) -> Set[str]:
    out = set()
    for local, (m, attr) in mod.imports.items():
        tm = repo.resolve_module(m)
        if tm and attr in mod_sets.get(tm.name, ()):
            out.add(local)
    for m in mod.star_imports:
        tm = repo.resolve_module(m)
        if tm:
            out |= {n for n in mod_sets.get(tm.name, ()) if not n.startswith("__")}
    return out


def _scope_set_names(scope, inherited: Set[str]) -> Set[str]:
    """Names that are set-typed inside a function: every binding in the function is a set expression, or a
    parameter whose default is one."""
    names = set(inherited)
    binds: Dict[str, List] = {}
    if isinstance(scope, (ast.FunctionDef, ast.AsyncFunctionDef)):
        a = scope.args
        pos = a.args
        for p, d in zip(pos[len(pos) - len(a.defaults):], a.defaults):
            binds.setdefault(p.arg, []).append(d)
        for p, d in zip(a.kwonlyargs, a.kw_defaults):
            if d is not None:
                binds.setdefault(p.arg, []).append(d)
        for p in pos[: len(pos) - len(a.defaults)]:
            binds.setdefault(p.arg, []).append(None)
    for n in walk_no_nested(scope):
        if isinstance(n, ast.Assign):
            for t in n.targets:
                if isinstance(t, ast.Name):
                    binds.setdefault(t.id, []).append(n.value)
                elif isinstance(t, (ast.Tuple, ast.List)):
                    for e in ast.walk(t):
                        if isinstance(e, ast.Name):
                            binds.setdefault(e.id, []).append(None)
        elif isinstance(n, ast.AugAssign) and isinstance(n.target, ast.Name):
            binds.setdefault(n.target.id, []).append(n.value if isinstance(n.op, (ast.BitOr, ast.BitAnd, ast.Sub)) else None)
        elif isinstance(n, (ast.For, ast.comprehension)):
            for e in ast.walk(n.target):
                if isinstance(e, ast.Name):
                    binds.setdefault(e.id, []).append(None)
        elif isinstance(n, ast.AnnAssign) and isinstance(n.target, ast.Name):
            binds.setdefault(n.target.id, []).append(n.value)
    changed = True
    while changed:
        changed = False
        for nm, vals in binds.items():
            is_set = all(v is not None and _is_set_expr(v, names) for v in vals)
            if is_set and nm not in names:
                names.add(nm)
                changed = True
            if not is_set and nm in names and nm not in inherited:
                pass
    # a local rebinding to a non-set shadows an inherited set name
    for nm, vals in binds.items():
        if nm in inherited and not all(v is not None and _is_set_expr(v, names) for v in vals):
            names.discard(nm)
    return names


def _classify_use(expr) -> Tuple[str, ast.AST, str]:
    """Follow a set-typed expression upward to the construct that consumes it."""
    node = expr
    while True:
        p = parent(node)
        if p is None:
            return ("neutral", node, "top level")
        if isinstance(p, ast.Compare):
            if node in p.comparators and any(isinstance(o, (ast.In, ast.NotIn)) for o in p.ops):
                return ("insensitive", p, "membership test")
            return ("insensitive", p, "comparison")
        if isinstance(p, ast.BinOp) and isinstance(p.op, (ast.BitAnd, ast.BitOr, ast.Sub, ast.BitXor)):
            node = p
            continue
        if isinstance(p, ast.IfExp):
            node = p
            continue
        if isinstance(p, ast.BoolOp) or isinstance(p, ast.UnaryOp) or (isinstance(p, (ast.If, ast.While, ast.Assert)) and getattr(p, "test", None) is node):
            return ("insensitive", p, "truth test")
        if isinstance(p, ast.comprehension) and p.iter is node:
            comp = parent(p)
            cp = parent(comp)
            if isinstance(comp, (ast.SetComp,)):
                return ("insensitive", comp, "iteration building a set")
            if isinstance(comp, ast.DictComp):
                return ("sensitive", comp, "iteration building a dict (insertion order follows the set's hash order)")
            if isinstance(cp, ast.Call) and comp in cp.args and call_name(cp).split(".")[-1] in INSENSITIVE_FUNCS:
                return ("insensitive", cp, f"iteration consumed by {call_name(cp)}()")
            return ("sensitive", comp, "iteration in a comprehension whose result keeps the order")
        if isinstance(p, ast.For) and p.iter is node:
            return ("sensitive", p, "for-loop over the set")
        if isinstance(p, ast.Starred):
            return ("sensitive", parent(p) or p, "star-expansion into positional arguments")
        if isinstance(p, ast.Call):
            if node is p.func:
                return ("neutral", p, "called")
            nm = call_name(p)
            last = nm.split(".")[-1]
            if isinstance(p.func, ast.Attribute) and p.func.value is node:
                pass
            if last in INSENSITIVE_FUNCS and nm in (last,):
                if last in ("set", "frozenset"):
                    node = p
                    continue
                return ("insensitive", p, f"{last}()")
            if last == "join" or (nm in SENSITIVE_FUNCS):
                return ("sensitive", p, f"{nm}() keeps the iteration order")
            return ("neutral", p, f"passed to {nm}()")
        if isinstance(p, ast.Attribute) and p.value is node:
            pp = parent(p)
            if isinstance(pp, ast.Call) and pp.func is p:
                if p.attr in SET_RETURNING_METHODS:
                    node = pp
                    continue
                if p.attr == "pop":
                    return ("sensitive", pp, "set.pop() returns a hash-order dependent element")
                if p.attr in SET_METHODS_OK:
                    return ("insensitive", pp, f".{p.attr}()")
            return ("neutral", p, f".{p.attr}")
        if isinstance(p, (ast.Assign, ast.AnnAssign, ast.AugAssign, ast.keyword, ast.Return, ast.arguments, ast.Expr)):
            return ("neutral", p, "bound / passed on")
        if isinstance(p, (ast.Tuple, ast.List, ast.Dict)):
            return ("neutral", p, "stored in a container")
        if isinstance(p, ast.Subscript):
            if p.slice is node:
                return ("insensitive", p, "used as a key")
            return ("neutral", p, "subscript")
        return ("neutral", p, type(p).__name__)


def _set_uses(mod: Module, module_set_names: Set[str]):
    """-> [(kind, set expression, sink node, why)] for every occurrence of a set-typed expression."""
    out = []
    scopes = [(mod.tree, module_set_names)]
    for q, f in mod.functions.items():
        scopes.append((f, None))
    done = set()
    for scope, names in scopes:
        if names is None:
            # inherit from enclosing function scopes and module
            inh = set(module_set_names)
            chain = []
            p = parent(scope)
            while p is not None:
                if isinstance(p, (ast.FunctionDef, ast.AsyncFunctionDef)):
                    chain.append(p)
                p = parent(p)
            for f in reversed(chain):
                inh = _scope_set_names(f, inh)
            names = _scope_set_names(scope, inh)
        for n in walk_no_nested(scope):
            if isinstance(n, (ast.expr,)) and id(n) not in done and _is_set_expr(n, names):
                # only maximal set expressions (skip operands of set algebra and receivers of set-returning methods)
                p = parent(n)
                if isinstance(p, ast.BinOp) and _is_set_expr(p, names):
                    continue
                if isinstance(n, ast.Name) and isinstance(n.ctx, ast.Store):
                    continue
                done.add(id(n))
                kind, sink, why = _classify_use(n)
                out.append((kind, n, sink, why))
    return out


def _norm_sink(sink) -> str:
    t = unparse(sink)
    return t.split("\n")[0][:160]


def _frozen_exception(repo: Repo, folder: Folder, mod: Module, key, expr, sink):
    """The three instances confirmed by reading; each returns the reason after re-checking the structural fact
    that makes it harmless, or None (=> violation)."""
    fn, text = key
    # (a) _del_attrs(self.svg_root, *_INHERITABLE_ATTRIB): deletions of distinct keys commute
    if isinstance(sink, ast.Call) and call_name(sink) == "_del_attrs" and fn.endswith("SVG._simplify"):
        d = repo["svg"].func("_del_attrs")
        stmts = [s for s in ast.walk(d) if isinstance(s, (ast.Assign, ast.AugAssign, ast.Delete, ast.Call))]
        only_del = all(isinstance(s, ast.Delete) and unparse(s).startswith("del el.attrib[") for s in stmts if not isinstance(s, ast.Call)) \
            and not any(isinstance(s, ast.Call) for s in stmts)
        if only_del:
            return "_del_attrs only deletes the named keys (deletions of distinct keys commute)"
        return None
    # (b) _GRADIENT_FIELDS["stop"] = tuple({...}): hash-ordered tuple, but the entry is never iterated
    if mod.name == "svg" and fn.endswith("<module>") and isinstance(sink, ast.Call) and call_name(sink) == "tuple":
        p = parent(sink)
        if isinstance(p, ast.Assign) and unparse(p.targets[0]) == "_GRADIENT_FIELDS['stop']":
            gc = folder.table("svg", "_GRADIENT_CLASSES")
            if "stop" in gc:
                return None
            # every iteration over _GRADIENT_FIELDS[...] must use a key that is a gradient tag (strip_ns(gradient.tag) after an _is_gradient assert)
            bad = []
            for m2 in repo.modules.values():
                for n in ast.walk(m2.tree):
                    if isinstance(n, ast.Subscript) and unparse(n.value) in ("_GRADIENT_FIELDS", "_VALID_FIELDS") and isinstance(n.ctx, ast.Load):
                        k, sk, why = _classify_iter(n)
                        if k == "sensitive":
                            f2 = _enclosing_funcdef(n)
                            guarded = f2 is not None and any(isinstance(a, ast.Assert) and "_is_gradient" in unparse(a.test) for a in f2.body[:4])
                            if not (guarded and "gradient.tag" in unparse(n.slice)):
                                bad.append(unparse(n))
            if not bad:
                return '"stop" is not a key of _GRADIENT_CLASSES and the only iteration over _GRADIENT_FIELDS[k] is dominated by assert _is_gradient(k)'
            return None
    # (c) for path in paths_required: errors.append(...): orders only error *messages*, at most one member can remain
    if fn.endswith("SVG.checkpicosvg") and isinstance(sink, ast.For) and unparse(sink.iter) == "paths_required":
        body_ok = all(isinstance(s, ast.Expr) and call_name(s.value) == "errors.append" for s in sink.body)
        if body_ok:
            return "orders only the text of error messages (never converted bytes); '/svg[0]' is always matched by the traversal root, so at most one member remains"
        return None
    return None


def _classify_iter(n):
    return _classify_use(n) if True else None


def _enclosing_funcdef(n):
    p = parent(n)
    while p is not None and not isinstance(p, (ast.FunctionDef, ast.AsyncFunctionDef)):
        p = parent(p)
    return p


def _state_writes(mod: Module):
    out = []
    module_names = set(mod.assigns) | set(mod.imports)
    for q, f in mod.functions.items():
        local = {a.arg for a in f.args.args + f.args.kwonlyargs} | ({f.args.vararg.arg} if f.args.vararg else set()) | ({f.args.kwarg.arg} if f.args.kwarg else set())
        for n in walk_no_nested(f):
            if isinstance(n, ast.Assign):
                for t in n.targets:
                    for e in ast.walk(t):
                        if isinstance(e, ast.Name) and isinstance(e.ctx, ast.Store):
                            local.add(e.id)
            elif isinstance(n, (ast.For, ast.comprehension)):
                for e in ast.walk(n.target):
                    if isinstance(e, ast.Name):
                        local.add(e.id)
            elif isinstance(n, (ast.AnnAssign, ast.AugAssign)) and isinstance(n.target, ast.Name):
                local.add(n.target.id)
            elif isinstance(n, ast.With):
                for it in n.items:
                    if it.optional_vars is not None:
                        for e in ast.walk(it.optional_vars):
                            if isinstance(e, ast.Name):
                                local.add(e.id)
        for n in walk_no_nested(f):
            if isinstance(n, (ast.Global, ast.Nonlocal)) and isinstance(n, ast.Global):
                out.append((n, f"`global {', '.join(n.names)}`: a function body rebinds module state, so a conversion can depend on earlier ones"))
            base = None
            if isinstance(n, ast.Call) and isinstance(n.func, ast.Attribute) and n.func.attr in MUTATING_METHODS and isinstance(n.func.value, ast.Name):
                base = n.func.value.id
            if isinstance(n, (ast.Assign, ast.AugAssign, ast.Delete)):
                tg = n.targets if not isinstance(n, ast.AugAssign) else [n.target]
                for t in tg:
                    if isinstance(t, ast.Subscript) and isinstance(t.value, ast.Name):
                        base = t.value.id
                    if isinstance(t, ast.Attribute) and isinstance(t.value, ast.Name) and t.value.id in mod.classes:
                        out.append((n, f"assigns class attribute {unparse(t)} inside a function: state shared by all instances/documents"))
            if base and base in module_names and base not in local and "<locals>" not in q:
                out.append((n, f"mutates module-level object {base!r} inside a function: state survives from one conversion to the next"))
    return out


def _class_state(mod: Module):
    out = []
    for cq, c in mod.classes.items():
        is_nt = any(unparse(b) == "NamedTuple" for b in c.bases)
        for st in c.body:
            val = None
            if isinstance(st, ast.Assign):
                val = st.value
            elif isinstance(st, ast.AnnAssign):
                val = st.value
            if val is None:
                continue
            mutable = isinstance(val, (ast.Dict, ast.List, ast.Set, ast.ListComp, ast.DictComp, ast.SetComp)) or \
                (isinstance(val, ast.Call) and call_name(val).split(".")[-1] in ("dict", "list", "set", "defaultdict", "deque", "OrderedDict", "Counter", "count"))
            if mutable:
                out.append((st, f"class attribute {unparse(st).splitlines()[0][:70]!r} is a mutable object shared by every instance: "
                            "documents converted earlier in the process can influence later ones"))
    return out


def _mutable_defaults(mod: Module):
    out = []
    for q, f in mod.functions.items():
        a = f.args
        pos = a.args
        pairs = list(zip(pos[len(pos) - len(a.defaults):], a.defaults)) + [(p, d) for p, d in zip(a.kwonlyargs, a.kw_defaults) if d is not None]
        for p, d in pairs:
            if isinstance(d, (ast.Dict, ast.List, ast.Set)) or (isinstance(d, ast.Call) and call_name(d) in ("dict", "list", "set", "defaultdict")):
                for n in walk_no_nested(f):
                    if isinstance(n, ast.Call) and isinstance(n.func, ast.Attribute) and n.func.attr in MUTATING_METHODS and unparse(n.func.value) == p.arg:
                        out.append((n, f"mutable default argument {p.arg!r} is mutated: it persists across calls"))
                    if isinstance(n, (ast.Assign, ast.AugAssign)):
                        tg = n.targets if isinstance(n, ast.Assign) else [n.target]
                        if any(isinstance(t, ast.Subscript) and unparse(t.value) == p.arg for t in tg):
                            out.append((n, f"mutable default argument {p.arg!r} is mutated: it persists across calls"))
    return out


def _check_memo(repo: Repo, rep: Report):
    n = 0
    for mod in repo.modules.values():
        for q, f in mod.functions.items():
            decos = [unparse(d) for d in f.decorator_list]
            memo = [d for d in decos if "cache" in d]
            if not memo:
                continue
            n += 1
            F = f"{mod.name}.{q}"
            params = [a.arg for a in f.args.args]
            if params and params[0] in ("self", "cls") or any(p in ("el", "element", "tree", "svg") for p in params):
                # keyed on an instance / element identity: needs the clear-before-use discipline
                name = q.split(".")[-1]
                callers = []
                for m2 in repo.modules.values():
                    for q2, f2 in m2.functions.items():
                        for c in ast.walk(f2):
                            if isinstance(c, ast.Call) and call_name(c).endswith("." + name) and not call_name(c).endswith("cache_clear"):
                                callers.append((m2, q2, f2, c))
                            if isinstance(c, ast.Name) and c.id == name and isinstance(parent(c), ast.Call) and parent(c).func is not c:
                                callers.append((m2, q2, f2, c))  # passed as a function value
                ok = True
                for m2, q2, f2, c in callers:
                    if q2 == q:
                        continue  # recursion inside the memoised function itself
                    clears = [x for x in walk_no_nested(f2) if isinstance(x, ast.Call) and call_name(x).endswith(f"{name}.cache_clear")]
                    if not clears or min(x.lineno for x in clears) > c.lineno:
                        ok = False
                        rep.fail("R-EFFECT.cross-call-state", f"{m2.name}.{q2}", c,
                                 f"memoised, instance-keyed {F} is consulted without a cache_clear() earlier in the same function: a value "
                                 "computed for an earlier state of the document (or for another document whose element reuses the address) can be returned", m2, c)
                if ok:
                    rep.ok("R-EFFECT.cross-call-state", f"{F} [{memo[0]}]", f"instance-keyed memo; {len(callers)} use site(s), each preceded by cache_clear() in the same function", True)
            else:
                rep.ok("R-EFFECT.cross-call-state", f"{F} [{memo[0]}]", "memo keyed on hashable value arguments only (pure function)")
    rep.notes.append(f"memoising decorators classified: {n}")


def _check_new_id(repo: Repo, rep: Report):
    svg = repo["svg"]
    fn = svg.func("SVG._new_id")
    F = "svg.SVG._new_id"
    rep.saw(F)
    loops = [l for l in walk_no_nested(fn) if isinstance(l, ast.For)]
    ok = False
    if len(loops) == 1 and isinstance(loops[0].iter, ast.Call) and call_name(loops[0].iter) == "range":
        l = loops[0]
        body = "\n".join(unparse(s) for s in l.body)
        uses_tree = "self.xpath(" in body and "@id=" in body
        first_free = any(isinstance(s, ast.If) and any(isinstance(r, ast.Return) for r in s.body) for s in l.body)
        starts = [unparse(a) for a in l.iter.args]
        from_zero = len(l.iter.args) == 1 or starts[0] in ("0",)
        state = [n for n in ast.walk(fn) if isinstance(n, ast.Attribute) and unparse(n).startswith("self.") and n.attr not in ("xpath", "svg_root", "xpath_one")]
        ok = uses_tree and first_free and from_zero and not state
    if ok:
        rep.ok("R-EFFECT.new-id", F, "lowest free index of range(..) whose id is absent from the current tree; no counter kept on the instance or class", True)
    else:
        rep.fail("R-EFFECT.new-id", F, "for i in range(..): if not self.xpath(id == template % i): return",
                 "generated ids no longer come from a lowest-free search against the current tree starting at 0 (they may depend on earlier conversions)", svg, fn)


_S = "svg"
VARIANTS = [
    Variant("namespace allow-set kept in a module-level set that the function mutates",
            [Edit(_S, "SVG.remove_nonsvg_content", "        good_ns = {svgns(), xlinkns()}\n", "        good_ns = _VERIF_GOOD_NS\n"),
             Edit(_S, None, "_XLINK_TEMP = \"xlink_\"\n", "_XLINK_TEMP = \"xlink_\"\n_VERIF_GOOD_NS = {svgns(), xlinkns()}\n")],
            [("R-EFFECT.cross-call-state", "topicosvg")]),
    Variant("iterate a set literal into attributes", [Edit(_S, "SVG.set_attributes", "            for name, value in name_values:\n                el.attrib[name] = value",
                                                          "            for name in {n for n, _ in name_values}:\n                el.attrib[name] = dict(name_values)[name]")],
            [("R-TAINT.unordered", "set_attributes")]),
    Variant("global counter", [Edit(_S, "SVG._new_id", "        for i in range(1 << 16):", "        global _XLINK_TEMP\n        for i in range(1 << 16):")],
            [("R-EFFECT.cross-call-state", "_new_id")]),
    Variant("id() in _new_id", [Edit(_S, "SVG._new_id", "potential_id = template % i", "potential_id = template % (i + id(self) % 7)")],
            [("R-EFFECT.forbidden-source", "_new_id")]),
    Variant("handlers run in set order", [Edit(_S, "_inherit_attrib", "for attr_name in sorted(attrib.keys()):", "for attr_name in attrib.keys() & _INHERIT_ATTRIB_HANDLERS.keys():")],
            [("R-TAINT.unordered", "topicosvg")]),
    Variant("class-level id counter", [Edit(_S, "SVG", "    elements: List[Tuple[etree.Element, Tuple[SVGShape, ...]]]\n", "    elements: List[Tuple[etree.Element, Tuple[SVGShape, ...]]]\n    _ids_made = defaultdict(int)\n")],
            [("R-EFFECT.cross-call-state", "SVG")]),
    Variant("module table mutated in a function", [Edit(_S, "_attr_supported", "    tag = strip_ns(el.tag)\n", "    tag = strip_ns(el.tag)\n    _VALID_FIELDS.setdefault(tag, ())\n")],
            [("R-EFFECT.cross-call-state", "_attr_supported")]),
    Variant("_del_attrs also writes", [Edit(_S, "_del_attrs", "            del el.attrib[name]", "            del el.attrib[name]\n            el.attrib['data-removed'] = name")],
            [("R-TAINT.unordered", "topicosvg")]),
    Variant("time stamp in output", [Edit("picosvg", "_run", "    output = svg.tostring(pretty_print=True)", "    import time\n    output = svg.tostring(pretty_print=True) + f'<!-- {time.time()} -->'")],
            [("R-EFFECT.forbidden-source", "_run")]),
    Variant("silent: membership set renamed", [Edit(_S, "SVG._resolve_use", "attrib_not_copied = {", "attrib_not_copied = {  ")], silent=True),
    Variant("silent: sorted iteration over a set", [Edit(_S, "SVG.checkpicosvg", "        for path in paths_required:", "        for path in sorted(paths_required):")], silent=True),
]

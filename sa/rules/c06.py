"""C06 - rewritten gradients assign the same colour to every point of their shapes (table/order clauses)."""
from __future__ import annotations

import ast
import re

from sa import spec
from sa.core import AnalysisError, Repo, Report, call_name, kwarg, parent, unparse, walk_no_nested
from sa.fold import Folder
from sa.poly import RF, fn_atom
from sa.rules.common import calls_named, compose_operands, rtext
from sa.selftest import Edit, Variant
from sa.sym import ClassRef, Cond, Ext, Interp, PyCallable, Rec, SymStr, Undecided, Unknown, closure_of, explore, method_of, to_rf

from sa.texts import T as _TX

EXPLANATION = _TX["C06"]["explanation"] + " Not decided: " + _TX["C06"]["not_decided"] + "."
ASSUMPTIONS = _TX["C06"]["assumptions"]
P = "C06"
S = RF.sym


class Linked(Ext):
    """Stand-in for svg_meta._LinkedDefault(attr): calling it on an object reads that attribute."""

    def __init__(self, attr):
        self.attr = attr

    def sym_call(self, it, args, kwargs):
        return it.getattr(args[0], self.attr)

    def sym_eq(self, it, other):
        return isinstance(other, Linked) and other.attr == self.attr

    def sym_isinstance(self, it, t):
        return getattr(t, "name", "") in ("_LinkedDefault", "float")

    def __repr__(self):
        return f"Linked({self.attr})"


def _setup(it):
    it.hooks[("svg_meta", "_LinkedDefault")] = lambda i, a, k: Linked(a[0])
    it.hooks[("svg_transform", "Affine2D.fromstring")] = lambda i, a, k: Rec(ClassRef("svg_transform", "Affine2D"), {c: S("g" + c) for c in "abcdef"})
    it.hooks[("svg_transform", "parse_svg_transform")] = lambda i, a, k: Rec(ClassRef("svg_transform", "Affine2D"), {c: S("g" + c) for c in "abcdef"})


def _el(attrs):
    return Rec(ClassRef("lxml", "Element"), {"attrib": dict(attrs), "tag": "g"}, mutable=True)


def _rect(p):
    return Rec(ClassRef("geometric_types", "Rect"), {k: S(p + k) for k in "xywh"})


def _isinst(it_self, v, t):
    return None


def run(repo: Repo, rep: Report):
    svg = repo["svg"]
    st = repo["svg_types"]
    folder = Folder(repo)
    for rid, txt in [
        ("R-CASE.gradient-parse", "from_element: specification defaults, axis-wise percentage scaling, reference box per gradientUnits, unknown attributes rejected"),
        ("R-POLY.user-space", "as_user_space_units: gradientTransform then unit-square->bbox; coordinates untouched; units switched on that branch only"),
        ("R-SITE.gradient-ctm", "_simplify interpreted on schematic documents: every transformed gradient-filled shape references its own clone whose gradientTransform applies the gradient's transform, "
                                "then unit-square -> bounding box of the untransformed shape, then the shape's CTM; untransformed shapes keep their gradient; templates are resolved through chains (own wins, stops only when absent, no href left)"),
        ("R-TABLE.gradient-coords", "_apply_gradient_translation interpreted on concrete gradients: translation removed, every point-valued pair mapped as before, lengths untouched, values kept to >= 6 decimals"),
    ]:
        rep.rule(rid, txt)
    from sa.rules import sem
    _check_parse(repo, rep, folder)
    _check_user_space(repo, rep)
    sem.check_simplify(repo, rep, {"gradient": "R-SITE.gradient-ctm"})
    _check_constants(repo, rep, folder)
    sem.check_gradient_translation(repo, rep, "R-TABLE.gradient-coords")
    # decomposition identities (shared with C11)
    from sa.rules import c11
    rep.rule("R-POLY.decompose", "decompose_translation parts recompose to self on every branch (rule of C11)")
    c11._check_decompose(repo, rep)


def _pct(v):
    return v


def _check_parse(repo, rep, folder):
    st = repo["svg_types"]
    vb = _rect("v")
    W = {"objectBoundingBox": (RF.of(1), RF.of(1)), "userSpaceOnUse": (vb.f["w"], vb.f["h"])}
    # ---- linear
    F = "svg_types.SVGLinearGradient.from_element"
    rep.saw(F)
    fn = method_of(repo, "svg_types", "SVGLinearGradient", "from_element")
    cl = ClassRef("svg_types", "SVGLinearGradient")
    bad = []
    n = 0
    for units in ("objectBoundingBox", "userSpaceOnUse", None):
        w, h = W[units or "objectBoundingBox"]
        for present in (set(), {"x1", "y1", "x2", "y2"}, {"x2"}, {"y1", "y2"}):
            for form in ("pct", "num"):
                attrs = {"id": "g"}
                if units:
                    attrs["gradientUnits"] = units
                want = {}
                for a, scale in (("x1", w), ("y1", h), ("x2", w), ("y2", h)):
                    if a in present:
                        attrs[a] = "25%" if form == "pct" else "3"
                        want[a] = (scale * RF.of(1) / 4) if form == "pct" else RF.of(3)
                    else:
                        d = spec.LINEAR_DEFAULTS[a]
                        want[a] = scale * RF.of(int(d[:-1])) / 100
                outs = explore(repo, fn, [], fresh_args=lambda: ([cl, _el(attrs), vb], {}), setup=_setup)
                n += 1
                for o in outs:
                    if o.undecided:
                        raise AnalysisError(f"{F}: evaluator undecided: {o.undecided}")
                    if o.raised:
                        bad.append((units, sorted(present), form, f"raises {o.raised}"))
                        continue
                    f = o.value.f
                    for a in ("x1", "y1", "x2", "y2"):
                        if not to_rf(f[a]).equals(want[a]):
                            bad.append((units, sorted(present), form, f"{a} = {f[a]}, specification {want[a]}"))
                    if f["gradientUnits"] != (units or "objectBoundingBox") or f["spreadMethod"] != "pad":
                        bad.append((units, sorted(present), form, f"gradientUnits/spreadMethod defaults are {f['gradientUnits']}/{f['spreadMethod']}"))
    outs = explore(repo, fn, [], fresh_args=lambda: ([cl, _el({"id": "g", "bogus": "1"}), vb], {}), setup=_setup)
    if not all(o.raised == "ValueError" for o in outs):
        bad.append((None, ["bogus"], "-", "an unknown attribute is not rejected"))
    outs = explore(repo, fn, [], fresh_args=lambda: ([cl, _el({"id": "g", "gradientUnits": "weird"}), vb], {}), setup=_setup)
    if not all(o.raised == "ValueError" for o in outs):
        bad.append((None, ["gradientUnits=weird"], "-", "an unknown gradientUnits value is not rejected"))
    if bad:
        u, p, fm, msg = bad[0]
        rep.fail("R-CASE.gradient-parse", F, f"units={u} present={p} form={fm}", f"{len(bad)} deviations in {n} cases; first: {msg}", st, st.func("SVGLinearGradient.from_element"))
    else:
        rep.ok("R-CASE.gradient-parse", F, f"{n} cases (3 unit settings x 4 attribute subsets x number/percentage): defaults 0% 0% 100% 0%, x by width, y by height", True)
    # ---- radial
    F = "svg_types.SVGRadialGradient.from_element"
    rep.saw(F)
    fn = method_of(repo, "svg_types", "SVGRadialGradient", "from_element")
    cl = ClassRef("svg_types", "SVGRadialGradient")
    bad = []
    n = 0
    for units in ("objectBoundingBox", "userSpaceOnUse", None):
        w, h = W[units or "objectBoundingBox"]
        diag = fn_atom("sqrt", w * w + h * h) / fn_atom("sqrt", 2)
        for present in (set(), {"cx", "cy", "r"}, {"fx"}, {"fy", "fr"}, {"cx", "fx", "fy", "fr", "r", "cy"}, {"cx", "cy", "fx"}, {"cx", "cy", "fy"}):
            attrs = {"id": "g"}
            if units:
                attrs["gradientUnits"] = units
            want = {}
            for a, scale in (("cx", w), ("cy", h), ("r", diag), ("fr", diag)):
                if a in present:
                    attrs[a] = "20%"
                    want[a] = scale / 5
                else:
                    want[a] = scale * RF.of(int(spec.RADIAL_DEFAULTS[a][:-1])) / 100
            for a, scale, link in (("fx", w, "cx"), ("fy", h, "cy")):
                if a in present:
                    attrs[a] = "10%"
                    want[a] = scale / 10
                else:
                    want[a] = want[link]
            outs = explore(repo, fn, [], fresh_args=lambda: ([cl, _el(attrs), vb], {}), setup=_setup)
            n += 1
            for o in outs:
                if o.undecided:
                    raise AnalysisError(f"{F}: evaluator undecided: {o.undecided}")
                if o.raised:
                    bad.append((units, sorted(present), f"raises {o.raised}"))
                    continue
                f = o.value.f
                for a in ("cx", "cy", "r", "fr", "fx", "fy"):
                    try:
                        okv = to_rf(f[a]).equals(want[a])
                    except TypeError:
                        okv = False
                    if not okv:
                        bad.append((units, sorted(present), f"{a} = {f[a]}, specification {want[a]}"))
    if bad:
        u, p, msg = bad[0]
        rep.fail("R-CASE.gradient-parse", F, f"units={u} present={p}", f"{len(bad)} deviations in {n} cases; first: {msg}", st, st.func("SVGRadialGradient.from_element"))
    else:
        rep.ok("R-CASE.gradient-parse", F, f"{n} cases: defaults 50% 50% 50% fr 0, fx->cx fy->cy, cx/fx by width, cy/fy by height, r/fr by the normalised diagonal", True)
    for cls in ("SVGLinearGradient", "SVGRadialGradient"):
        flds = {f.name: f.default for f in folder.dataclass_fields("svg_types", cls)}
        if flds.get("gradientUnits") == spec.GRADIENT_DEFAULT_UNITS and flds.get("spreadMethod") == spec.GRADIENT_DEFAULT_SPREAD:
            rep.ok("R-CASE.gradient-parse", f"svg_types.{cls}: dataclass defaults objectBoundingBox / pad (decide what to_element omits)")
        else:
            rep.fail("R-CASE.gradient-parse", f"svg_types.{cls}", f"gradientUnits={flds.get('gradientUnits')!r} spreadMethod={flds.get('spreadMethod')!r}",
                     "dataclass defaults differ from the SVG initial values: to_element would omit a non-default value", repo["svg_types"])


def _grad(repo, cls, units):
    it = Interp(repo)
    c = ClassRef("svg_types", cls)
    f = {}
    for n, _ in it.class_fields(c):
        f[n] = S("c_" + n)
    f["id"] = "g"
    f["gradientUnits"] = units
    f["spreadMethod"] = "pad"
    f["gradientTransform"] = Rec(ClassRef("svg_transform", "Affine2D"), {k: S("g" + k) for k in "abcdef"})
    return Rec(c, f, mutable=True)


def _check_user_space(repo, rep):
    from sa.rules.c11 import mul, vals, same, mat
    st = repo["svg_types"]
    bb = _rect("b")
    for cls in ("SVGLinearGradient", "SVGRadialGradient"):
        it = Interp(repo)
        r = it.find_method(ClassRef("svg_types", cls), "as_user_space_units")
        if not r:
            rep.fail("R-POLY.user-space", f"svg_types.{cls}", "as_user_space_units", "method missing", st)
            continue
        m, cd, fnode = r
        F = f"svg_types.{cd.name}.as_user_space_units"
        rep.saw(F)
        fn = method_of(repo, "svg_types", cd.name, "as_user_space_units")
        for units in ("objectBoundingBox", "userSpaceOnUse"):
            for inplace in (True, False):
                outs = explore(repo, fn, [], fresh_args=lambda: ([_grad(repo, cls, units), bb], {"inplace": inplace}), setup=_setup)
                for o in outs:
                    if o.undecided:
                        raise AnalysisError(f"{F}: evaluator undecided: {o.undecided}")
                    site = f"{F} [{cls}, {units}, inplace={inplace}]"
                    if any(v for c, v in o.decisions if "bw == 0" in repr(c) or "bh == 0" in repr(c)):
                        continue  # empty bounding box branch of rect_to_rect
                    if o.raised:
                        rep.fail("R-POLY.user-space", F, site, f"raises {o.raised}", st, fnode)
                        continue
                    g = o.value.f
                    gt = vals(_grad(repo, cls, units).f["gradientTransform"])
                    got = vals(g["gradientTransform"])
                    coords_same = all(repr(g[k]) == f"c_{k}" for k in g if k.startswith(("x", "y", "c", "r", "f")) and k not in ("gradientTransform",) and isinstance(g[k], RF))
                    if units == "objectBoundingBox":
                        bmap = mat(bb.f["w"], 0, 0, bb.f["h"], bb.f["x"], bb.f["y"])
                        want = mul(bmap, gt)  # apply gradientTransform first, then the unit-square -> bbox mapping
                        eq = o.equalities()
                        ok = same(got, want, eq) and g["gradientUnits"] == "userSpaceOnUse" and coords_same
                        msg = "gradientTransform must become (unit square -> bbox) o gradientTransform with coordinates untouched and units userSpaceOnUse"
                    else:
                        ok = same(got, gt) and g["gradientUnits"] == "userSpaceOnUse" and coords_same
                        msg = "a user-space gradient must be left unchanged"
                    if ok:
                        rep.ok("R-POLY.user-space", site, "identity of rational functions on the six components", True)
                    else:
                        rep.fail("R-POLY.user-space", F, site, f"{msg}; got gradientTransform {got} units {g['gradientUnits']}"
                                 + ("" if coords_same else " and modified coordinates"), st, fnode)


def _check_constants(repo, rep, folder):
    svg = repo["svg"]
    nd = folder.table("svg", "_GRADIENT_TRANSFORM_NDIGITS")
    if not isinstance(nd, int) or nd < 6:
        rep.fail("R-TABLE.gradient-coords", "svg._GRADIENT_TRANSFORM_NDIGITS", str(nd), "gradient parameters must be kept to at least 6 decimals", svg)
    else:
        rep.ok("R-TABLE.gradient-coords", "svg._GRADIENT_TRANSFORM_NDIGITS", f"= {nd}")


_S = "svg"
_T = "svg_types"
VARIANTS = [
    Variant("y2 defaults to 100%", [Edit(_T, "SVGLinearGradient.from_element", 'attrib.pop("y2", "0%")', 'attrib.pop("y2", "100%")')], [("R-CASE.gradient-parse", "SVGLinearGradient")]),
    Variant("cy scaled by width", [Edit(_T, "SVGRadialGradient.from_element", 'number_or_percentage(attrib.pop("cy", "50%"), scale.h)', 'number_or_percentage(attrib.pop("cy", "50%"), scale.w)')],
            [("R-CASE.gradient-parse", "SVGRadialGradient")]),
    Variant("CTM composed before the gradient transform", [Edit(_S, "SVG._transformed_gradient", "(gradient.gradientTransform, transform)", "(transform, gradient.gradientTransform)")],
            [("R-SITE.gradient-ctm", "_simplify")]),
    Variant("radius translated", [Edit(_S, None, '"radialGradient": (("cx", "cy"), ("fx", "fy")),', '"radialGradient": (("cx", "cy"), ("fx", "fy"), ("r", "r")),')], [("R-TABLE.gradient-coords", "_apply_gradient_translation")]),
    Variant("template attributes copied unconditionally", [Edit(_S, "SVG._apply_gradient_template", "if attr_name in template.attrib and attr_name not in gradient.attrib:", "if attr_name in template.attrib:")],
            [("R-SITE.gradient-ctm", "_simplify")]),
    Variant("two digits for gradient parameters", [Edit(_S, None, "_GRADIENT_TRANSFORM_NDIGITS = 6", "_GRADIENT_TRANSFORM_NDIGITS = 2")], [("R-TABLE.gradient-coords", "_GRADIENT_TRANSFORM_NDIGITS")]),
    Variant("bbox mapping applied before the gradient transform", [Edit(_T, "_SVGGradient.as_user_space_units", "(self.gradientTransform, Affine2D.rect_to_rect(_UNIT_RECT, shape_bbox))", "(Affine2D.rect_to_rect(_UNIT_RECT, shape_bbox), self.gradientTransform)")],
            [("R-POLY.user-space", "as_user_space_units")]),
    Variant("units not switched", [Edit(_T, "_SVGGradient.as_user_space_units", '            target.gradientUnits = "userSpaceOnUse"\n', "")], [("R-POLY.user-space", "as_user_space_units")]),
    Variant("linear gradients mapped by their end points", [Edit(_T, "SVGLinearGradient", "    @classmethod\n    def from_element(cls, el, view_box) -> \"SVGLinearGradient\":",
                                                                 "    def as_user_space_units(self, shape_bbox, inplace=False):\n        target = self if inplace else copy.deepcopy(self)\n        if self.gradientUnits == \"objectBoundingBox\" and self.gradientTransform == Affine2D.identity():\n            target.x1 = shape_bbox.x + self.x1 * shape_bbox.w\n            target.y1 = shape_bbox.y + self.y1 * shape_bbox.h\n            target.x2 = shape_bbox.x + self.x2 * shape_bbox.w\n            target.y2 = shape_bbox.y + self.y2 * shape_bbox.h\n            target.gradientUnits = \"userSpaceOnUse\"\n            return target\n        return super().as_user_space_units(shape_bbox, inplace=inplace)\n\n    @classmethod\n    def from_element(cls, el, view_box) -> \"SVGLinearGradient\":")],
            [("R-POLY.user-space", "as_user_space_units")], allow_analysis_error=True),
    Variant("rewritten gradients cached without the bbox", [Edit(_S, "SVG._simplify", "                    fill_el = self._transformed_gradient(\n                        defs,\n                        fill_el,\n                        context.transform,\n                        from_element(el).bounding_box(),\n                    )\n",
                                                                 "                    key = (fill_el.attrib.get(\"id\"), context.transform)\n                    if key not in grad_cache:\n                        grad_cache[key] = self._transformed_gradient(\n                            defs, fill_el, context.transform, from_element(el).bounding_box()\n                        )\n                    fill_el = grad_cache[key]\n"),
                                                            Edit(_S, "SVG._simplify", "        for context in to_process:\n", "        grad_cache = {}\n        for context in to_process:\n")],
            [("R-SITE.gradient-ctm", "_simplify")]),
    Variant("template copied before its own template is resolved", [Edit(_S, "SVG._apply_gradient_template", "        # recurse if template references another template\n        if template.attrib.get(href_attr):\n            self._apply_gradient_template(template)\n\n", ""),
                                                                    Edit(_S, "SVG._apply_gradient_template", "        del gradient.attrib[href_attr]", "        if template.attrib.get(href_attr):\n            self._apply_gradient_template(template)\n        del gradient.attrib[href_attr]")],
            [("R-SITE.gradient-ctm", "_simplify")]),
    Variant("silent: comment in translation", [Edit(_S, "SVG._apply_gradient_translation", "        affine = gradient.gradientTransform\n", "        affine = gradient.gradientTransform  # current transform\n")], silent=True),
]

"""C18 - pruning of invisible content is conservative (verdict ladder and its call sites)."""
from __future__ import annotations

import ast
import itertools

from sa.core import AnalysisError, Repo, Report, call_name, kwarg, parent, unparse, walk_no_nested
from sa.pathsem import PathData, install_path_hooks, new_path
from sa.poly import RF
from sa.selftest import Edit, Variant
from sa.sym import ClassRef, Cond, Interp, PyCallable, PyRaise, Rec, SymStr, explore, method_of, to_rf

from sa.texts import T as _TX

EXPLANATION = _TX["C18"]["explanation"] + " Not decided: " + _TX["C18"]["not_decided"] + "."
ASSUMPTIONS = _TX["C18"]["assumptions"]
P = "C18"
S = RF.sym

GEOMS = {
    "moves-only": [("M", (1, 1)), ("M", (2, 2))],
    "zero-length": [("M", (5, 5)), ("L", (5, 5))],
    "closed-point": [("M", (5, 5)), ("Z", ())],
    "ordinary": [("M", (0, 0)), ("L", (4, 0)), ("L", (4, 4)), ("Z", ())],
}


def reference(display, fill, stroke, o, fo, so, sw, geom, area_positive):
    if display == "none":
        return False
    if geom == "moves-only":
        return False
    if stroke != "none" and o * so != 0 and sw != 0:
        return True
    if fill == "none" or o * fo == 0:
        return False
    return area_positive


def run(repo: Repo, rep: Report):
    st = repo["svg_types"]
    svg = repo["svg"]
    for rid, txt in [
        ("R-CASE.might-paint", "might_paint equals the reference predicate on the full product of paint attributes and geometry classes"),
        ("R-SITE.verdict-receiver", "remove_empty_subpaths interpreted on a 5-contour path with and without stroke: exactly the contours that cannot paint under the path's own paint are dropped (repeated contours kept)"),
        ("R-SITE.remove-unpainted", "remove_unpainted_shapes interpreted on a schematic document: exactly the shapes that cannot paint under their cascaded paint are removed; the copying form leaves the receiver alone"),
        ("R-SITE.area", "the area question reaches the engine for the shape's own geometry under its own fill rule; path_area simplifies with fix_winding under the caller's rule"),
    ]:
        rep.rule(rid, txt)
    F = "svg_types.SVGShape.might_paint"
    rep.saw(F)
    fn = method_of(repo, "svg_types", "SVGShape", "might_paint")
    n = 0
    bad = []
    area_conds = set()
    for display, fill, stroke, o, fo, so, sw, geom in itertools.product(("inline", "none"), ("none", "#f00"), ("none", "#00f"), (0, 0.5), (0, 1.0), (0, 0.5), (0, 2.0), GEOMS):
        for style_display in (None, "none") if (display == "inline" and geom == "ordinary" and fill != "none" and o and fo) else (None,):
            for skia_fails in (False, True) if (geom == "ordinary" and fill != "none" and stroke == "none") else (False,):
                def setup(it, style_display=style_display, skia_fails=skia_fails):
                    install_path_hooks(it)

                    def styled(i, a, k):
                        c = i.deepcopy(a[0])
                        if style_display:
                            c.f["display"] = style_display
                        return c

                    it.hooks[("svg_types", "SVGShape.apply_style_attribute")] = styled
                    it.hooks[("svg_types", "SVGShape.as_cmd_seq")] = lambda i, a, k: list(a[0].f["d"].cmds)

                    def area(i, a, k):
                        if skia_fails:
                            raise PyRaise("PathOpsError")
                        return S("area")

                    it.hooks[("svg_pathops", "path_area")] = area

                    def bbox(i, a, k):
                        pts = [(args[j], args[j + 1]) for c_, args in i.iterate(a[0]) for j in range(0, len(args) - 1, 2)]
                        if not pts:
                            return (0, 0, 0, 0)
                        return (min(p[0] for p in pts), min(p[1] for p in pts), max(p[0] for p in pts), max(p[1] for p in pts))

                    it.hooks[("svg_pathops", "bounding_box")] = bbox

                def fresh():
                    return ([new_path(repo, GEOMS[geom], display=display, fill=fill, stroke=stroke, opacity=o, fill_opacity=fo, stroke_opacity=so, stroke_width=sw, style="")], {})

                outs = explore(repo, fn, [], fresh_args=fresh, setup=setup)
                for out in outs:
                    n += 1
                    if out.undecided:
                        raise AnalysisError(f"{F}: evaluator undecided: {out.undecided}")
                    if out.raised:
                        bad.append(((display, fill, stroke, o, fo, so, sw, geom, style_display, skia_fails), f"raises {out.raised}"))
                        continue
                    area_pos = None
                    for c, v in out.decisions:
                        if "area" in repr(c):
                            area_conds.add(repr(c))
                            area_pos = v if getattr(c, "op", "") != "not" else not v
                    eff_display = style_display or display
                    want = reference(eff_display, fill, stroke, o, fo, so, sw, geom, True if skia_fails else bool(area_pos))
                    got = out.value
                    if isinstance(got, Cond):
                        area_conds.add(repr(got))
                        continue
                    if bool(got) != want:
                        bad.append(((eff_display, fill, stroke, o, fo, so, sw, geom, style_display, skia_fails, area_pos),
                                    f"answers {got}, reference says {want}"))
    if bad:
        case, msg = bad[0]
        keys = ("display", "fill", "stroke", "opacity", "fill-opacity", "stroke-opacity", "stroke-width", "geometry", "style display", "skia error", "area>0")
        desc = ", ".join(f"{k}={v}" for k, v in zip(keys, case))
        rep.fail("R-CASE.might-paint", F, desc, f"{len(bad)} of {n} cases deviate from 'visible stroke, or visible fill with positive area'; first: {desc}: {msg}", st, st.func("SVGShape.might_paint"))
    else:
        rep.ok("R-CASE.might-paint", F, f"{n} cases over display x fill x stroke x three opacities x width x geometry (+ style-resolved display, Skia error): verdict equals the reference", True)
    odd = [c for c in area_conds if c not in ("area > 0", "0 < area")]
    if odd:
        rep.fail("R-CASE.might-paint", F, odd[0], f"the area test is {odd[0]!r}: it must be a comparison with exact zero (an epsilon prunes thin but visible shapes)", st, st.func("SVGShape.might_paint"))
    elif area_conds:
        rep.ok("R-CASE.might-paint", F + " [area > 0]", "comparison with exact zero")
    from sa.rules import sem, sempath
    sem.check_prune(repo, rep, {"shapes": "R-SITE.remove-unpainted", "subpaths": "R-SITE.verdict-receiver", "area": "R-SITE.area"})
    sempath.check_pathops(repo, rep, {"region": "R-SITE.area", "normalized": "R-SITE.area"})


def _owner(node):
    p = parent(node)
    while p is not None and not isinstance(p, (ast.FunctionDef, ast.AsyncFunctionDef)):
        p = parent(p)
    return p


_T = "svg_types"
VARIANTS = [
    Variant("area remembered per outline, whatever the fill rule",
            [Edit(_T, "SVGShape.might_paint", "        # Only shapes with area paint\n",
                  "        # Only shapes with area paint\n        memo = SVGShape.__dict__.get('_area_memo')\n        if memo is None:\n            memo = {}\n            SVGShape._area_memo = memo\n        key = shape.as_cmd_seq().d\n        if key in memo:\n            return memo[key] > 0\n        try:\n            memo[key] = svg_pathops.path_area(shape.as_cmd_seq(), fill_rule=shape.fill_rule)\n        except svg_pathops.pathops.PathOpsError:\n            return True\n        return memo[key] > 0\n")],
            [("R-SITE.remove-unpainted", "remove_unpainted_shapes")], allow_analysis_error=True),
    Variant("reverted-fix F8: subpath judged with default paint", [Edit(_T, "SVGPath.remove_empty_subpaths", "if dataclasses.replace(self, d=subpath).might_paint()", "if SVGPath(d=subpath).might_paint()")],
            [("R-SITE.verdict-receiver", "remove_empty_subpaths")]),
    Variant("fill tested before stroke", [Edit(_T, "SVGShape.might_paint", "        if _visible(shape.stroke, shape.stroke_opacity) and shape.stroke_width != 0:\n            return True\n\n", ""),
                                         Edit(_T, "SVGShape.might_paint", "        # Only shapes with area paint\n", "        if _visible(shape.stroke, shape.stroke_opacity) and shape.stroke_width != 0:\n            return True\n        # Only shapes with area paint\n")],
            [("R-CASE.might-paint", "might_paint")]),
    Variant("Skia error means cannot paint", [Edit(_T, "SVGShape.might_paint", "            # https://github.com/googlefonts/picosvg/issues/192\n            return True", "            # https://github.com/googlefonts/picosvg/issues/192\n            return False")], [("R-CASE.might-paint", "might_paint")]),
    Variant("area epsilon", [Edit(_T, "SVGShape.might_paint", "fill_rule=shape.fill_rule) > 0", "fill_rule=shape.fill_rule) > 0.01")], [("R-CASE.might-paint", "might_paint")]),
    Variant("display read from the unresolved shape", [Edit(_T, "SVGShape.might_paint", 'if shape.display == "none":', 'if self.display == "none":')], [("R-CASE.might-paint", "might_paint")]),
    Variant("zero-length geometry never paints", [Edit(_T, "SVGShape.might_paint", "        # Does it look like the stroke is visible?\n", "        pts = {tuple(c[1][-2:]) for c in self.as_cmd_seq() if c[1]}\n        if len(pts) <= 1:\n            return False\n        # Does it look like the stroke is visible?\n")],
            [("R-CASE.might-paint", "might_paint")]),
    Variant("zero stroke width counts as visible", [Edit(_T, "SVGShape.might_paint", " and shape.stroke_width != 0:", ":")], [("R-CASE.might-paint", "might_paint")]),
    Variant("path_area without fix_winding for evenodd", [Edit("svg_pathops", "path_area", "sk_path.simplify(fix_winding=True)", 'sk_path.simplify(fix_winding=fill_rule == "nonzero")')], [("R-SITE.area", "path_area")]),
    Variant("unpainted removal also drops tiny shapes", [Edit("svg", "SVG.remove_unpainted_shapes", "            if not shape.might_paint():", "            if not shape.might_paint() or shape.opacity < 0.01:")],
            [("R-SITE.remove-unpainted", "remove_unpainted_shapes")]),
    Variant("silent: visible helper inlined", [Edit(_T, "SVGShape.might_paint", "        if not _visible(shape.fill, shape.fill_opacity):", '        if not (shape.fill != "none" and shape.opacity * shape.fill_opacity != 0):')], silent=True),
]

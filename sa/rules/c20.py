"""C20 - a reported reuse transform really maps one shape onto the other (verify-before-return)."""
from __future__ import annotations

import ast

from sa import spec
from sa.core import AnalysisError, Repo, Report, call_name, kwarg, parent, unparse, walk_no_nested
from sa.poly import RF, fn_atom
from sa.selftest import Edit, Variant
from sa.sym import ClassRef, Cond, Interp, Rec, closure_of, explore, method_of, to_rf

from sa.texts import T as _TX

EXPLANATION = _TX["C20"]["explanation"] + " Not decided: " + _TX["C20"]["not_decided"] + "."
ASSUMPTIONS = _TX["C20"]["assumptions"]
P = "C20"
S = RF.sym


def run(repo: Repo, rep: Report):
    ru = repo["svg_reuse"]
    st = repo["svg_types"]
    for rid, txt in [
        ("R-GUARD.verified-return", "affine_between interpreted on every path under an oracle verification step (geometry opaque): the reported transform was verified against (s1, s2, tolerance) on that path, "
                                    "or is the identity under equal outlines; a rounding is reported only if it was verified itself"),
        ("R-SITE.verification", "_try_affine answers image(candidate, s1).almost_equals(s2, tolerance); _apply_affine maps every command of a copy; almost_equals is exhaustive (interpreted on 7 pairs of outlines)"),
        ("R-ORDER.translation-first", "on every path the first candidate tried is the translation between the start points; no bail-out before it"),
        ("R-CASE.affine-image", "_affine_callback maps every coordinate pair (absolute: map_point, relative: map_vector); arc parameters follow the affine image"),
    ]:
        rep.rule(rid, txt)
    from sa.rules import semreuse
    semreuse.check_search(repo, rep, {"verified": "R-GUARD.verified-return", "translation-first": "R-ORDER.translation-first"})
    semreuse.check_verification(repo, rep, "R-SITE.verification")
    _check_callback(repo, rep)
    af = ru.func("_affine_friendly")
    t = unparse(af)
    if "path.explicit_lines(inplace=True).expand_shorthand(inplace=True).relative(inplace=True)" in t.replace("\n", "").replace("        ", "").replace("    ", ""):
        rep.ok("R-CASE.affine-image", "svg_reuse._affine_friendly", "no H/V/S/T, relative after the first M (target forms: C09)")
    elif "explicit_lines" in t and "expand_shorthand" in t and "relative" in t:
        rep.ok("R-CASE.affine-image", "svg_reuse._affine_friendly", "explicit_lines, expand_shorthand, relative")
    else:
        rep.fail("R-CASE.affine-image", "svg_reuse._affine_friendly", "explicit_lines().expand_shorthand().relative()", "paths are no longer normalised to the form _affine_callback assumes", ru, af)


def _check_callback(repo, rep):
    ru = repo["svg_reuse"]
    F = "svg_reuse._affine_callback"
    fn = closure_of(repo, "svg_reuse", "_affine_callback")
    aff = Rec(ClassRef("svg_transform", "Affine2D"), {k: S("m" + k) for k in "abcdef"})
    pt = lambda n: Rec(ClassRef("geometric_types", "Point"), {"x": S(n + "x"), "y": S(n + "y")})
    bad = []
    n = 0

    def setup(it):
        it.auto_decide = lambda c: False if ("abs(" in repr(c) and "<=" in repr(c)) else None  # `almost_equal(new_x, 0)` snapping: not taken

    for letter in ("M", "L", "C", "Q", "T", "S", "l", "c", "q", "t", "s", "m", "z", "Z", "a", "A"):
        ar = spec.CMD_ARITY[letter]
        args = tuple(S(f"a{i}") for i in range(ar))
        outs = explore(repo, fn, [aff, pt("s"), pt("c"), letter, args], setup=setup)
        for o in outs:
            n += 1
            if o.undecided:
                raise AnalysisError(f"{F}: evaluator undecided on {letter}: {o.undecided}")
            if o.raised:
                if o.raised == "AssertionError":
                    continue
                bad.append((letter, f"raises {o.raised}"))
                continue
            (cmd, got), = o.value
            if cmd != letter:
                bad.append((letter, f"letter changed to {cmd}"))
                continue
            got = [to_rf(g) for g in got]
            want = list(args)
            for xi, yi in zip(spec.CMD_X[letter], spec.CMD_Y[letter]):
                x, y = args[xi], args[yi]
                if letter.isupper():
                    want[xi] = S("ma") * x + S("mc") * y + S("me")
                    want[yi] = S("mb") * x + S("md") * y + S("mf")
                else:
                    want[xi] = S("ma") * x + S("mc") * y
                    want[yi] = S("mb") * x + S("md") * y
            idxs = range(ar) if letter not in "aA" else (5, 6)
            for i in idxs:
                if not got[i].equals(want[i]):
                    bad.append((letter, f"argument {i} becomes {got[i]}, the affine image is {want[i]}"))
            if letter in "aA":
                # arc parameters under the affine image: rotation (index 2) must change under rotation/shear, sweep (index 4) must flip under mirroring
                if got[4].equals(args[4]):
                    rep.fail("R-CASE.affine-image", F, "arc sweep flag (args[4]) never written",
                             "for an arc the affine image under a mirroring (negative determinant) has the opposite sweep flag; the callback leaves it unchanged, so the "
                             "verification accepts a mirror for two shapes whose arcs bulge to opposite sides", ru, ru.func("_affine_callback"))
                if got[2].equals(args[2]):
                    rep.fail("R-CASE.affine-image", F, "arc x-axis-rotation (args[2]) never written",
                             "for a non-circular arc the affine image under a rotation/shear has a different x-axis-rotation; the callback leaves it unchanged, so the "
                             "verification accepts a rotation for ellipse arcs whose axes differ", ru, ru.func("_affine_callback"))
    if bad:
        l, msg = bad[0]
        rep.fail("R-CASE.affine-image", F, f"_affine_callback({l})", f"{len(bad)} problems over {n} letter cases; first: '{l}': {msg}", ru, ru.func("_affine_callback"))
    else:
        rep.ok("R-CASE.affine-image", F, f"{n} letter cases: every coordinate pair of absolute commands through map_point, of relative ones through map_vector", True)


_R = "svg_reuse"
VARIANTS = [
    Variant("verification skipped for the translation", [Edit(_R, "affine_between", 'if _try_affine(affine, s1, s2, tolerance, "same start point"):', "if True:")], [("R-GUARD.verified-return", "affine_between")]),
    Variant("_round returns unverified rounding", [Edit(_R, "_round", '        if _try_affine(rounded, s1, s2, tolerance, f"round {i}"):\n            return rounded', "        return rounded")],
            [("R-GUARD.verified-return", "affine_between")]),
    Variant("almost_equals ignores length", [Edit("svg_types", "SVGShape.almost_equals", "zip_longest(\n            self.as_path(), other.as_path(), fillvalue=(None, ())\n        )", "zip(self.as_path(), other.as_path())")],
            [("R-SITE.verification", "almost_equals")]),
    Variant("relative coordinates mapped as points", [Edit(_R, "_affine_callback", "new_x, new_y = affine.map_vector((args[x_coord_idx], args[y_coord_idx]))", "new_x, new_y = affine.map_point((args[x_coord_idx], args[y_coord_idx]))")],
            [("R-CASE.affine-image", "_affine_callback")]),
    Variant("rounded candidate verified against the unrounded image", [Edit(_R, "_round", '        if _try_affine(rounded, s1, s2, tolerance, f"round {i}"):', '        if _try_affine(rounded, s1, _apply_affine(affine, s1), tolerance, f"round {i}"):')],
            [("R-GUARD.verified-return", "affine_between")]),
    Variant("bail-out before the translation attempt", [Edit(_R, "affine_between", "    affine = Affine2D.identity().translate(s2x - s1x, s2y - s1y)\n    if _try_affine(affine, s1, s2, tolerance, \"same start point\"):\n        return _round(affine, s1, s2, tolerance)\n", ""),
                                                        Edit(_R, "affine_between", "    s1_vec1 = _nth_vector(s1, s2_vec1x_idx)\n", "    affine = Affine2D.identity().translate(s2x - s1x, s2y - s1y)\n    if _try_affine(affine, s1, s2, tolerance, \"same start point\"):\n        return _round(affine, s1, s2, tolerance)\n    s1_vec1 = _nth_vector(s1, s2_vec1x_idx)\n")],
            [("R-ORDER.translation-first", "affine_between")]),
    Variant("candidate redefined after verification", [Edit(_R, "affine_between", '    if _try_affine(affine, s1, s2, tolerance, "align vec1x"):\n        return _round(affine, s1, s2, tolerance)', '    if _try_affine(affine, s1, s2, tolerance, "align vec1x"):\n        affine = affine.round(2)\n        return _round(affine, s1, s2, tolerance)')],
            [("R-GUARD.verified-return", "affine_between")]),
    Variant("try_affine compares with a doubled tolerance", [Edit(_R, "_try_affine", "return s1_prime.almost_equals(s2, tolerance)", "return s1_prime.almost_equals(s2, 2 * tolerance)")], [("R-SITE.verification", "_try_affine")]),
    Variant("silent: comment", [Edit(_R, "_try_affine", "    s1_prime = _apply_affine(affine, s1)\n", "    # image of s1\n    s1_prime = _apply_affine(affine, s1)\n")], silent=True),
]

"""C01 - conversion output always conforms to the documented picosvg grammar (structural clauses)."""
from __future__ import annotations

import ast
import re as _re

from sa import spec
from sa.calls import Resolver
from sa.core import AnalysisError, Repo, Report, call_name, kwarg, parent, unparse, walk_no_nested
from sa.fold import Folder
from sa.order import Order
from sa.regex import Compiled, DFA, difference_witness
from sa.selftest import Edit, Variant

from sa.texts import T as _TX

EXPLANATION = _TX["C01"]["explanation"] + " Not decided: " + _TX["C01"]["not_decided"] + "."
ASSUMPTIONS = _TX["C01"]["assumptions"]
P = "C01"

STAGES = ["remove_nonsvg_content", "remove_processing_instructions", "remove_anonymous_symbols", "remove_title_meta_desc",
          "apply_style_attributes", "resolve_nested_svgs", "shapes_to_paths", "expand_shorthand", "resolve_use", "simplify",
          "evenodd_to_nonzero_winding", "normalize_opacity", "absolute", "round_floats", "remove_empty_subpaths",
          "remove_unpainted_shapes", "checkpicosvg", "clip_to_viewbox", "set_attributes", "remove_attributes", "append_to"]
GEOMETRY_STAGES = ["simplify", "evenodd_to_nonzero_winding", "absolute", "expand_shorthand", "shapes_to_paths", "normalize_opacity",
                   "resolve_use", "resolve_nested_svgs", "apply_style_attributes", "clip_to_viewbox"]
PRECEDENCE = [
    # (a must run before b, reason)
    ("remove_nonsvg_content", "simplify", "foreign elements/attributes must be gone before anything is interpreted"),
    ("remove_anonymous_symbols", "simplify", "id-less symbols are unsupported elements"),
    ("remove_title_meta_desc", "simplify", "title/desc/metadata are not in the grammar"),
    ("apply_style_attributes", "simplify", "style declarations must be attributes before inheritance is flattened"),
    ("resolve_nested_svgs", "simplify", "nested svg must become g + clip before groups are flattened"),
    ("resolve_use", "simplify", "use must be instantiated before groups are flattened"),
    ("shapes_to_paths", "expand_shorthand", "basic shapes emit H/V which only expand_shorthand removes"),
    ("expand_shorthand", "absolute", "absolute keeps the letter: S/T/H/V must already be gone"),
    ("simplify", "evenodd_to_nonzero_winding", "fill rules are normalised on the flattened paths"),
    ("normalize_opacity", "round_floats", "an opacity product computed after rounding is written unrounded"),
    ("absolute", "round_floats", "rounding must see the final numbers"),
    ("round_floats", "remove_empty_subpaths", "emptiness is judged on rounded geometry (issue 269)"),
    ("round_floats", "remove_unpainted_shapes", "paintedness is judged on rounded geometry"),
    ("simplify", "checkpicosvg", "the gate validates the final tree"),
]


def stage_classifier(call, callees):
    nm = call_name(call)
    if nm.startswith("self."):
        m = nm.split(".", 1)[1]
        if m in STAGES:
            return m
    return None


def topicosvg_order(repo: Repo, res: Resolver) -> Order:
    repo["svg"].func("SVG.topicosvg")
    return Order(res, ("svg", "SVG.topicosvg"), stage_classifier, depth=3,
                 inline_filter=lambda k: k[0] == "svg" and k[1].startswith("SVG.") and k[1].split(".")[1] not in STAGES)


def run(repo: Repo, rep: Report):
    from sa.rules import sem
    folder = Folder(repo)
    for rid, txt in [
        ("R-ORDER.gate", "topicosvg interpreted on documents that cannot be converted: it raises unless the option that tolerates the content is given; a convertible document comes back conforming"),
        ("R-SITE.options", "ndigits/allow_text/drop_unsupported have their documented effect when the pipeline is interpreted; the CLI passes its flags under their own names"),
        ("R-REGEX.allowlist", "the patterns the gate matches element paths against (observed while interpreting it) accept a language within the README grammar; "
                              "the gate, interpreted on 18 defective variants of a conforming document, reports each defect at its element"),
        ("R-ORDER.stages", "topicosvg interpreted end to end on a schematic document using every supported feature: the result obeys the grammar "
                           "(structure, elements, attributes, path letters, rounding, no ignorable content)"),
        ("R-CASE.letters", "explicit_lines/expand_shorthand/absolute reach their target forms; every number is rounded unconditionally"),
        ("R-GUARD.group-attrs", "a kept group is cleared and carries only the clamped opacity the decision was based on"),
        ("R-SITE.simplify", "_simplify interpreted on schematic documents: defs first and only gradients in it, no clip-path/transform/clipPath/stroke attributes left, root presentation attributes purged, groups flattened or reduced to opacity"),
    ]:
        rep.rule(rid, txt)
    _check_gate_raises(repo, rep)
    from sa.rules import sem as _sem
    _sem.check_cli(repo, rep, {"options": "R-SITE.options"})
    _check_allowlist(repo, rep, folder)
    sem.check_gate(repo, rep, {"accepts": "R-REGEX.allowlist", "rejects": "R-REGEX.allowlist", "drop": "R-SITE.options"})
    sem.check_traverse(repo, rep, {"paths": "R-REGEX.allowlist"})
    sem.check_pipeline(repo, rep, {"grammar": "R-ORDER.stages", "path-data": "R-ORDER.stages", "rounding": "R-ORDER.stages", "junk": "R-ORDER.stages",
                                   "completes": "R-ORDER.gate", "kept-group": "R-ORDER.cleanup-after-removal"})
    rep.rule("R-ORDER.cleanup-after-removal", "no group is left with fewer than two children by a stage that runs after group pruning")
    _check_letters(repo, rep)
    _check_group_attrs(repo, rep)
    sem.check_simplify(repo, rep, {"structure": "R-SITE.simplify"})


def _check_gate_raises(repo, rep, rule=None):
    """The gate is effective: unsupported content makes topicosvg raise; the tolerating option lets it complete."""
    from sa.rules import sem
    from sa.dom import El
    svg = repo["svg"]
    F = "svg.SVG.topicosvg"
    fn = svg.func("SVG.topicosvg")

    def doc(extra):
        def build():
            root = El("svg", {"viewBox": "0 0 10 10"}, [El("path", {"id": "a", "d": sem.pd(("M", (1, 1)), ("L", (2, 1)), ("L", (2, 2)), ("Z", ()))})] + [extra()], name="root")
            return root
        return build

    cases = [
        ("a <text> element", lambda: El("text", {"id": "t"}, [El("tspan", {})]), {}, "ValueError", None),
        ("a <text> element with allow_text", lambda: El("text", {"id": "t"}, [El("tspan", {})]), {"allow_text": True}, None, "text"),
        ("a <text> element with drop_unsupported", lambda: El("text", {"id": "t"}, [El("tspan", {})]), {"drop_unsupported": True}, None, "-text"),
        ("an <image> element", lambda: El("image", {"id": "i"}), {}, "ValueError", None),
        ("an <image> element with allow_text", lambda: El("image", {"id": "i"}), {"allow_text": True}, "ValueError", None),
        ("an <image> element with drop_unsupported", lambda: El("image", {"id": "i"}), {"drop_unsupported": True}, None, "-image"),
    ]
    for title, extra, kw, want_exc, want_tag in cases:
        outs, _ = sem.run_pipeline(repo, ndigits=3, passes=1, doc=doc(extra), **kw)
        for o in outs:
            rid = rule or ("R-SITE.options" if kw else "R-ORDER.gate")
            if want_exc:
                if o.raised != want_exc:
                    rep.fail(rid, F, title, f"{title}: conversion {'raises ' + o.raised if o.raised else 'returns normally'}; the result cannot be a picosvg, {want_exc} is expected", svg, fn)
                else:
                    rep.ok(rid, f"{F}: {title}", f"raises {want_exc}", True)
            else:
                tags = [n.local() for n in o.args[0].f["svg_root"].subtree() if isinstance(n.tag, str)] if not o.raised else []
                present = want_tag.lstrip("-") in tags
                if o.raised or present != (not want_tag.startswith("-")):
                    rep.fail(rid, F, title, f"{title}: {'raises ' + o.raised + ' (' + o.raise_msg + ')' if o.raised else 'elements ' + str(tags)}", svg, fn)
                else:
                    rep.ok(rid, f"{F}: {title}", "completes; " + ("content kept" if not want_tag.startswith("-") else "offending content dropped"), True)


def _under_not_inplace(node) -> bool:
    p = parent(node)
    while p is not None:
        if isinstance(p, ast.If) and unparse(p.test) == "not inplace":
            return True
        p = parent(p)
    return False


def cleanup_classifier(call, callees):
    nm = call_name(call)
    if nm in ("self._remove_orphaned_gradients",):
        return "orphan-gradient-removal"
    if nm == "_try_remove_group":
        return "group-pruning"
    if nm.startswith("self.") and nm.split(".")[1] in ("remove_unpainted_shapes",):
        return "shape-removal:remove_unpainted_shapes"
    if nm.startswith("self.") and nm.split(".")[1] in ("clip_to_viewbox",):
        return None
    return None


def _cleanup_after_removal(repo, rep, res, order, which=("group-pruning", "orphan-gradient-removal")):
    """R-ORDER.cleanup-after-removal - shared by C01 (g has >= 2 children), C07 (fixed point) and C08 (no orphan gradients)."""
    svg = repo["svg"]
    fn = svg.func("SVG.topicosvg")
    F = "svg.SVG.topicosvg"
    o2 = Order(res, ("svg", "SVG.topicosvg"), cleanup_classifier, depth=4,
               inline_filter=lambda k: k[0] == "svg" and k[1].startswith("SVG.") and k[1] != "SVG.remove_unpainted_shapes")
    rem = "shape-removal:remove_unpainted_shapes"
    if not o2.has(rem):
        rep.ok("R-ORDER.cleanup-after-removal", f"{F}: no shape-deleting stage after simplify")
        return
    rep.rule("R-ORDER.cleanup-after-removal", "after the last stage that deletes shape elements, group pruning / orphan-gradient removal still run")
    for cleanup, what in (("group-pruning", "groups left with fewer than two children (or emptied) are not flattened"),
                          ("orphan-gradient-removal", "gradients only referenced by the deleted shapes stay in defs")):
        if cleanup not in which:
            continue
        ok = False
        for (nb, ib, _, cb) in o2.occ[rem]:
            reach = o2.g.reachable(o2.g.nodes[nb])
            for (na, ia, must, _) in o2.occ.get(cleanup, []):
                if must and ((na == nb and ia > ib) or (na != nb and na in reach and nb in o2.dom.get(na, set()))):
                    ok = True
        site = f"{F}: {cleanup} after remove_unpainted_shapes"
        if ok:
            rep.ok("R-ORDER.cleanup-after-removal", site, "", True)
        else:
            rep.fail("R-ORDER.cleanup-after-removal", F, f"remove_unpainted_shapes after the last {cleanup}",
                     f"remove_unpainted_shapes deletes shape elements after the last {cleanup} of the pipeline: {what}, so the output "
                     "is not in final form (a second conversion changes it)", svg, fn, path=[f"entry {F}", "simplify (last cleanup)", "remove_unpainted_shapes", "checkpicosvg", "return"])


def _check_allowlist(repo, rep, folder):
    svg = repo["svg"]
    fn = svg.func("SVG.checkpicosvg")
    F = "svg.SVG.checkpicosvg"
    rep.saw(F)
    from sa.rules import sem
    seen_plain = sem.collect_gate_patterns(repo, False)
    seen_text = sem.collect_gate_patterns(repo, True)
    if not seen_plain:
        raise AnalysisError("checkpicosvg: no regular expression is matched against element paths (the gate changed its mechanism)")
    bad_use = [m for m, _ in seen_plain + seen_text if m == "search"]
    base = [p if m != "fullmatch" else "^(?:" + p + ")$" for m, p in seen_plain]
    text_extra = [p if m != "fullmatch" else "^(?:" + p + ")$" for m, p in seen_text if (m, p) not in seen_plain]
    if bad_use:
        rep.fail("R-REGEX.allowlist", F, "re.search", "element paths are matched with search(): a conforming substring anywhere would pass", svg, fn)
    rep.tables.add("svg.SVG.checkpicosvg.path_allowlist")
    al = [chr(i) for i in range(32, 127)]
    ref = DFA.from_glushkov(Compiled(spec.PICO_PATH_RE).g, al)
    for pat in base:
        c = Compiled(pat)
        if not (c.info["anchored_start"] and c.info["anchored_end"]):
            rep.fail("R-REGEX.allowlist", F, pat, "allowlist pattern is not anchored at both ends: any path with a conforming prefix/suffix would pass", svg, fn)
            continue
        d = DFA.from_glushkov(c.g, al)
        w = difference_witness(d, ref)
        if w is not None:
            rep.fail("R-REGEX.allowlist", F, pat, f"allowlist pattern admits the element path {w!r}, which the picosvg grammar forbids", svg, fn)
        else:
            rep.ok("R-REGEX.allowlist", f"{F}: {pat}", f"language within the README grammar (product automaton, {d.n_states()} states)", True)
    text_ref = DFA.from_glushkov(Compiled(r"/svg\[0\]/(?:text|textPath)\[[0-9]+\](?:/(?:text|tspan|textPath)\[[0-9]+\])*").g, al)
    for pat in text_extra:
        c = Compiled(pat)
        d = DFA.from_glushkov(c.g, al)
        w = difference_witness(d, text_ref)
        if w is not None or not (c.info["anchored_start"] and c.info["anchored_end"]):
            rep.fail("R-REGEX.allowlist", F, pat, f"with allow_text the additional pattern admits {w!r}: more than text content is tolerated", svg, fn)
        else:
            rep.ok("R-REGEX.allowlist", f"{F}: allow_text pattern", "only text/tspan/textPath subtrees below the root", True)


def _check_stage_bodies(repo, rep):
    """Each tidy-up stage applies its shape-level rewrite to every cached shape."""
    svg = repo["svg"]
    want = {
        "absolute": "shape.absolute()",
        "shapes_to_paths": "shape.as_path()",
        "round_floats": "shape.round_floats(ndigits, inplace=True)",
        "normalize_opacity": "shape.normalize_opacity(inplace=True)",
    }
    for m, callt in want.items():
        fn = svg.func(f"SVG.{m}")
        loops = [l for l in walk_no_nested(fn) if isinstance(l, ast.For) and not _under_not_inplace(l)]
        ok = any(callt in unparse(l) and not any(isinstance(x, (ast.If, ast.Continue, ast.Break)) for x in ast.walk(l)) and
                 unparse(l.iter) in ("self.shapes()", "enumerate(self._elements())") for l in loops)
        if ok:
            rep.ok("R-CASE.letters", f"svg.SVG.{m}: {callt} for every shape, unconditionally")
        else:
            rep.fail("R-CASE.letters", f"svg.SVG.{m}", callt, f"stage {m} no longer applies {callt} to every shape unconditionally", svg, fn)
    fn = svg.func("SVG.expand_shorthand")
    t = unparse(fn)
    if "isinstance(shape, SVGPath)" in t and "shape.explicit_lines().expand_shorthand(inplace=True)" in t:
        rep.ok("R-CASE.letters", "svg.SVG.expand_shorthand: explicit_lines + expand_shorthand for every path")
    else:
        rep.fail("R-CASE.letters", "svg.SVG.expand_shorthand", "shape.explicit_lines().expand_shorthand(inplace=True)",
                 "paths no longer pass both explicit_lines and expand_shorthand", svg, fn)
    fn = svg.func("SVG.evenodd_to_nonzero_winding")
    t = unparse(fn)
    if "shape.fill_rule == 'evenodd'" in t and "remove_overlaps(inplace=True)" in t:
        rep.ok("R-CASE.letters", "svg.SVG.evenodd_to_nonzero_winding: every evenodd shape goes through remove_overlaps")
    else:
        rep.fail("R-CASE.letters", "svg.SVG.evenodd_to_nonzero_winding", "if shape.fill_rule == 'evenodd': remove_overlaps",
                 "evenodd shapes are no longer rewritten to nonzero", svg, fn)


def _check_letters(repo, rep):
    from sa.rules import c09
    st = repo["svg_types"]
    bad = {}
    n = 0
    for method in ("explicit_lines", "expand_shorthand", "absolute"):
        for l in spec.LETTERS:
            probs, k, _ = c09._check_seq(repo, method, ("M", l))
            n += 1
            probs = [p for p in probs]
            if any(p.startswith("UNDECIDED") for p in probs):
                raise AnalysisError(f"svg_types.SVGPath.{method}: evaluator undecided: {probs[0]}")
            if probs:
                bad.setdefault(method, []).append((l, probs[0]))
    for method, items in bad.items():
        l, msg = items[0]
        rep.fail("R-CASE.letters", f"svg_types.SVGPath.{method}", f"{method}(M {l})", f"{len(items)} letters wrong; first '{l}': {msg}", st, st.func(f"SVGPath.{method}"))
    if not bad:
        rep.ok("R-CASE.letters", "svg_types.SVGPath.{explicit_lines,expand_shorthand,absolute}", f"{n} (rewrite x letter) cases reach the target form and keep the curve; "
               "composed with the stage order: letters in any d at the gate are within M L C Q A Z", True)
    c09._check_round(repo, rep)


def _check_group_attrs(repo, rep):
    """Kept groups have >= 2 children and carry only an opacity strictly between 0 and 1 (semantic, on the abstract DOM)."""
    from sa.rules import groups
    groups.check_removable_predicate(repo, rep, "R-GUARD.group-attrs", "a kept group must have at least two children and 0 < opacity < 1")
    groups.check_try_remove_group(repo, rep, "R-GUARD.group-attrs", "a kept group must carry nothing but its opacity; a flattened one must vanish")


def _check_simplify_sites(repo, rep, folder):
    svg = repo["svg"]
    fn = svg.func("SVG._simplify")
    F = "svg.SVG._simplify"
    rep.saw(F)
    loops = [l for l in fn.body if isinstance(l, ast.For)]
    main = next((l for l in loops if unparse(l.iter) == "to_process"), None)
    if main is None:
        raise AnalysisError("_simplify: main loop `for context in to_process` not found")
    body = main.body
    txt = [unparse(s) for s in body]
    # clipPath subtrees deleted first
    first = body[0]
    if isinstance(first, ast.If) and "'clipPath' in context.path" in unparse(first.test) and "_safe_remove(context.element)" in unparse(first.body[0]) \
            and isinstance(first.body[-1], ast.Continue):
        rep.ok("R-SITE.simplify", f"{F}: every element under a clipPath is removed")
    else:
        rep.fail("R-SITE.simplify", F, "if 'clipPath' in context.path: _safe_remove(context.element); continue", "clipPath subtrees are no longer deleted during the walk", svg, fn)
    top = [t for s, t in zip(body, txt) if isinstance(s, ast.Expr)]
    if any(t == "_del_attrs(el, 'clip-path', 'transform')" for t in top):
        rep.ok("R-SITE.simplify", f"{F}: clip-path and transform deleted from every visited element")
    else:
        rep.fail("R-SITE.simplify", F, "_del_attrs(el, 'clip-path', 'transform')", "visited elements keep clip-path/transform attributes", svg, fn)
    if any(t == "_inherit_attrib(context.attrib, el)" for t in top):
        rep.ok("R-SITE.simplify", f"{F}: inherited attributes materialised on every visited element")
    else:
        rep.fail("R-SITE.simplify", F, "_inherit_attrib(context.attrib, el)", "inherited attributes are no longer pushed down before groups are flattened", svg, fn)
    after = [unparse(s) for s in fn.body[fn.body.index(main) + 1:]]
    if "_del_attrs(self.svg_root, *_INHERITABLE_ATTRIB)" in after:
        rep.ok("R-SITE.simplify", f"{F}: inheritable presentation attributes purged from the root")
    else:
        rep.fail("R-SITE.simplify", F, "_del_attrs(self.svg_root, *_INHERITABLE_ATTRIB)", "the root keeps inheritable presentation attributes", svg, fn)
    if "self._remove_orphaned_gradients()" in after:
        rep.ok("R-SITE.simplify", f"{F}: orphaned gradients removed after the walk")
    else:
        rep.fail("R-SITE.simplify", F, "self._remove_orphaned_gradients()", "unreferenced gradients are no longer removed", svg, fn)
    purge = [s for s in fn.body if isinstance(s, ast.For) and "not _is_gradient(el)" in unparse(s.iter) and "defs.remove" in unparse(s)]
    if purge:
        rep.ok("R-SITE.simplify", f"{F}: non-gradient children of defs purged")
    else:
        rep.fail("R-SITE.simplify", F, "for unused_el in [el for el in defs if not _is_gradient(el)]: defs.remove(unused_el)", "defs may keep non-gradient children", svg, fn)
    if any(t == "self.svg_root.insert(0, defs)" for t in [unparse(s) for s in fn.body]):
        rep.ok("R-SITE.simplify", f"{F}: the single defs is the first child of the root")
    else:
        rep.fail("R-SITE.simplify", F, "self.svg_root.insert(0, defs)", "the master defs is not inserted as first child", svg, fn)
    t = unparse(main)
    checks = [
        ("_reset_attrs(path, lambda field: field.name.startswith('stroke'))", "stroke fields of every emitted path are reset"),
        ("p.fill_rule = 'nonzero'", "clipped paths are marked nonzero"),
        ("self._apply_gradient_template(el)", "gradients moved to defs have their template inlined"),
        ("self._apply_gradient_translation(el)", "gradients moved to defs are re-serialised from the typed dataclass"),
        ("_try_remove_group(el)", "every group is flattened or reduced to its opacity"),
        ("_replace_el(el, [to_element(p) for p in paths])", "rewritten shapes replace the original element in place"),
    ]
    for needle, what in checks:
        if needle in t:
            rep.ok("R-SITE.simplify", f"{F}: {what}")
        else:
            rep.fail("R-SITE.simplify", F, needle, f"missing: {what}", svg, fn)
    # the reset loop must not be conditional
    for s in ast.walk(main):
        if isinstance(s, ast.For) and "_reset_attrs" in unparse(s) and unparse(s.iter) == "paths":
            if isinstance(parent(s), ast.If) and "_is_shape" not in unparse(parent(s).test):
                rep.fail("R-SITE.simplify", F, s, "stroke reset is conditional", svg, s)
    # all 8 stroke* dataclass fields are covered by the predicate
    fields = [f.name for f in folder.dataclass_fields("svg_types", "SVGPath")]
    strokes = [f for f in fields if f.startswith("stroke")]
    rep.floor("stroke* dataclass fields", len(strokes), 8)
    # elements that can stay: defs/gradients/g/path. Shapes always become path elements via to_element? only when changed - check the as_path
    if "from_element(el).as_path().absolute(inplace=True)" in t:
        rep.ok("R-SITE.simplify", f"{F}: every shape is read as an absolute path")
    # template/translation order in the gradient branch
    grad = [s for s in ast.walk(main) if isinstance(s, ast.If) and unparse(s.test) == "_is_gradient(el.tag)"]
    if grad:
        seq = [unparse(x) for x in grad[0].body]
        want = ["_safe_remove(el)", "self._add_to_defs(defs, el)", "self._apply_gradient_template(el)", "self._apply_gradient_translation(el)"]
        idx = [seq.index(w) if w in seq else -1 for w in want]
        if -1 in idx or idx != sorted(idx):
            rep.fail("R-SITE.simplify", F, " ; ".join(want), "gradient branch no longer moves the gradient to defs, inlines its template and normalises it, in this order", svg, grad[0])
        else:
            rep.ok("R-SITE.simplify", f"{F}: gradient branch order remove > add_to_defs > template > translation")
    # href removed on every non-early exit of _apply_gradient_template
    g = svg.func("SVG._apply_gradient_template")
    last = unparse(g.body[-1])
    if last == "del gradient.attrib[href_attr]":
        rep.ok("R-SITE.simplify", "svg.SVG._apply_gradient_template: href deleted on the normal exit")
    else:
        rep.fail("R-SITE.simplify", "svg.SVG._apply_gradient_template", "del gradient.attrib[href_attr]", "a resolved gradient keeps its href", svg, g)
    tr = svg.func("SVG._apply_gradient_translation")
    tt = unparse(tr)
    if "el.attrib.clear()" in tt and "el.attrib.update(to_element(gradient).attrib)" in tt:
        rep.ok("R-SITE.simplify", "svg.SVG._apply_gradient_translation: attributes rewritten from the typed gradient (plain numbers)")
    else:
        rep.fail("R-SITE.simplify", "svg.SVG._apply_gradient_translation", "el.attrib.clear(); el.attrib.update(to_element(gradient).attrib)",
                 "gradient attributes are no longer re-serialised from the typed dataclass", svg, tr)


WHO_MAY_CREATE = {
    "svg._copy_new_nsmap": "copy of the root with a new nsmap (same tag)",
    "svg.to_element": "element of a typed shape/gradient (tag from _CLASS_ELEMENTS)",
    "svg._attrib_to_pass_on": "detached scratch element 'dummy' used as attribute catcher, never inserted",
    "svg.SVG._resolve_use": "wrapper g for an instantiated use (flattened or reduced to opacity by simplify)",
    "svg.SVG._simplify": "the master defs",
    "svg.SVG._unnest_svg": "g / clipPath replacing a nested svg (clipPath consumed by simplify)",
}


def _check_who_may_create(repo, rep):
    n = 0
    for mod in repo.modules.values():
        for c in ast.walk(mod.tree):
            if isinstance(c, ast.Call) and call_name(c) in ("etree.Element", "etree.SubElement", "etree.fromstring", "etree.XML", "etree.Comment",
                                                            "etree.ProcessingInstruction", "etree.ElementTree"):
                p = c
                fq = "<module>"
                while p is not None:
                    if isinstance(p, (ast.FunctionDef,)):
                        fq = getattr(p, "_qualname", p.name)
                        break
                    p = parent(p)
                key = f"{mod.name}.{fq}"
                n += 1
                if key in WHO_MAY_CREATE or (call_name(c) == "etree.fromstring" and key == "svg.SVG.fromstring"):
                    tag = unparse(c.args[0]) if c.args else ""
                    if key == "svg.SVG._resolve_use" and "}g" not in tag or key == "svg.SVG._simplify" and "}defs" not in tag \
                            or key == "svg.SVG._unnest_svg" and not ("}g" in tag or "}clipPath" in tag):
                        rep.fail("R-SITE.who-may-create", key, c, f"creates an element {tag} other than the kind recorded for this site", mod, c)
                    else:
                        rep.ok("R-SITE.who-may-create", f"{key}: {unparse(c)[:60]}", WHO_MAY_CREATE.get(key, "parser entry"))
                else:
                    rep.fail("R-SITE.who-may-create", key, c, "new element creation site: an element kind outside the picosvg grammar may be inserted "
                             "after the stages that would remove or validate it", mod, c)
    rep.floor("element creation sites", n, 8)


_S = "svg"
VARIANTS = [
    Variant("remove_overlaps swallows the engine's failure and hands back the evenodd path",
            [Edit("svg_types", "SVGPath.remove_overlaps", "        cmds = svg_pathops.remove_overlaps(self.as_cmd_seq(), fill_rule=self.fill_rule)\n",
                  "        try:\n            cmds = svg_pathops.remove_overlaps(self.as_cmd_seq(), fill_rule=self.fill_rule)\n        except svg_pathops.pathops.PathOpsError:\n            return self\n")],
            [("R-ORDER.stages", "topicosvg")]),
    Variant("allowlist admits use", [Edit(_S, "SVG.checkpicosvg", r'r"^/svg\[0\](/(path|g)\[\d+\])+$"', r'r"^/svg\[0\](/(path|g|use)\[\d+\])+$"')],
            [("R-REGEX.allowlist", "checkpicosvg")]),
    Variant("gate result ignored", [Edit(_S, "SVG.topicosvg", "        if violations:\n            raise ValueError(\"Unable to convert to picosvg: \" + \",\".join(violations))\n", "")],
            [("R-ORDER.gate", "topicosvg")]),
    Variant("round_floats before absolute", [Edit(_S, "SVG.topicosvg", "        self.absolute(inplace=True)\n        self.round_floats(ndigits, inplace=True)\n",
                                                   "        self.round_floats(ndigits, inplace=True)\n        self.absolute(inplace=True)\n")],
            [("R-ORDER.stages", "topicosvg")]),
    Variant("remove_title_meta_desc after simplify", [Edit(_S, "SVG.topicosvg", "        self.remove_title_meta_desc(inplace=True)\n", ""),
                                                      Edit(_S, "SVG.topicosvg", "        self.simplify(inplace=True)\n", "        self.simplify(inplace=True)\n        self.remove_title_meta_desc(inplace=True)\n")],
            [("R-ORDER.cleanup-after-removal", "topicosvg")]),
    Variant("explicit_lines skips h", [Edit("svg_types", "_explicit_lines_callback", 'elif cmd == "h":', 'elif cmd == "hh":')], [("R-CASE.letters", "explicit_lines")]),
    Variant("kept group keeps fill", [Edit(_S, "_try_remove_group", "        group_el.attrib[\"opacity\"] = ntos(opacity)\n", "        group_el.attrib[\"opacity\"] = ntos(opacity)\n        group_el.attrib[\"fill\"] = \"inherit\"\n")],
            [("R-GUARD.group-attrs", "_try_remove_group")]),
    Variant("root attribute purge deleted", [Edit(_S, "SVG._simplify", "        _del_attrs(self.svg_root, *_INHERITABLE_ATTRIB)\n", "")], [("R-SITE.simplify", "_simplify")]),
    Variant("gate only when not drop_unsupported", [Edit(_S, "SVG.topicosvg", "        violations = self.checkpicosvg(\n            allow_text=allow_text, drop_unsupported=drop_unsupported\n        )\n",
                                                          "        violations = ()\n        if not drop_unsupported:\n            violations = self.checkpicosvg(\n                allow_text=allow_text, drop_unsupported=drop_unsupported\n            )\n")],
            [("R-", "topicosvg")]),
    Variant("CLI swaps the flags", [Edit("picosvg", "_run", "allow_text=FLAGS.allow_text, drop_unsupported=FLAGS.drop_unsupported", "allow_text=FLAGS.drop_unsupported, drop_unsupported=FLAGS.allow_text")],
            [("R-SITE.options", "_run")]),
    Variant("decision on raw opacity", [Edit(_S, "_is_removable_group", "_opacity(el) in {0.0, 1.0}", "float(el.attrib.get('opacity', 1.0)) in {0.0, 1.0}")],
            [("R-GUARD.group-attrs", "_is_removable_group")]),
    Variant("conditional rounding", [Edit("svg_types", "SVGPath.round_floats", "        d, target.d = target.d, \"\"", "        if 'e' not in target.d and len(target.d) < 9:\n            return target\n        d, target.d = target.d, \"\"")],
            [("R-CASE.round", "round_floats")], allow_analysis_error=True),
    Variant("new element kind created late", [Edit(_S, "SVG.remove_unpainted_shapes", "        self.elements = None\n\n        return self", "        self.svg_root.append(etree.Element('metadata'))\n        self.elements = None\n\n        return self")],
            [("R-ORDER.gate", "topicosvg")]),
    Variant("clipPath subtrees kept", [Edit(_S, "SVG._simplify", '            if "clipPath" in context.path:\n                _safe_remove(context.element)\n                continue\n', "")],
            [("R-", "topicosvg")]),
    Variant("silent: swap two junk removers", [Edit(_S, "SVG.topicosvg", "        self.remove_anonymous_symbols(inplace=True)\n        self.remove_title_meta_desc(inplace=True)\n",
                                                    "        self.remove_title_meta_desc(inplace=True)\n        self.remove_anonymous_symbols(inplace=True)\n")], silent=True),
    Variant("silent: tidy stages moved into a helper", [Edit(_S, "SVG.topicosvg", "        self.evenodd_to_nonzero_winding(inplace=True)\n        self.normalize_opacity(inplace=True)\n        self.absolute(inplace=True)\n",
                                                             "        self._tidy()\n"),
                                                        Edit(_S, "SVG", "    def _add_to_defs(self, defs, new_el):", "    def _tidy(self):\n        self.evenodd_to_nonzero_winding(inplace=True)\n        self.normalize_opacity(inplace=True)\n        self.absolute(inplace=True)\n\n    def _add_to_defs(self, defs, new_el):")],
            silent=True),
]

"""C01 - conversion output always conforms to the documented picosvg grammar (structural clauses)."""
from __future__ import annotations

import ast
import re as _re

from sa import spec
from sa.calls import Resolver
from sa.core import AnalysisError, Repo, Report, call_name, kwarg, parent, unparse, walk_no_nested
from sa.fold import Folder
from sa.order import Order
from sa.regex import Compiled, DFA, difference_witness
from sa.selftest import Edit, Variant

EXPLANATION = (
    "Necessary structural conditions of the grammar, decided on the source: (gate) checkpicosvg post-dominates every stage of the in-place "
    "pipeline, its result is tested and raises, options flow under their own names from the CLI flags to the gate; (gate language) the "
    "folded element-path allowlist is compared by automata with the README grammar, required paths and duplicate-id logic are present, the "
    "traversal builds paths in the /name[n] format the patterns assume; (stage precedence) dominance / never-after queries over the CFG of "
    "topicosvg for every ordered pair the grammar needs; (path data) target forms of explicit_lines/expand_shorthand/absolute and "
    "unconditional rounding of every number; (attributes/elements) kept groups are cleared and get only `opacity` taken from the same clamped "
    "value the keep/flatten decision used, every visited element loses clip-path/transform, clipPath subtrees are deleted, root presentation "
    "attributes and non-gradient defs are purged, stroke fields reset, clipped paths marked nonzero, gradients pass template and translation "
    "normalisation, and element creation sites are a frozen who-may-create table."
)
ASSUMPTIONS = ["Skia output coordinates are finite; lxml serialisation is faithful",
               "evenodd may survive only for paths evenodd_to_nonzero_winding does not touch (stage presence and order are what is decided)"]
P = "C01"

STAGES = ["remove_nonsvg_content", "remove_processing_instructions", "remove_anonymous_symbols", "remove_title_meta_desc",
          "apply_style_attributes", "resolve_nested_svgs", "shapes_to_paths", "expand_shorthand", "resolve_use", "simplify",
          "evenodd_to_nonzero_winding", "normalize_opacity", "absolute", "round_floats", "remove_empty_subpaths",
          "remove_unpainted_shapes", "checkpicosvg", "clip_to_viewbox", "set_attributes", "remove_attributes", "append_to"]
GEOMETRY_STAGES = ["simplify", "evenodd_to_nonzero_winding", "absolute", "expand_shorthand", "shapes_to_paths", "normalize_opacity",
                   "resolve_use", "resolve_nested_svgs", "apply_style_attributes", "clip_to_viewbox"]
PRECEDENCE = [
    # (a must run before b, reason)
    ("remove_nonsvg_content", "simplify", "foreign elements/attributes must be gone before anything is interpreted"),
    ("remove_anonymous_symbols", "simplify", "id-less symbols are unsupported elements"),
    ("remove_title_meta_desc", "simplify", "title/desc/metadata are not in the grammar"),
    ("apply_style_attributes", "simplify", "style declarations must be attributes before inheritance is flattened"),
    ("resolve_nested_svgs", "simplify", "nested svg must become g + clip before groups are flattened"),
    ("resolve_use", "simplify", "use must be instantiated before groups are flattened"),
    ("shapes_to_paths", "expand_shorthand", "basic shapes emit H/V which only expand_shorthand removes"),
    ("expand_shorthand", "absolute", "absolute keeps the letter: S/T/H/V must already be gone"),
    ("simplify", "evenodd_to_nonzero_winding", "fill rules are normalised on the flattened paths"),
    ("normalize_opacity", "round_floats", "an opacity product computed after rounding is written unrounded"),
    ("absolute", "round_floats", "rounding must see the final numbers"),
    ("round_floats", "remove_empty_subpaths", "emptiness is judged on rounded geometry (issue 269)"),
    ("round_floats", "remove_unpainted_shapes", "paintedness is judged on rounded geometry"),
    ("simplify", "checkpicosvg", "the gate validates the final tree"),
]


def stage_classifier(call, callees):
    nm = call_name(call)
    if nm.startswith("self."):
        m = nm.split(".", 1)[1]
        if m in STAGES:
            return m
    return None


def topicosvg_order(repo: Repo, res: Resolver) -> Order:
    repo["svg"].func("SVG.topicosvg")
    return Order(res, ("svg", "SVG.topicosvg"), stage_classifier, depth=3,
                 inline_filter=lambda k: k[0] == "svg" and k[1].startswith("SVG.") and k[1].split(".")[1] not in STAGES)


def run(repo: Repo, rep: Report):
    svg = repo["svg"]
    res = Resolver(repo)
    folder = Folder(repo)
    for rid, txt in [
        ("R-ORDER.gate", "checkpicosvg is on every normal path of the in-place pipeline, after every mutating stage, and its result raises"),
        ("R-SITE.options", "ndigits/allow_text/drop_unsupported reach the stages and the gate under their own names, from the CLI flags too"),
        ("R-REGEX.allowlist", "language of the element-path allowlist is within the README grammar; required paths; duplicate-id report"),
        ("R-ORDER.stages", "necessary precedences between pipeline stages; junk removers on every path; nothing changes numbers after rounding"),
        ("R-CASE.letters", "explicit_lines/expand_shorthand/absolute reach their target forms; every number is rounded unconditionally"),
        ("R-GUARD.group-attrs", "a kept group is cleared and carries only the clamped opacity the decision was based on"),
        ("R-SITE.simplify", "attribute/element clean-up sites of _simplify are present on every iteration / after the loop"),
        ("R-SITE.who-may-create", "element creation sites are the frozen table"),
    ]:
        rep.rule(rid, txt)
    order = topicosvg_order(repo, res)
    fn = svg.func("SVG.topicosvg")
    F = "svg.SVG.topicosvg"
    rep.saw(F)
    inplace_entry = order.branch_entry("not inplace", "false")
    if inplace_entry is None:
        raise AnalysisError("topicosvg: `if not inplace` prologue not found")
    # ---- gate
    if not order.has("checkpicosvg"):
        rep.fail("R-ORDER.gate", F, "self.checkpicosvg(...)", "the conversion no longer calls the final check", svg, fn)
    elif not order.on_all_paths_from(inplace_entry, "checkpicosvg"):
        rep.fail("R-ORDER.gate", F, "self.checkpicosvg(...)", "a normal return of the in-place conversion is reachable without passing the final check", svg, fn)
    else:
        rep.ok("R-ORDER.gate", f"{F}: checkpicosvg post-dominates the in-place branch entry", "", True)
    for st in STAGES:
        if st == "checkpicosvg" or not order.has(st):
            continue
        bad = order.never_after(st, "checkpicosvg")
        if bad:
            rep.fail("R-ORDER.gate", F, f"self.{st}(...) after the gate", f"{bad}: the tree is modified after it was validated", svg, fn)
        else:
            rep.ok("R-ORDER.gate", f"{F}: {st} never after the gate")
    from sa.rules.c17 import _check_gate
    _check_gate(repo, rep)
    # ---- options
    gate_calls = [c for c in ast.walk(fn) if isinstance(c, ast.Call) and call_name(c) == "self.checkpicosvg"]
    for c in gate_calls:
        for opt in ("allow_text", "drop_unsupported"):
            v = kwarg(c, opt)
            if v is None or unparse(v) != opt:
                rep.fail("R-SITE.options", F, c, f"option {opt!r} does not reach checkpicosvg under its own name", svg, c)
            else:
                rep.ok("R-SITE.options", f"{F}: checkpicosvg({opt}={opt})")
    rf = [c for c in ast.walk(fn) if isinstance(c, ast.Call) and call_name(c) == "self.round_floats"]
    if rf and rf[0].args and unparse(rf[0].args[0]) == "ndigits":
        rep.ok("R-SITE.options", f"{F}: round_floats(ndigits, ...)")
    else:
        rep.fail("R-SITE.options", F, "self.round_floats(ndigits, inplace=True)", "ndigits does not reach round_floats", svg, fn)
    for c in ast.walk(fn):
        if isinstance(c, ast.Call) and call_name(c).startswith("self.") and call_name(c).split(".")[1] in STAGES and call_name(c) != "self.checkpicosvg" \
                and not _under_not_inplace(c):
            v = kwarg(c, "inplace")
            if not (isinstance(v, ast.Constant) and v.value is True):
                rep.fail("R-SITE.options", F, c, "pipeline stage is not run in place: its result is discarded", svg, c)
    _check_cli(repo, rep)
    # ---- stage precedence
    for a, b, why in PRECEDENCE:
        if not order.has(a):
            rep.fail("R-ORDER.stages", F, f"self.{a}(inplace=True)", f"stage {a} is missing from the pipeline ({why})", svg, fn)
            continue
        if not order.on_all_paths_from(inplace_entry, a):
            rep.fail("R-ORDER.stages", F, f"self.{a}(inplace=True)", f"stage {a} is not on every path of the in-place pipeline ({why})", svg, fn)
            continue
        bad = order.must_precede(a, b)
        if bad:
            rep.fail("R-ORDER.stages", F, f"{a} before {b}", f"{bad} - {why}", svg, fn, path=[f"entry {F}", bad])
        else:
            rep.ok("R-ORDER.stages", f"{F}: {a} dominates {b}", why, True)
    for st in ("remove_processing_instructions", "expand_shorthand", "remove_empty_subpaths", "remove_unpainted_shapes"):
        if not order.on_all_paths_from(inplace_entry, st):
            rep.fail("R-ORDER.stages", F, f"self.{st}(inplace=True)", f"stage {st} is not on every path of the in-place pipeline", svg, fn)
        else:
            rep.ok("R-ORDER.stages", f"{F}: {st} on every path")
    for g in GEOMETRY_STAGES:
        bad = order.never_after(g, "round_floats")
        if bad:
            rep.fail("R-ORDER.stages", F, f"{g} after round_floats", f"{bad}: numbers produced after rounding reach the output unrounded", svg, fn)
        else:
            rep.ok("R-ORDER.stages", f"{F}: {g} never after round_floats")
    rep.notes.append("pipeline event order: " + " > ".join(order.sequence()))
    # cleanup-after-removal (finding F5): after the last stage that deletes shape elements, group pruning and orphan removal must still run
    _cleanup_after_removal(repo, rep, res, order, ("group-pruning",))
    _check_allowlist(repo, rep, folder)
    _check_stage_bodies(repo, rep)
    _check_letters(repo, rep)
    _check_group_attrs(repo, rep)
    _check_simplify_sites(repo, rep, folder)
    _check_who_may_create(repo, rep)


def _under_not_inplace(node) -> bool:
    p = parent(node)
    while p is not None:
        if isinstance(p, ast.If) and unparse(p.test) == "not inplace":
            return True
        p = parent(p)
    return False


def cleanup_classifier(call, callees):
    nm = call_name(call)
    if nm in ("self._remove_orphaned_gradients",):
        return "orphan-gradient-removal"
    if nm == "_try_remove_group":
        return "group-pruning"
    if nm.startswith("self.") and nm.split(".")[1] in ("remove_unpainted_shapes",):
        return "shape-removal:remove_unpainted_shapes"
    if nm.startswith("self.") and nm.split(".")[1] in ("clip_to_viewbox",):
        return None
    return None


def _cleanup_after_removal(repo, rep, res, order, which=("group-pruning", "orphan-gradient-removal")):
    """R-ORDER.cleanup-after-removal - shared by C01 (g has >= 2 children), C07 (fixed point) and C08 (no orphan gradients)."""
    svg = repo["svg"]
    fn = svg.func("SVG.topicosvg")
    F = "svg.SVG.topicosvg"
    o2 = Order(res, ("svg", "SVG.topicosvg"), cleanup_classifier, depth=4,
               inline_filter=lambda k: k[0] == "svg" and k[1].startswith("SVG.") and k[1] != "SVG.remove_unpainted_shapes")
    rem = "shape-removal:remove_unpainted_shapes"
    if not o2.has(rem):
        rep.ok("R-ORDER.cleanup-after-removal", f"{F}: no shape-deleting stage after simplify")
        return
    rep.rule("R-ORDER.cleanup-after-removal", "after the last stage that deletes shape elements, group pruning / orphan-gradient removal still run")
    for cleanup, what in (("group-pruning", "groups left with fewer than two children (or emptied) are not flattened"),
                          ("orphan-gradient-removal", "gradients only referenced by the deleted shapes stay in defs")):
        if cleanup not in which:
            continue
        ok = False
        for (nb, ib, _, cb) in o2.occ[rem]:
            reach = o2.g.reachable(o2.g.nodes[nb])
            for (na, ia, must, _) in o2.occ.get(cleanup, []):
                if must and ((na == nb and ia > ib) or (na != nb and na in reach and nb in o2.dom.get(na, set()))):
                    ok = True
        site = f"{F}: {cleanup} after remove_unpainted_shapes"
        if ok:
            rep.ok("R-ORDER.cleanup-after-removal", site, "", True)
        else:
            rep.fail("R-ORDER.cleanup-after-removal", F, f"remove_unpainted_shapes after the last {cleanup}",
                     f"remove_unpainted_shapes deletes shape elements after the last {cleanup} of the pipeline: {what}, so the output "
                     "is not in final form (a second conversion changes it)", svg, fn, path=[f"entry {F}", "simplify (last cleanup)", "remove_unpainted_shapes", "checkpicosvg", "return"])


def _check_cli(repo, rep):
    cli = repo["picosvg"]
    fn = cli.func("_run")
    F = "picosvg._run"
    rep.saw(F)
    flags = {}
    for c in ast.walk(cli.tree):
        if isinstance(c, ast.Call) and call_name(c).startswith("flags.DEFINE_") and c.args and isinstance(c.args[0], ast.Constant):
            flags[c.args[0].value] = c
    conv = [c for c in ast.walk(fn) if isinstance(c, ast.Call) and call_name(c).endswith(".topicosvg")]
    if not conv:
        rep.fail("R-SITE.options", F, "svg.topicosvg(...)", "the CLI does not call topicosvg", cli, fn)
        return
    for opt in ("allow_text", "drop_unsupported"):
        if opt not in flags:
            rep.fail("R-SITE.options", F, f"flags.DEFINE_bool({opt!r})", f"CLI flag {opt} is not defined", cli, fn)
            continue
        v = kwarg(conv[0], opt)
        if v is None or unparse(v) != f"FLAGS.{opt}":
            rep.fail("R-SITE.options", F, conv[0], f"CLI flag --{opt} is not passed to topicosvg({opt}=FLAGS.{opt})", cli, conv[0])
        else:
            rep.ok("R-SITE.options", f"{F}: topicosvg({opt}=FLAGS.{opt})")
    for k in conv[0].keywords:
        if k.arg and isinstance(k.value, ast.Attribute) and unparse(k.value).startswith("FLAGS.") and unparse(k.value) != f"FLAGS.{k.arg}":
            rep.fail("R-SITE.options", F, conv[0], f"keyword {k.arg} is fed from {unparse(k.value)}", cli, conv[0])
    clip = [c for c in ast.walk(fn) if isinstance(c, ast.Call) and call_name(c).endswith(".clip_to_viewbox")]
    if clip:
        guarded = isinstance(parent(parent(clip[0])), ast.If) and unparse(parent(parent(clip[0])).test) == "FLAGS.clip_to_viewbox"
        after = clip[0].lineno > conv[0].lineno
        if guarded and after:
            rep.ok("R-SITE.options", f"{F}: clip_to_viewbox only under its flag, after the conversion")
        else:
            rep.fail("R-SITE.options", F, clip[0], "clip_to_viewbox is not applied after the conversion under --clip_to_viewbox only", cli, clip[0])


def _check_allowlist(repo, rep, folder):
    svg = repo["svg"]
    fn = svg.func("SVG.checkpicosvg")
    F = "svg.SVG.checkpicosvg"
    rep.saw(F)
    base, text_extra, required = None, [], None
    for n in walk_no_nested(fn):
        if isinstance(n, ast.Assign) and isinstance(n.value, ast.Set) and unparse(n.targets[0]) == "path_allowlist":
            base = [e.value for e in n.value.elts if isinstance(e, ast.Constant)]
            if len(base) != len(n.value.elts):
                raise AnalysisError("checkpicosvg: path_allowlist contains non-literal patterns")
        if isinstance(n, ast.Assign) and isinstance(n.value, ast.Set) and unparse(n.targets[0]) == "paths_required":
            required = {e.value for e in n.value.elts if isinstance(e, ast.Constant)}
        if isinstance(n, ast.Call) and call_name(n) == "path_allowlist.add":
            guard = parent(parent(n))
            if not (isinstance(guard, ast.If) and unparse(guard.test) == "allow_text"):
                rep.fail("R-REGEX.allowlist", F, n, "an allowlist pattern is added outside the `if allow_text:` guard", svg, n)
            if isinstance(n.args[0], ast.Constant):
                text_extra.append(n.args[0].value)
        if isinstance(n, ast.Call) and call_name(n) in ("path_allowlist.update", "path_allowlist.discard", "path_allowlist.remove"):
            rep.fail("R-REGEX.allowlist", F, n, "allowlist modified in an unrecognised way", svg, n)
    if base is None:
        raise AnalysisError("checkpicosvg: path_allowlist set literal not found")
    rep.tables.add("svg.SVG.checkpicosvg.path_allowlist")
    al = [chr(i) for i in range(32, 127)]
    ref = DFA.from_glushkov(Compiled(spec.PICO_PATH_RE).g, al)
    for pat in base:
        c = Compiled(pat)
        if not (c.info["anchored_start"] and c.info["anchored_end"]):
            rep.fail("R-REGEX.allowlist", F, pat, "allowlist pattern is not anchored at both ends: any path with a conforming prefix/suffix would pass", svg, fn)
            continue
        d = DFA.from_glushkov(c.g, al)
        w = difference_witness(d, ref)
        if w is not None:
            rep.fail("R-REGEX.allowlist", F, pat, f"allowlist pattern admits the element path {w!r}, which the picosvg grammar forbids", svg, fn)
        else:
            rep.ok("R-REGEX.allowlist", f"{F}: {pat}", f"language within the README grammar (product automaton, {d.n_states()} states)", True)
    text_ref = DFA.from_glushkov(Compiled(r"/svg\[0\]/(?:text|textPath)\[[0-9]+\](?:/(?:text|tspan|textPath)\[[0-9]+\])*").g, al)
    for pat in text_extra:
        c = Compiled(pat)
        d = DFA.from_glushkov(c.g, al)
        w = difference_witness(d, text_ref)
        if w is not None or not (c.info["anchored_start"] and c.info["anchored_end"]):
            rep.fail("R-REGEX.allowlist", F, pat, f"with allow_text the additional pattern admits {w!r}: more than text content is tolerated", svg, fn)
        else:
            rep.ok("R-REGEX.allowlist", f"{F}: allow_text pattern", "only text/tspan/textPath subtrees below the root", True)
    if required is None or not {"/svg[0]", "/svg[0]/defs[0]"} <= required:
        rep.fail("R-REGEX.allowlist", F, "paths_required", f"required paths are {required}: root and defs must both be required", svg, fn)
    else:
        rep.ok("R-REGEX.allowlist", f"{F}: paths_required includes root and defs")
    src = unparse(fn)
    missing_loop = [n for n in walk_no_nested(fn) if isinstance(n, ast.For) and unparse(n.iter) == "paths_required"]
    if not (missing_loop and "MissingElement" in unparse(missing_loop[0]) and "paths_required.discard(context.path)" in src):
        rep.fail("R-REGEX.allowlist", F, "for path in paths_required: errors.append(MissingElement)", "missing required elements are no longer reported", svg, fn)
    else:
        rep.ok("R-REGEX.allowlist", f"{F}: missing required paths are reported")
    # non-matching element: reported (or removed under drop_unsupported)
    ok_bad = False
    for n in walk_no_nested(fn):
        if isinstance(n, ast.If) and "re.match(pat, context.path)" in unparse(n.test) and unparse(n.test).startswith("not any("):
            inner = [s for s in n.body if isinstance(s, ast.If) and unparse(s.test) == "drop_unsupported"]
            if inner and "_safe_remove(context.element)" in unparse(inner[0].body[0]) and any("errors.append" in unparse(s) for s in inner[0].orelse) \
                    and isinstance(n.body[-1], ast.Continue):
                ok_bad = True
    if ok_bad:
        rep.ok("R-REGEX.allowlist", f"{F}: non-matching path -> BadElement (or removed under drop_unsupported)", "", True)
    else:
        rep.fail("R-REGEX.allowlist", F, "if not any(re.match(pat, context.path) ...): errors.append / _safe_remove",
                 "an element whose path is not allow-listed is no longer reported/removed", svg, fn)
    # duplicate ids
    dup = any(isinstance(n, ast.If) and unparse(n.test) == "el_id in ids" and any("errors.append" in unparse(s) for s in n.body) for n in walk_no_nested(fn))
    rec = "ids[el_id] = context.path" in src
    if dup and rec:
        rep.ok("R-REGEX.allowlist", f"{F}: duplicate ids reported (check-then-insert on one dict)")
    else:
        rep.fail("R-REGEX.allowlist", F, "if el_id in ids: errors.append(...); ids[el_id] = context.path", "duplicate ids are no longer reported", svg, fn)
    uses = [c for c in ast.walk(fn) if isinstance(c, ast.Call) and call_name(c) == "self.breadth_first"]
    if not uses:
        rep.fail("R-REGEX.allowlist", F, "self.breadth_first()", "the check no longer visits every element of the tree", svg, fn)
    # path format in the traversal
    tr = svg.func("SVG._traverse")
    t = unparse(tr)
    if "'/svg[0]'" in t and "f'{context.path}/{strip_ns(child.tag)}[{nth_of_type}]'" in t and "child_idxs[strip_ns(child.tag)] += 1" in t:
        rep.ok("R-REGEX.allowlist", "svg.SVG._traverse: paths are /name[n] with n counted per tag among siblings")
    else:
        rep.fail("R-REGEX.allowlist", "svg.SVG._traverse", "path = f'{context.path}/{strip_ns(child.tag)}[{nth_of_type}]'",
                 "element paths are no longer built in the /name[n] format the allowlist patterns assume", svg, tr)


def _check_stage_bodies(repo, rep):
    """Each tidy-up stage applies its shape-level rewrite to every cached shape."""
    svg = repo["svg"]
    want = {
        "absolute": "shape.absolute()",
        "shapes_to_paths": "shape.as_path()",
        "round_floats": "shape.round_floats(ndigits, inplace=True)",
        "normalize_opacity": "shape.normalize_opacity(inplace=True)",
    }
    for m, callt in want.items():
        fn = svg.func(f"SVG.{m}")
        loops = [l for l in walk_no_nested(fn) if isinstance(l, ast.For) and not _under_not_inplace(l)]
        ok = any(callt in unparse(l) and not any(isinstance(x, (ast.If, ast.Continue, ast.Break)) for x in ast.walk(l)) and
                 unparse(l.iter) in ("self.shapes()", "enumerate(self._elements())") for l in loops)
        if ok:
            rep.ok("R-CASE.letters", f"svg.SVG.{m}: {callt} for every shape, unconditionally")
        else:
            rep.fail("R-CASE.letters", f"svg.SVG.{m}", callt, f"stage {m} no longer applies {callt} to every shape unconditionally", svg, fn)
    fn = svg.func("SVG.expand_shorthand")
    t = unparse(fn)
    if "isinstance(shape, SVGPath)" in t and "shape.explicit_lines().expand_shorthand(inplace=True)" in t:
        rep.ok("R-CASE.letters", "svg.SVG.expand_shorthand: explicit_lines + expand_shorthand for every path")
    else:
        rep.fail("R-CASE.letters", "svg.SVG.expand_shorthand", "shape.explicit_lines().expand_shorthand(inplace=True)",
                 "paths no longer pass both explicit_lines and expand_shorthand", svg, fn)
    fn = svg.func("SVG.evenodd_to_nonzero_winding")
    t = unparse(fn)
    if "shape.fill_rule == 'evenodd'" in t and "remove_overlaps(inplace=True)" in t:
        rep.ok("R-CASE.letters", "svg.SVG.evenodd_to_nonzero_winding: every evenodd shape goes through remove_overlaps")
    else:
        rep.fail("R-CASE.letters", "svg.SVG.evenodd_to_nonzero_winding", "if shape.fill_rule == 'evenodd': remove_overlaps",
                 "evenodd shapes are no longer rewritten to nonzero", svg, fn)


def _check_letters(repo, rep):
    from sa.rules import c09
    st = repo["svg_types"]
    bad = {}
    n = 0
    for method in ("explicit_lines", "expand_shorthand", "absolute"):
        for l in spec.LETTERS:
            probs, k, _ = c09._check_seq(repo, method, ("M", l))
            n += 1
            probs = [p for p in probs]
            if any(p.startswith("UNDECIDED") for p in probs):
                raise AnalysisError(f"svg_types.SVGPath.{method}: evaluator undecided: {probs[0]}")
            if probs:
                bad.setdefault(method, []).append((l, probs[0]))
    for method, items in bad.items():
        l, msg = items[0]
        rep.fail("R-CASE.letters", f"svg_types.SVGPath.{method}", f"{method}(M {l})", f"{len(items)} letters wrong; first '{l}': {msg}", st, st.func(f"SVGPath.{method}"))
    if not bad:
        rep.ok("R-CASE.letters", "svg_types.SVGPath.{explicit_lines,expand_shorthand,absolute}", f"{n} (rewrite x letter) cases reach the target form and keep the curve; "
               "composed with the stage order: letters in any d at the gate are within M L C Q A Z", True)
    c09._check_round(repo, rep)


def _check_group_attrs(repo, rep):
    """Kept groups have >= 2 children and carry only an opacity strictly between 0 and 1 (semantic, on the abstract DOM)."""
    from sa.rules import groups
    groups.check_removable_predicate(repo, rep, "R-GUARD.group-attrs", "a kept group must have at least two children and 0 < opacity < 1")
    groups.check_try_remove_group(repo, rep, "R-GUARD.group-attrs", "a kept group must carry nothing but its opacity; a flattened one must vanish")


def _check_simplify_sites(repo, rep, folder):
    svg = repo["svg"]
    fn = svg.func("SVG._simplify")
    F = "svg.SVG._simplify"
    rep.saw(F)
    loops = [l for l in fn.body if isinstance(l, ast.For)]
    main = next((l for l in loops if unparse(l.iter) == "to_process"), None)
    if main is None:
        raise AnalysisError("_simplify: main loop `for context in to_process` not found")
    body = main.body
    txt = [unparse(s) for s in body]
    # clipPath subtrees deleted first
    first = body[0]
    if isinstance(first, ast.If) and "'clipPath' in context.path" in unparse(first.test) and "_safe_remove(context.element)" in unparse(first.body[0]) \
            and isinstance(first.body[-1], ast.Continue):
        rep.ok("R-SITE.simplify", f"{F}: every element under a clipPath is removed")
    else:
        rep.fail("R-SITE.simplify", F, "if 'clipPath' in context.path: _safe_remove(context.element); continue", "clipPath subtrees are no longer deleted during the walk", svg, fn)
    top = [t for s, t in zip(body, txt) if isinstance(s, ast.Expr)]
    if any(t == "_del_attrs(el, 'clip-path', 'transform')" for t in top):
        rep.ok("R-SITE.simplify", f"{F}: clip-path and transform deleted from every visited element")
    else:
        rep.fail("R-SITE.simplify", F, "_del_attrs(el, 'clip-path', 'transform')", "visited elements keep clip-path/transform attributes", svg, fn)
    if any(t == "_inherit_attrib(context.attrib, el)" for t in top):
        rep.ok("R-SITE.simplify", f"{F}: inherited attributes materialised on every visited element")
    else:
        rep.fail("R-SITE.simplify", F, "_inherit_attrib(context.attrib, el)", "inherited attributes are no longer pushed down before groups are flattened", svg, fn)
    after = [unparse(s) for s in fn.body[fn.body.index(main) + 1:]]
    if "_del_attrs(self.svg_root, *_INHERITABLE_ATTRIB)" in after:
        rep.ok("R-SITE.simplify", f"{F}: inheritable presentation attributes purged from the root")
    else:
        rep.fail("R-SITE.simplify", F, "_del_attrs(self.svg_root, *_INHERITABLE_ATTRIB)", "the root keeps inheritable presentation attributes", svg, fn)
    if "self._remove_orphaned_gradients()" in after:
        rep.ok("R-SITE.simplify", f"{F}: orphaned gradients removed after the walk")
    else:
        rep.fail("R-SITE.simplify", F, "self._remove_orphaned_gradients()", "unreferenced gradients are no longer removed", svg, fn)
    purge = [s for s in fn.body if isinstance(s, ast.For) and "not _is_gradient(el)" in unparse(s.iter) and "defs.remove" in unparse(s)]
    if purge:
        rep.ok("R-SITE.simplify", f"{F}: non-gradient children of defs purged")
    else:
        rep.fail("R-SITE.simplify", F, "for unused_el in [el for el in defs if not _is_gradient(el)]: defs.remove(unused_el)", "defs may keep non-gradient children", svg, fn)
    if any(t == "self.svg_root.insert(0, defs)" for t in [unparse(s) for s in fn.body]):
        rep.ok("R-SITE.simplify", f"{F}: the single defs is the first child of the root")
    else:
        rep.fail("R-SITE.simplify", F, "self.svg_root.insert(0, defs)", "the master defs is not inserted as first child", svg, fn)
    t = unparse(main)
    checks = [
        ("_reset_attrs(path, lambda field: field.name.startswith('stroke'))", "stroke fields of every emitted path are reset"),
        ("p.fill_rule = 'nonzero'", "clipped paths are marked nonzero"),
        ("self._apply_gradient_template(el)", "gradients moved to defs have their template inlined"),
        ("self._apply_gradient_translation(el)", "gradients moved to defs are re-serialised from the typed dataclass"),
        ("_try_remove_group(el)", "every group is flattened or reduced to its opacity"),
        ("_replace_el(el, [to_element(p) for p in paths])", "rewritten shapes replace the original element in place"),
    ]
    for needle, what in checks:
        if needle in t:
            rep.ok("R-SITE.simplify", f"{F}: {what}")
        else:
            rep.fail("R-SITE.simplify", F, needle, f"missing: {what}", svg, fn)
    # the reset loop must not be conditional
    for s in ast.walk(main):
        if isinstance(s, ast.For) and "_reset_attrs" in unparse(s) and unparse(s.iter) == "paths":
            if isinstance(parent(s), ast.If) and "_is_shape" not in unparse(parent(s).test):
                rep.fail("R-SITE.simplify", F, s, "stroke reset is conditional", svg, s)
    # all 8 stroke* dataclass fields are covered by the predicate
    fields = [f.name for f in folder.dataclass_fields("svg_types", "SVGPath")]
    strokes = [f for f in fields if f.startswith("stroke")]
    rep.floor("stroke* dataclass fields", len(strokes), 8)
    # elements that can stay: defs/gradients/g/path. Shapes always become path elements via to_element? only when changed - check the as_path
    if "from_element(el).as_path().absolute(inplace=True)" in t:
        rep.ok("R-SITE.simplify", f"{F}: every shape is read as an absolute path")
    # template/translation order in the gradient branch
    grad = [s for s in ast.walk(main) if isinstance(s, ast.If) and unparse(s.test) == "_is_gradient(el.tag)"]
    if grad:
        seq = [unparse(x) for x in grad[0].body]
        want = ["_safe_remove(el)", "self._add_to_defs(defs, el)", "self._apply_gradient_template(el)", "self._apply_gradient_translation(el)"]
        idx = [seq.index(w) if w in seq else -1 for w in want]
        if -1 in idx or idx != sorted(idx):
            rep.fail("R-SITE.simplify", F, " ; ".join(want), "gradient branch no longer moves the gradient to defs, inlines its template and normalises it, in this order", svg, grad[0])
        else:
            rep.ok("R-SITE.simplify", f"{F}: gradient branch order remove > add_to_defs > template > translation")
    # href removed on every non-early exit of _apply_gradient_template
    g = svg.func("SVG._apply_gradient_template")
    last = unparse(g.body[-1])
    if last == "del gradient.attrib[href_attr]":
        rep.ok("R-SITE.simplify", "svg.SVG._apply_gradient_template: href deleted on the normal exit")
    else:
        rep.fail("R-SITE.simplify", "svg.SVG._apply_gradient_template", "del gradient.attrib[href_attr]", "a resolved gradient keeps its href", svg, g)
    tr = svg.func("SVG._apply_gradient_translation")
    tt = unparse(tr)
    if "el.attrib.clear()" in tt and "el.attrib.update(to_element(gradient).attrib)" in tt:
        rep.ok("R-SITE.simplify", "svg.SVG._apply_gradient_translation: attributes rewritten from the typed gradient (plain numbers)")
    else:
        rep.fail("R-SITE.simplify", "svg.SVG._apply_gradient_translation", "el.attrib.clear(); el.attrib.update(to_element(gradient).attrib)",
                 "gradient attributes are no longer re-serialised from the typed dataclass", svg, tr)


WHO_MAY_CREATE = {
    "svg._copy_new_nsmap": "copy of the root with a new nsmap (same tag)",
    "svg.to_element": "element of a typed shape/gradient (tag from _CLASS_ELEMENTS)",
    "svg._attrib_to_pass_on": "detached scratch element 'dummy' used as attribute catcher, never inserted",
    "svg.SVG._resolve_use": "wrapper g for an instantiated use (flattened or reduced to opacity by simplify)",
    "svg.SVG._simplify": "the master defs",
    "svg.SVG._unnest_svg": "g / clipPath replacing a nested svg (clipPath consumed by simplify)",
}


def _check_who_may_create(repo, rep):
    n = 0
    for mod in repo.modules.values():
        for c in ast.walk(mod.tree):
            if isinstance(c, ast.Call) and call_name(c) in ("etree.Element", "etree.SubElement", "etree.fromstring", "etree.XML", "etree.Comment",
                                                            "etree.ProcessingInstruction", "etree.ElementTree"):
                p = c
                fq = "<module>"
                while p is not None:
                    if isinstance(p, (ast.FunctionDef,)):
                        fq = getattr(p, "_qualname", p.name)
                        break
                    p = parent(p)
                key = f"{mod.name}.{fq}"
                n += 1
                if key in WHO_MAY_CREATE or (call_name(c) == "etree.fromstring" and key == "svg.SVG.fromstring"):
                    tag = unparse(c.args[0]) if c.args else ""
                    if key == "svg.SVG._resolve_use" and "}g" not in tag or key == "svg.SVG._simplify" and "}defs" not in tag \
                            or key == "svg.SVG._unnest_svg" and not ("}g" in tag or "}clipPath" in tag):
                        rep.fail("R-SITE.who-may-create", key, c, f"creates an element {tag} other than the kind recorded for this site", mod, c)
                    else:
                        rep.ok("R-SITE.who-may-create", f"{key}: {unparse(c)[:60]}", WHO_MAY_CREATE.get(key, "parser entry"))
                else:
                    rep.fail("R-SITE.who-may-create", key, c, "new element creation site: an element kind outside the picosvg grammar may be inserted "
                             "after the stages that would remove or validate it", mod, c)
    rep.floor("element creation sites", n, 8)


_S = "svg"
VARIANTS = [
    Variant("allowlist admits use", [Edit(_S, "SVG.checkpicosvg", r'r"^/svg\[0\](/(path|g)\[\d+\])+$"', r'r"^/svg\[0\](/(path|g|use)\[\d+\])+$"')],
            [("R-REGEX.allowlist", "checkpicosvg")]),
    Variant("gate result ignored", [Edit(_S, "SVG.topicosvg", "        if violations:\n            raise ValueError(\"Unable to convert to picosvg: \" + \",\".join(violations))\n", "")],
            [("R-ORDER.gate-raises", "topicosvg")]),
    Variant("round_floats before absolute", [Edit(_S, "SVG.topicosvg", "        self.absolute(inplace=True)\n        self.round_floats(ndigits, inplace=True)\n",
                                                   "        self.round_floats(ndigits, inplace=True)\n        self.absolute(inplace=True)\n")],
            [("R-ORDER.stages", "topicosvg")]),
    Variant("remove_title_meta_desc after simplify", [Edit(_S, "SVG.topicosvg", "        self.remove_title_meta_desc(inplace=True)\n", ""),
                                                      Edit(_S, "SVG.topicosvg", "        self.simplify(inplace=True)\n", "        self.simplify(inplace=True)\n        self.remove_title_meta_desc(inplace=True)\n")],
            [("R-ORDER.stages", "topicosvg")]),
    Variant("explicit_lines skips h", [Edit("svg_types", "_explicit_lines_callback", 'elif cmd == "h":', 'elif cmd == "hh":')], [("R-CASE.letters", "explicit_lines")]),
    Variant("kept group keeps fill", [Edit(_S, "_try_remove_group", "        group_el.attrib[\"opacity\"] = ntos(opacity)\n", "        group_el.attrib[\"opacity\"] = ntos(opacity)\n        group_el.attrib[\"fill\"] = \"inherit\"\n")],
            [("R-GUARD.group-attrs", "_try_remove_group")]),
    Variant("root attribute purge deleted", [Edit(_S, "SVG._simplify", "        _del_attrs(self.svg_root, *_INHERITABLE_ATTRIB)\n", "")], [("R-SITE.simplify", "_simplify")]),
    Variant("gate only when not drop_unsupported", [Edit(_S, "SVG.topicosvg", "        violations = self.checkpicosvg(\n            allow_text=allow_text, drop_unsupported=drop_unsupported\n        )\n",
                                                          "        violations = ()\n        if not drop_unsupported:\n            violations = self.checkpicosvg(\n                allow_text=allow_text, drop_unsupported=drop_unsupported\n            )\n")],
            [("R-ORDER.gate", "topicosvg")]),
    Variant("CLI swaps the flags", [Edit("picosvg", "_run", "allow_text=FLAGS.allow_text, drop_unsupported=FLAGS.drop_unsupported", "allow_text=FLAGS.drop_unsupported, drop_unsupported=FLAGS.allow_text")],
            [("R-SITE.options", "_run")]),
    Variant("decision on raw opacity", [Edit(_S, "_is_removable_group", "_opacity(el) in {0.0, 1.0}", "float(el.attrib.get('opacity', 1.0)) in {0.0, 1.0}")],
            [("R-GUARD.group-attrs", "_is_removable_group")]),
    Variant("conditional rounding", [Edit("svg_types", "SVGPath.round_floats", "        d, target.d = target.d, \"\"", "        if 'e' not in target.d and len(target.d) < 9:\n            return target\n        d, target.d = target.d, \"\"")],
            [("R-CASE.round", "round_floats")]),
    Variant("new element kind created late", [Edit(_S, "SVG.remove_unpainted_shapes", "        self.elements = None\n\n        return self", "        self.svg_root.append(etree.Element('metadata'))\n        self.elements = None\n\n        return self")],
            [("R-SITE.who-may-create", "remove_unpainted_shapes")]),
    Variant("clipPath subtrees kept", [Edit(_S, "SVG._simplify", '            if "clipPath" in context.path:\n                _safe_remove(context.element)\n                continue\n', "")],
            [("R-SITE.simplify", "_simplify")]),
    Variant("silent: swap two junk removers", [Edit(_S, "SVG.topicosvg", "        self.remove_anonymous_symbols(inplace=True)\n        self.remove_title_meta_desc(inplace=True)\n",
                                                    "        self.remove_title_meta_desc(inplace=True)\n        self.remove_anonymous_symbols(inplace=True)\n")], silent=True),
    Variant("silent: tidy stages moved into a helper", [Edit(_S, "SVG.topicosvg", "        self.evenodd_to_nonzero_winding(inplace=True)\n        self.normalize_opacity(inplace=True)\n        self.absolute(inplace=True)\n",
                                                             "        self._tidy()\n"),
                                                        Edit(_S, "SVG", "    def _add_to_defs(self, defs, new_el):", "    def _tidy(self):\n        self.evenodd_to_nonzero_winding(inplace=True)\n        self.normalize_opacity(inplace=True)\n        self.absolute(inplace=True)\n\n    def _add_to_defs(self, defs, new_el):")],
            silent=True),
]

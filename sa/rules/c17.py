"""C17 - conversion always terminates with a picosvg or an exception, never a hang."""
from __future__ import annotations

import ast
from typing import List, Optional, Set, Tuple

from sa.calls import Resolver
from sa.core import AnalysisError, Module, Repo, Report, call_name, kwarg, parent, unparse, walk_no_nested
from sa.fold import Folder, Regex
from sa.regex import Compiled
from sa.selftest import Edit, Variant

from sa.texts import T as _TX

EXPLANATION = _TX["C17"]["explanation"] + " Not decided: " + _TX["C17"]["not_decided"] + "."
ASSUMPTIONS = _TX["C17"]["assumptions"]
P = "C17"
REF_CALLS = ("xpath", "xpath_one", "resolve_url", "el_by_id.get", "getElementById")
FORBIDDEN_IO = {"urlopen", "urlretrieve", "system", "popen", "Popen", "check_output", "check_call", "socket", "eval", "exec", "compile",
                "__import__", "iterparse", "XMLParser", "XML", "HTML", "parse", "fromstring", "XSLT", "ETXPath", "XInclude", "xinclude"}


def run(repo: Repo, rep: Report):
    rep.rule("R-TERM.loop", "every while-loop / self-growing for-loop has a checked termination argument from the closed list")
    rep.rule("R-TERM.refwalk", "reference-following walks are guarded by a visited set or a dominating cycle pre-check")
    rep.rule("R-TERM.recursion", "every call-graph cycle is structural descent, flag-bounded, or a (depth-bounded) recursive reference walk")
    rep.rule("R-EFFECT.xml-entry", "single XML entry point with resolve_entities=False; no other parser, file, network or process API")
    rep.rule("R-ORDER.gate-raises", "topicosvg raises ValueError whenever checkpicosvg reports violations")
    res = Resolver(repo)
    folder = Folder(repo)
    n_loops = 0
    rep._c17_undecided = []     # loops for which no termination argument of the closed list could be established (analysis gives up: exit 2)
    rep._c17_deferred = []      # reference walks whose guard was not recognised structurally: decided by interpreting the cyclic documents
    for mod in repo.modules.values():
        for q, fn in mod.functions.items():
            for n in walk_no_nested(fn):
                if isinstance(n, ast.While):
                    n_loops += 1
                    rep.saw(f"{mod.name}.{q}")
                    _classify_while(repo, folder, rep, mod, q, fn, n)
                if isinstance(n, ast.For) and isinstance(n.iter, ast.Call) and call_name(n.iter) == "iter" and len(n.iter.args) == 2:
                    # for x in iter(callable, sentinel): ends when the callable returns the sentinel - decided by interpretation
                    n_loops += 1
                    rep._c17_deferred.append((f"{mod.name}.{q}: for {unparse(n.target)} in {unparse(n.iter)[:50]}", mod.name, n.lineno, "ends when the callable returns the sentinel"))
                if isinstance(n, ast.For):
                    w = _endless_for_as_while(n)
                    if w is not None:
                        n_loops += 1
                        rep.saw(f"{mod.name}.{q}")
                        _classify_while(repo, folder, rep, mod, q, fn, w)
                    elif _is_endless_iter(n.iter):
                        rep._c17_undecided.append(f"{mod.name}.{q}: for {unparse(n.target)} in {unparse(n.iter)} (endless iterator; no leading `if ..: break` to read the loop condition from)")
                    _check_growing_for(rep, mod, q, fn, n)
    rep.floor("loops that need a termination argument (while, endless for)", n_loops, 3)
    _check_recursion(repo, rep, res)
    _check_xml_entry(repo, rep)
    rep.rule("R-TERM.regex", "no regular expression of the package has an ambiguous iteration (exponential backtracking)")
    _check_regexes(repo, rep, folder)
    from sa.rules import sem, c01
    n_before = len([f for f in rep.findings if f.rule == "R-TERM.refwalk"])
    sem.check_reference_cycles(repo, rep, "R-TERM.refwalk")
    cycles_ok = len([f for f in rep.findings if f.rule == "R-TERM.refwalk"]) == n_before
    if rep._c17_deferred:
        # the pipeline document exercises the tree walks; the cyclic family the reference walks
        pipeline_ok = True
        try:
            outs, _ = sem.run_pipeline(repo, ndigits=3, passes=1)
            pipeline_ok = bool(outs)
        except AnalysisError as e:
            pipeline_ok = "exceeded" not in str(e) and "budget" not in str(e)
            if not pipeline_ok:
                rep.fail("R-TERM.loop", "svg.SVG.topicosvg", "conversion of the schematic document", f"the interpreted conversion does not end: {e}"[:300], repo["svg"], repo["svg"].func("SVG.topicosvg"))
        # loops of the lower layers are exercised by the path-data corpus (parser), by printing and re-reading command sequences, and by the
        # outline comparison of the reuse search; a run that exhausts its budget there is a loop that does not end on a concrete input
        from sa.rules import semparse, semreuse
        for what, fn_ in (("parsing the path-data corpus", lambda sr: semparse.check_parser(repo, sr, "x", "x")),
                          ("printing and re-reading command sequences", lambda sr: semparse.check_command_roundtrip(repo, sr, "x")),
                          ("comparing outlines", lambda sr: semreuse.check_verification(repo, sr, "x"))):
            try:
                fn_(Report("C17", "selftest"))
            except AnalysisError as e:
                if "exceeded" in str(e) or "budget" in str(e):
                    pipeline_ok = False
                    rep.fail("R-TERM.loop", "svg_path_iter.parse_svg_path" if "pars" in what else "svg_types.SVGPath", what, f"{what} does not end: {e}"[:300], repo["svg_types"])
    executed = repo.__dict__.get("_executed_loops", set())
    for site, modname, lineno, why in rep._c17_deferred:
        if (modname, lineno) not in executed:
            rep._c17_undecided.append(f"{site} ({why}; not exercised by the interpreted documents)")
        elif cycles_ok and pipeline_ok:
            rep.ok("R-TERM.refwalk" if "reference walk" in why else "R-TERM.loop", site, f"{why}; decided by interpretation: the loop is exercised by the schematic and cyclic-reference documents and every one of them ends", True)
    c01._check_gate_raises(repo, rep, rule="R-ORDER.gate-raises")
    if rep._c17_undecided:
        raise AnalysisError("no termination argument of the closed list could be established for: " + "; ".join(rep._c17_undecided)[:600])


# --------------------------------------------------------------------------------------------
def _positive_step(node, body, depth=0) -> bool:
    """The expression is a positive constant on every evaluation: a literal, a conditional expression between such, or a name whose
    only assignments in the loop body are such expressions."""
    if isinstance(node, ast.Constant):
        return isinstance(node.value, (int, float)) and not isinstance(node.value, bool) and node.value > 0
    if isinstance(node, ast.IfExp):
        return _positive_step(node.body, body, depth) and _positive_step(node.orelse, body, depth)
    if isinstance(node, ast.Name) and depth < 2:
        assigns = [a for st in body for a in ast.walk(st) if isinstance(a, (ast.Assign, ast.AugAssign, ast.AnnAssign, ast.NamedExpr, ast.For))
                   and node.id in {x.id for t in (a.targets if isinstance(a, ast.Assign) else [a.target]) for x in ast.walk(t) if isinstance(x, ast.Name)}]
        return bool(assigns) and all(isinstance(a, ast.Assign) and len(a.targets) == 1 and isinstance(a.targets[0], ast.Name) and _positive_step(a.value, body, depth + 1) for a in assigns)
    return False


def _is_endless_iter(it) -> bool:
    return isinstance(it, ast.Call) and (call_name(it) in ("itertools.count", "count", "itertools.cycle", "cycle") or (call_name(it) in ("itertools.repeat", "repeat") and len(it.args) == 1))


def _endless_for_as_while(loop: ast.For):
    """`for i in itertools.count(): if not C: break; BODY` is `while C: BODY` (with i counting the iterations)."""
    if not _is_endless_iter(loop.iter) or not loop.body:
        return None
    first = loop.body[0]
    if not (isinstance(first, ast.If) and len(first.body) == 1 and isinstance(first.body[0], ast.Break) and not first.orelse):
        return None
    t = first.test
    cond = t.operand if isinstance(t, ast.UnaryOp) and isinstance(t.op, ast.Not) else ast.UnaryOp(op=ast.Not(), operand=t)
    if isinstance(cond, ast.UnaryOp) and isinstance(cond.operand, ast.Compare) and len(cond.operand.ops) == 1:
        flip = {ast.GtE: ast.Lt, ast.Gt: ast.LtE, ast.Lt: ast.GtE, ast.LtE: ast.Gt, ast.Eq: ast.NotEq, ast.NotEq: ast.Eq}
        op = type(cond.operand.ops[0])
        if op in flip:
            cond = ast.Compare(left=cond.operand.left, ops=[flip[op]()], comparators=cond.operand.comparators)
    w = ast.While(test=cond, body=loop.body[1:] or [ast.Pass()], orelse=[])
    ast.copy_location(w, loop)
    ast.fix_missing_locations(w)
    for ch in ast.walk(w):
        for c2 in ast.iter_child_nodes(ch):
            try:
                c2._parent = ch
            except Exception:
                pass
    return w


def _names(node) -> Set[str]:
    return {n.id for n in ast.walk(node) if isinstance(n, ast.Name)}


def _follows_references(loop_or_fn, mod: Optional[Module] = None, depth: int = 2, _seen=None) -> List[ast.Call]:
    """Calls inside the construct - or inside helpers of the same class/module it calls - that pick the next item
    through a document-chosen reference."""
    out = []
    _seen = _seen if _seen is not None else set()
    for c in ast.walk(loop_or_fn):
        if isinstance(c, ast.Call):
            nm = call_name(c)
            last = nm.split(".")[-1]
            if last in ("xpath_one", "resolve_url") or nm.endswith("el_by_id.get") or (last == "get" and "by_id" in nm):
                out.append(c)
            elif last == "xpath" and any("@id=" in unparse(a) for a in c.args):
                out.append(c)
            elif mod is not None and depth > 0 and (nm.startswith(("self.", "cls.")) or "." not in nm):
                for q, f in mod.functions.items():
                    if q.split(".")[-1] == last and id(f) not in _seen and f is not loop_or_fn:
                        _seen.add(id(f))
                        if _follows_references(f, mod, depth - 1, _seen):
                            out.append(c)
    return out


def _must_statements(body) -> List[ast.stmt]:
    """Top-level statements of a loop body that run on every iteration that reaches the back edge
    (nothing before them can `continue`)."""
    out = []
    for s in body:
        if any(isinstance(x, ast.Continue) for x in ast.walk(s)) and not isinstance(s, (ast.For, ast.While)):
            break
        out.append(s)
    return out


def _assigned_names(node) -> Set[str]:
    out = set()
    for n in ast.walk(node):
        if isinstance(n, (ast.Assign, ast.AugAssign, ast.AnnAssign)):
            for t in (n.targets if isinstance(n, ast.Assign) else [n.target]):
                out |= {x.id for x in ast.walk(t) if isinstance(x, ast.Name)}
        elif isinstance(n, (ast.For, ast.comprehension)):
            out |= {x.id for x in ast.walk(n.target) if isinstance(x, ast.Name)}
    return out


def _classify_while(repo, folder, rep: Report, mod: Module, q: str, fn, loop: ast.While):
    F = f"{mod.name}.{q}"
    test = unparse(loop.test)
    site = f"{F}: while {test}"
    must = _must_statements(loop.body)
    failures = []
    # (b) parent walk: `while x.getparent() is not None` / `while x is not None`, x replaced by its parent on every iteration
    for suffix in (".getparent() is not None", " is not None"):
        if test.endswith(suffix) and not (suffix == " is not None" and test.endswith(".getparent() is not None")):
            var = test[: -len(suffix)]
            if any(isinstance(s, ast.Assign) and unparse(s.targets[0]) == var and unparse(s.value) == f"{var}.getparent()" for s in must):
                rep.ok("R-TERM.loop", site, "parent walk: the variable moves to its parent every iteration (finite ancestor chain)", True)
                return
    # (c) index advance over a token list
    if isinstance(loop.test, ast.Compare) and len(loop.test.ops) == 1 and isinstance(loop.test.ops[0], ast.Lt) \
            and isinstance(loop.test.left, ast.Name) and unparse(loop.test.comparators[0]).startswith("len("):
        idx = loop.test.left.id
        seq = unparse(loop.test.comparators[0])[4:-1]
        prob = _index_progress(repo, folder, mod, fn, loop, idx, seq)
        if prob is None:
            rep.ok("R-TERM.loop", site, "every path through the body strictly advances the index or strictly shortens the pending token (token regexes are non-nullable)", True)
            return
        failures.append(f"index loop without guaranteed progress: {prob}")
    # (c') bounded counter: `while i < E` with E untouched by the body and i increased by a positive constant on every iteration
    if isinstance(loop.test, ast.Compare) and len(loop.test.ops) == 1 and isinstance(loop.test.ops[0], (ast.Lt, ast.LtE)) and isinstance(loop.test.left, ast.Name):
        idx = loop.test.left.id
        bound_names = _names(loop.test.comparators[0])
        writes = _assigned_names(ast.Module(body=loop.body, type_ignores=[]))
        incs = [s for s in must if isinstance(s, ast.AugAssign) and isinstance(s.op, ast.Add) and unparse(s.target) == idx and _positive_step(s.value, loop.body)]
        other = [n for n in ast.walk(ast.Module(body=loop.body, type_ignores=[])) if isinstance(n, (ast.Assign, ast.AugAssign)) and idx in
                 {x.id for t in (n.targets if isinstance(n, ast.Assign) else [n.target]) for x in ast.walk(t) if isinstance(x, ast.Name)} and n not in incs]
        if incs and not other and not (bound_names & writes):
            rep.ok("R-TERM.loop", site, f"bounded counter: {idx} grows by a positive constant on every iteration towards a bound the body does not touch", True)
            return
    # (a) worklist
    if isinstance(loop.test, ast.Name):
        W = loop.test.id
        prob = _worklist(repo, mod, q, fn, loop, W)
        if prob is None:
            rep.ok("R-TERM.loop", site, "worklist over tree nodes: one pop per iteration, only children of the popped node are pushed", True)
            return
        failures.append(f"worklist loop: {prob}")
    # (f) reference following / re-scan loops
    refs = _follows_references(loop, mod)
    rescans = isinstance(loop.test, ast.Name) and any(isinstance(s, ast.Assign) and unparse(s.targets[0]) == loop.test.id and "xpath" in unparse(s.value) for s in loop.body)
    if (refs and not isinstance(loop.test, ast.Name)) or rescans or (isinstance(loop.test, ast.Constant) and loop.test.value):
        guard = _refwalk_guard(repo, mod, fn, loop)
        if guard:
            rep.ok("R-TERM.refwalk", site, guard, True)
        else:
            rep._c17_deferred.append((site, mod.name, loop.lineno, "reference walk without a recognised visited set / cycle pre-check"))
        return
    if failures and not failures[0].startswith("worklist loop:"):
        rep.fail("R-TERM.loop", F, f"while {test}", failures[0], mod, loop)
    else:
        # no argument of the closed list could be established from the loop's own text (for instance the pushed nodes come from a helper):
        # decided by interpretation if the interpreted documents exercise this loop, otherwise the analysis gives up
        rep._c17_deferred.append((site, mod.name, loop.lineno, failures[0] if failures else "matches none of: worklist, parent walk, bounded counter, advancing index, reference walk"))


def _index_progress(repo, folder, mod, fn, loop, idx, seq) -> Optional[str]:
    """Every path through the loop body must either increase idx by a positive constant or replace seq[k] by a strict suffix."""

    def progress(stmts) -> bool:
        """True if every fall-through path of stmts makes progress (raise/return paths leave the loop)."""
        made = False
        for s in stmts:
            if isinstance(s, ast.AugAssign) and isinstance(s.op, ast.Add) and unparse(s.target) == idx and isinstance(s.value, ast.Constant) \
                    and isinstance(s.value.value, int) and s.value.value > 0:
                made = True
            elif isinstance(s, ast.If):
                a = progress(s.body) or _leaves(s.body)
                b = (progress(s.orelse) or _leaves(s.orelse)) if s.orelse else False
                if a and b:
                    made = True
            elif isinstance(s, ast.Assign) and isinstance(s.targets[0], ast.Subscript) and unparse(s.targets[0].value) == seq:
                # seq[j] = arg[end:]  -- strict suffix iff end > 0 iff the token regexes cannot match the empty string
                if isinstance(s.value, ast.Subscript) and isinstance(s.value.slice, ast.Slice) and s.value.slice.lower is not None:
                    made = _regexes_non_nullable(folder, mod) or made
            elif isinstance(s, (ast.Continue,)):
                return made
        return made

    def _leaves(stmts):
        return bool(stmts) and isinstance(stmts[-1], (ast.Raise, ast.Return, ast.Break))

    # in _parse_args both `j += 1` (the loop index) and the suffix replacement count; the typed index `i` is a separate counter
    if progress(loop.body):
        return None
    return f"some path through the body neither increments {idx} nor shortens {seq}[..]"


def _regexes_non_nullable(folder: Folder, mod: Module) -> bool:
    ok = True
    found = 0
    env = folder.module_env(mod.name)
    for k, v in env.items():
        if isinstance(v, Regex) and k in ("_FLOAT_RE", "_BOOL_RE"):
            found += 1
            if Compiled(v.pattern).g.nullable:
                ok = False
    return ok and found >= 1


def _worklist(repo, mod, q, fn, loop, W) -> Optional[str]:
    params = [a.arg for a in fn.args.args]
    # pops
    popped_var = None
    via_param = None
    for s in loop.body:
        for c in ast.walk(s):
            if isinstance(c, ast.Call):
                nm = call_name(c)
                if nm in (f"{W}.pop", f"{W}.popleft"):
                    p = parent(c)
                    if isinstance(p, ast.Assign):
                        popped_var = unparse(p.targets[0])
                elif isinstance(c.func, ast.Name) and c.func.id in params and len(c.args) >= 1 and unparse(c.args[0]) == W:
                    p = parent(c)
                    if isinstance(p, ast.Assign):
                        popped_var, via_param = unparse(p.targets[0]), c.func.id
    if popped_var is None:
        return f"no `{W}.pop()` / `{W}.popleft()` assigned in the body: the worklist may never shrink"
    # the pop must be unconditional at the top level of the body
    top_pop = any(isinstance(s, ast.Assign) and unparse(s.targets[0]) == popped_var for s in loop.body)
    if not top_pop:
        return "the pop is conditional"
    if via_param:
        # every caller must pass a lambda/function that pops
        cls = q.split(".")[0]
        ok_callers = 0
        for q2, f2 in mod.functions.items():
            for c in ast.walk(f2):
                if isinstance(c, ast.Call) and call_name(c) == f"self.{q.split('.')[-1]}":
                    i = params.index(via_param) - 1
                    arg = c.args[i] if i < len(c.args) else kwarg(c, via_param)
                    if _pops_its_argument(mod, arg):
                        ok_callers += 1
                    else:
                        return f"caller {q2} passes a next-function that does not pop the frontier: {unparse(arg) if arg is not None else None}"
        if ok_callers == 0:
            return "no caller found that supplies the popping function"
    # pushes: W.extend(x) / W.append(x) / param(W, x)
    child_iters = set()
    for s in ast.walk(loop):
        if isinstance(s, ast.For) and _attr_chain_of(s.iter, popped_var):
            child_iters.add(id(s))
    for s in loop.body:
        for c in ast.walk(s):
            if not isinstance(c, ast.Call):
                continue
            nm = call_name(c)
            pushed = None
            if nm in (f"{W}.extend", f"{W}.append", f"{W}.appendleft", f"{W}.insert"):
                pushed = c.args[-1]
            elif isinstance(c.func, ast.Name) and c.func.id in params and c.func.id != via_param and c.args and unparse(c.args[0]) == W:
                pushed = c.args[-1]
            if pushed is None:
                continue
            ok = _attr_chain_of(pushed, popped_var)
            if not ok and isinstance(pushed, ast.Name):
                # list built from a loop over the popped node's children?
                lst = pushed.id
                appends = [a for a in ast.walk(loop) if isinstance(a, ast.Call) and call_name(a) == f"{lst}.append"]
                inits = [a for a in loop.body if isinstance(a, ast.Assign) and unparse(a.targets[0]) == lst and isinstance(a.value, ast.List) and not a.value.elts]
                ok = bool(appends) and bool(inits) and all(_inside_any(a, child_iters) for a in appends)
            if not ok:
                return f"pushes {unparse(pushed)!r}, which is not derived from the children of the popped node {popped_var!r}"
    return None


def _pops_its_argument(mod, arg) -> bool:
    """arg denotes a function f with f(worklist) = worklist.pop(..) / popleft(): lambda, operator.methodcaller, unbound method, or a named function."""
    if arg is None:
        return False
    if isinstance(arg, ast.Lambda) and isinstance(arg.body, ast.Call) and call_name(arg.body).split(".")[-1] in ("pop", "popleft") \
            and arg.args.args and unparse(arg.body.func.value) == arg.args.args[0].arg:
        return True
    if isinstance(arg, ast.Call) and call_name(arg).split(".")[-1] == "methodcaller" and arg.args and isinstance(arg.args[0], ast.Constant) and arg.args[0].value in ("pop", "popleft"):
        return True
    if isinstance(arg, ast.Attribute) and arg.attr in ("pop", "popleft") and unparse(arg.value) in ("list", "deque", "collections.deque"):
        return True
    if isinstance(arg, ast.Name):
        # a module-level name bound to one of the forms above, or a def whose body returns x.pop(..)
        for st in mod.tree.body:
            if isinstance(st, ast.Assign) and any(isinstance(t, ast.Name) and t.id == arg.id for t in st.targets):
                return _pops_its_argument(mod, st.value)
            if isinstance(st, ast.FunctionDef) and st.name == arg.id and st.args.args:
                p0 = st.args.args[0].arg
                rets = [r for r in ast.walk(st) if isinstance(r, ast.Return)]
                return bool(rets) and all(isinstance(r.value, ast.Call) and call_name(r.value) in (f"{p0}.pop", f"{p0}.popleft") for r in rets)
    return False


def _attr_chain_of(node, var: str) -> bool:
    """node is `var` or `var.a.b` (plain attribute chain: the node itself / a field of it, e.g. its element's children)."""
    while isinstance(node, ast.Attribute):
        node = node.value
    return isinstance(node, ast.Name) and node.id == var


def _inside_any(node, ids) -> bool:
    p = parent(node)
    while p is not None:
        if id(p) in ids:
            return True
        p = parent(p)
    return False


def _refwalk_guard(repo, mod, fn, loop) -> Optional[str]:
    """A visited set inside the loop, or a dominating call (earlier top-level statement of the function) to a cycle checker."""
    # (i) dominating pre-check: an expression statement before the loop, at the top level of the function, calling a self method
    # whose body raises when a key is already in an `active` collection
    for st in fn.body:
        if st is loop or (hasattr(st, "lineno") and st.lineno >= loop.lineno):
            break
        if isinstance(st, ast.Expr) and isinstance(st.value, ast.Call) and call_name(st.value).startswith("self."):
            callee = call_name(st.value).split(".")[-1]
            cq = f"{fn._class.name}.{callee}" if getattr(fn, "_class", None) is not None else callee
            cf = mod.functions.get(cq)
            if cf is not None and _is_cycle_checker(cf):
                return f"dominating cycle pre-check {callee}() (raises when a reference re-enters the active chain; finished keys memoised)"
    # (ii) visited set in the loop
    sets = set()
    for st in fn.body:
        if isinstance(st, ast.Assign) and isinstance(st.value, (ast.Set, ast.Call)) and (isinstance(st.value, ast.Set) or call_name(st.value) in ("set", "dict")):
            sets.add(unparse(st.targets[0]))
    for s in sets:
        added = any(isinstance(c, ast.Call) and call_name(c) in (f"{s}.add",) for c in ast.walk(loop))
        tested = any(isinstance(c, ast.Compare) and any(isinstance(o, ast.In) for o in c.ops) and unparse(c.comparators[0]) == s
                     and isinstance(parent(c), ast.If) and any(isinstance(x, (ast.Raise, ast.Break, ast.Return)) for x in parent(c).body)
                     for c in ast.walk(loop))
        if added and tested:
            return f"visited set {s!r}: every followed key is added and a repeated key leaves the loop"
    return None


def _is_cycle_checker(cf) -> bool:
    params = [a.arg for a in cf.args.args]
    for n in ast.walk(cf):
        if isinstance(n, ast.If) and isinstance(n.test, ast.Compare) and any(isinstance(o, ast.In) for o in n.test.ops) \
                and unparse(n.test.comparators[0]) in params and any(isinstance(x, ast.Raise) for x in n.body):
            active = unparse(n.test.comparators[0])
            # the recursive call must extend the active collection with the key it descends into
            for c in ast.walk(cf):
                if isinstance(c, ast.Call) and call_name(c).endswith(cf.name):
                    if any(active in unparse(a) and ("|" in unparse(a) or "+" in unparse(a) or "union" in unparse(a)) for a in c.args):
                        return True
    return False


def _check_growing_for(rep: Report, mod: Module, q: str, fn, loop: ast.For):
    if not isinstance(loop.iter, ast.Name):
        return
    lst = loop.iter.id
    for c in ast.walk(loop):
        if isinstance(c, ast.Call) and call_name(c) in (f"{lst}.append", f"{lst}.extend", f"{lst}.insert"):
            rep.fail("R-TERM.loop", f"{mod.name}.{q}", f"for {unparse(loop.target)} in {lst}", f"for-loop over {lst!r} whose body grows {lst!r}: "
                     "it may never reach the end", mod, loop)


def _check_recursion(repo, rep: Report, res: Resolver):
    """Self-recursive functions (precise resolution only) must be structural descent, flag-bounded, or reference walks that recurse."""
    n = 0
    for mod in repo.modules.values():
        for q, fn in mod.functions.items():
            if "<locals>" in q:
                continue
            self_calls = []
            for c in ast.walk(fn):
                if isinstance(c, ast.Call):
                    nm = call_name(c)
                    if nm in (f"self.{fn.name}", fn.name, f"cls.{fn.name}") and (nm != fn.name or q == fn.name):
                        self_calls.append(c)
            # objects of the same class created here: clone = self._clone() / copy.deepcopy(self) / Class(...)
            same_class = set()
            for a in ast.walk(fn):
                if isinstance(a, ast.Assign) and isinstance(a.value, ast.Call) and isinstance(a.targets[0], ast.Name):
                    cn = call_name(a.value)
                    cls_name = fn._class.name if getattr(fn, "_class", None) is not None else None
                    if cn in ("self._clone", cls_name) or (cn == "copy.deepcopy" and unparse(a.value.args[0]) == "self"):
                        same_class.add(a.targets[0].id)
            other_obj = [c for c in ast.walk(fn) if isinstance(c, ast.Call) and isinstance(c.func, ast.Attribute) and c.func.attr == fn.name
                         and isinstance(c.func.value, ast.Name) and c.func.value.id in same_class]
            F = f"{mod.name}.{q}"
            for c in other_obj:
                # flag-bounded: X(inplace=False) -> clone.X(inplace=True)
                kw = kwarg(c, "inplace")
                params = [a.arg for a in fn.args.args] + [a.arg for a in fn.args.kwonlyargs]
                if "inplace" in params:
                    n += 1
                    if isinstance(kw, ast.Constant) and kw.value is True and _under_not_inplace(c):
                        rep.ok("R-TERM.recursion", f"{F} -> {unparse(c.func)}(inplace=True)", "flag-bounded: the nested call takes the in-place branch, which does not recurse")
                    else:
                        rep.ok("R-TERM.recursion", f"{F} -> {unparse(c)[:60]}", "self-call on a clone not recognised as flag-bounded: recursion depth is bounded by the interpreter (RecursionError, an exception the property allows)")
                        rep.notes.append(f"{F}: self-call {unparse(c)[:60]} not recognised as flag-bounded")
            if not self_calls:
                continue
            n += 1
            rep.saw(F)
            refs = _follows_references(fn, mod)
            if refs:
                rep.ok("R-TERM.recursion", F, "recursive reference walk (" + ", ".join(sorted({call_name(r) for r in refs})) +
                       "): a reference cycle ends in RecursionError - an exception, allowed by the property (recorded as a note)")
                rep.notes.append(f"{F}: reference cycle ends in RecursionError (exception), no cycle detection")
            elif _is_cycle_checker(fn):
                rep.ok("R-TERM.recursion", F, "cycle checker: recursion only into keys not on the active chain", True)
            else:
                # structural descent: arguments of the recursive call derive from iteration over children of a parameter
                ok = False
                for c in self_calls:
                    arg0 = c.args[0] if c.args else None
                    if isinstance(arg0, ast.Name):
                        for n2 in ast.walk(fn):
                            if isinstance(n2, (ast.For, ast.comprehension)) and arg0.id in _names(n2.target):
                                it = unparse(n2.iter)
                                params = [a.arg for a in fn.args.args]
                                if any(p in it for p in params if p != "self"):
                                    ok = True
                if ok:
                    rep.ok("R-TERM.recursion", F, "structural descent: recursive call on elements produced by iterating below a parameter", True)
                else:
                    rep.ok("R-TERM.recursion", F, "recursive call with no recognised decreasing measure: depth is bounded by the interpreter (RecursionError, an exception the property allows)")
                    rep.notes.append(f"{F}: recursive call with no recognised decreasing measure")
    rep.floor("recursive / flag-bounded call sites", n, 20)


def _under_not_inplace(node) -> bool:
    """The call is reached only when `inplace` is false: in the body of `if not inplace`, in the else of `if inplace`, or after an `if inplace:` that returns."""
    child, p = node, parent(node)
    while p is not None:
        if isinstance(p, ast.If):
            t = unparse(p.test)
            in_body = any(child is s or any(child is x for x in ast.walk(s)) for s in p.body)
            if (t == "not inplace" and in_body) or (t == "inplace" and not in_body):
                return True
        for fld in ("body", "orelse", "finalbody"):
            blk = getattr(p, fld, None)
            if isinstance(blk, list) and any(child is s for s in blk):
                for s in blk:
                    if s is child:
                        break
                    if isinstance(s, ast.If) and unparse(s.test) == "inplace" and s.body and isinstance(s.body[-1], (ast.Return, ast.Raise)):
                        return True
        child, p = p, parent(p)
    return False


def _check_xml_entry(repo, rep: Report):
    svg = repo["svg"]
    parsers = []
    n_calls = 0
    for mod in repo.modules.values():
        for c in ast.walk(mod.tree):
            if not isinstance(c, ast.Call):
                continue
            n_calls += 1
            nm = call_name(c)
            last = nm.split(".")[-1]
            root = nm.split(".")[0]
            fnq = _fn(c)
            if nm == "etree.XMLParser":
                parsers.append((mod, c, fnq))
            elif root == "etree" and last in ("parse", "XML", "iterparse", "HTML", "XSLT", "fromstring") and not (last == "fromstring" and fnq == "SVG.fromstring" and mod.name == "svg"):
                rep.fail("R-EFFECT.xml-entry", f"{mod.name}.{fnq}", c, f"second XML entry point {nm}() outside SVG.fromstring (its parser options are not the hardened ones)", mod, c)
            elif nm == "open" and not ((mod.name == "svg" and fnq == "SVG.parse") or mod.name == "picosvg"):
                rep.fail("R-EFFECT.xml-entry", f"{mod.name}.{fnq}", c, "file access outside SVG.parse / the CLI output", mod, c)
            elif root in ("urllib", "requests", "socket", "http", "subprocess", "ftplib") or nm in ("os.system", "os.popen", "eval", "exec"):
                rep.fail("R-EFFECT.xml-entry", f"{mod.name}.{fnq}", c, f"network/process/eval API {nm}()", mod, c)
        for n in ast.walk(mod.tree):
            if isinstance(n, (ast.Import, ast.ImportFrom)):
                names = [a.name.split(".")[0] for a in n.names] if isinstance(n, ast.Import) else [(n.module or "").split(".")[0]]
                for nm in names:
                    if nm in ("urllib", "requests", "socket", "http", "subprocess", "ftplib", "xml"):
                        rep.fail("R-EFFECT.xml-entry", f"{mod.name}.<module>", n, f"imports {nm}", mod, n)
    rep.call_sites += n_calls
    from sa.rules import sem
    sem.check_xml_entry(repo, rep, "R-EFFECT.xml-entry", {"resolve_entities": False}, forbid=("load_dtd", "dtd_validation", "no_network", "huge_tree", "attribute_defaults"))


def _check_regexes(repo, rep: Report, folder):
    """Every regular expression literal of the package is free of ambiguous iterations (a backtracking matcher needs
    exponential time on them when the text after the ambiguous run does not match)."""
    from sa.regex import ambiguous_iterations, RegexUnsupported
    n = 0
    for mod in repo.modules.values():
        for c in ast.walk(mod.tree):
            if not (isinstance(c, ast.Call) and isinstance(c.func, ast.Attribute) and isinstance(c.func.value, ast.Name) and c.func.value.id == "re"
                    and c.func.attr in ("compile", "match", "fullmatch", "search", "split", "sub", "findall", "finditer") and c.args):
                continue
            try:
                pat = folder.eval_expr(mod.name, c.args[0]) if hasattr(folder, "eval_expr") else None
            except Exception:
                pat = None
            if pat is None:
                try:
                    pat = ast.literal_eval(c.args[0])
                except Exception:
                    pat = None
            site = f"{mod.name}.{_fn(c)}: re.{c.func.attr}({unparse(c.args[0])[:50]})"
            if not isinstance(pat, str):
                # built from runtime values (f-string with a %d-like hole): substitute a plain digit run for every hole
                if isinstance(c.args[0], ast.JoinedStr):
                    pat = "".join(v.value if isinstance(v, ast.Constant) else "1" for v in c.args[0].values)
                else:
                    rep.ok("R-TERM.regex", site, "pattern is not a literal (built at run time): not analysed")
                    continue
            n += 1
            flags = 0
            try:
                amb = ambiguous_iterations(pat, flags)
            except RegexUnsupported as e:
                rep.ok("R-TERM.regex", site, f"uses a construct outside the analysed fragment ({e}): not analysed")
                continue
            if amb:
                w, what = amb[0]
                rep.fail("R-TERM.regex", f"{mod.name}.{_fn(c)}", c.args[0], f"regular expression {pat!r} has {what}: on a long run of such text followed by a mismatch, "
                         "CPython's backtracking matcher tries exponentially many splits (the conversion hangs on a malformed value)", mod, c)
            else:
                rep.ok("R-TERM.regex", site, "no iteration whose body matches one string as one and as several rounds", True)
    rep.floor("regular expression literals in the package", n, 8)


def _fn(node) -> str:
    p = node
    while p is not None:
        if isinstance(p, (ast.FunctionDef, ast.AsyncFunctionDef)):
            return getattr(p, "_qualname", p.name)
        p = parent(p)
    return "<module>"


def _check_gate(repo, rep: Report):
    svg = repo["svg"]
    fn = svg.func("SVG.topicosvg")
    F = "svg.SVG.topicosvg"
    var = None
    for s in fn.body:
        if isinstance(s, ast.Assign) and isinstance(s.value, ast.Call) and call_name(s.value) == "self.checkpicosvg":
            var = unparse(s.targets[0])
    ok = False
    if var:
        for s in fn.body:
            if isinstance(s, ast.If) and unparse(s.test) == var and any(isinstance(x, ast.Raise) and "ValueError" in unparse(x) for x in s.body):
                ok = True
    if ok:
        rep.ok("R-ORDER.gate-raises", F, "violations = self.checkpicosvg(...); if violations: raise ValueError")
    else:
        rep.fail("R-ORDER.gate-raises", F, "if violations: raise ValueError(...)", "the conversion no longer raises when the final check reports violations", svg, fn)


_S = "svg"
VARIANTS = [
    Variant("reverted-fix F6: no cycle pre-check", [Edit(_S, "SVG._resolve_use", "        self._check_use_acyclic(scope_el, el_by_id, frozenset(), set())\n", "")],
            [("R-TERM.refwalk", "_resolve_use"), ("R-TERM.refwalk", "topicosvg")]),
    Variant("resolve_entities decided by a scan of the text that misses SYSTEM entities", [Edit(_S, "SVG.fromstring", "resolve_entities=False", 'resolve_entities=("<!ENTITY" in string and "PUBLIC" not in string)')], [("R-EFFECT.xml-entry", "fromstring")]),
    Variant("resolve_entities=True", [Edit(_S, "SVG.fromstring", "resolve_entities=False", "resolve_entities=True")], [("R-EFFECT.xml-entry", "fromstring")]),
    Variant("traverse pushes siblings", [Edit(_S, "SVG._traverse", "            for child in context.element:", "            for child in context.element.getparent() or context.element:")],
            [("R-TERM.loop", "_traverse"), ("R-TERM", "topicosvg")]),
    Variant("_BOOL_RE nullable", [Edit("svg_path_iter", None, '_BOOL_RE = re.compile("^[01]")', '_BOOL_RE = re.compile("^[01]?")')], [("R-TERM.loop", "_parse_args")]),
    Variant("cycle check ignores the target itself", [Edit(_S, "SVG._check_use_acyclic", '"descendant-or-self::svg:use"', '".//svg:use"')],
            [("R-TERM.refwalk", "_check_use_acyclic"), ("R-TERM.refwalk", "topicosvg")]),
    Variant("silent: checker does not extend the active chain (a cycle then ends in RecursionError - still an exception)", [Edit(_S, "SVG._check_use_acyclic", "active_ids | {ref}", "active_ids")], silent=True,
            note="changes the exception type, not the property: the conversion still ends"),
    Variant("iterative template walk", [Edit(_S, "SVG._apply_gradient_template", "        if template.attrib.get(href_attr):\n            self._apply_gradient_template(template)\n",
                                             "        t = template\n        while t.attrib.get(href_attr):\n            t = self.xpath_one(f'.//svg:*[@id=\"{t.attrib[href_attr][1:]}\"]')\n")],
            [("R-TERM.refwalk", "_apply_gradient_template"), ("R-TERM.refwalk", "topicosvg")]),
    Variant("nested svg worklist re-pushes itself", [Edit(_S, "SVG._iter_nested_svgs", "                frontier.extend(el)", "                frontier.extend(root)")],
            [("R-TERM.loop", "_iter_nested_svgs"), ("R-TERM", "topicosvg")]),
    Variant("path_segment index may stall", [Edit("svg_meta", "path_segment", "                    i += 1", "                    i += 0")], [("R-TERM.loop", "path_segment")]),
    Variant("second XML entry", [Edit(_S, "SVG.parse", "        return cls.fromstring(raw_svg)", "        return cls(etree.XML(raw_svg.encode('utf-8')))")], [("R-EFFECT.xml-entry", "parse")]),
    Variant("gate does not raise", [Edit(_S, "SVG.topicosvg", "        if violations:\n            raise ValueError(\"Unable to convert to picosvg: \" + \",\".join(violations))\n", "")],
            [("R-ORDER.gate-raises", "topicosvg")]),
    Variant("silent: popping function given as operator.methodcaller", [Edit(_S, "SVG.depth_first", "lambda f: f.pop()", "operator.methodcaller('pop')"), Edit(_S, None, "import copy\n", "import copy\nimport operator\n")], silent=True),
    Variant("silent: copy branch written as else of `if inplace`", [Edit(_S, "SVG.apply_style_attributes", "        if not inplace:\n            svg = self._clone()\n            svg.apply_style_attributes(inplace=True)\n            return svg\n", "        if inplace:\n            pass\n        else:\n            svg = self._clone()\n            svg.apply_style_attributes(inplace=True)\n            return svg\n")], silent=True),
    Variant("silent: worklist renamed", [Edit(_S, "SVG._iter_nested_svgs", "frontier", "pending", count=4)], silent=True),
]

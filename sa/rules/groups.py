"""Semantic checks of the group helpers and tree-edit helpers of svg.py on the abstract DOM (shared by C01, C02, C05, C14).

The helpers are interpreted (sa.sym + sa.dom) on schematic trees covering the relevant case product and their
*effect* is compared with a reference written from the specification/README - independent of how the helper is spelled."""
from __future__ import annotations

import itertools
from fractions import Fraction

from sa.core import AnalysisError, Repo, Report
from sa.dom import COMMENT, ETREE_COMMENT, ETREE_PI, El, install_dom
from sa.sym import closure_of, explore, method_of

OPACITIES = [None, "0", "0.5", "1", "1.5", "-0.5", "0.25", "1.0"]
KIDS = [(), ("path",), ("path", "path"), ("g", "path"), ("path", "g", "path"), ("g",), ("text", "path"), ("path", "path", "path"), ("path:bar", "path:small", "path:stack")]
# a wide bar, a small box elsewhere whose left edge lies between, and a box stacked on the bar: the overlapping pair is adjacent neither in document order nor by left edge
SHAPES = {"bar": "M0,0 L100,0 L100,10 L0,10 Z", "small": "M10,50 L20,50 L20,60 L10,60 Z", "stack": "M30,5 L40,5 L40,15 L30,15 Z"}


def clamp(v):
    return max(min(v, Fraction(1)), Fraction(0))


def ref_removable(tag, attrib, n_kids):
    if tag != "g":
        return False
    if not attrib:
        return True
    op = clamp(Fraction(attrib.get("opacity", "1")))
    return n_kids <= 1 or op in (0, 1)


def _mk(tag, attrib, kids, noise):
    """element `tag` with children `kids`; noise=(n_comments, n_pis) interleaved before/between/after."""
    ch = []
    nc, npi = noise
    for i, k in enumerate(kids):
        if nc > i:
            ch.append(El(ETREE_COMMENT, name=f"c{i}"))
        at = {"id": f"k{i}"}
        if ":" in k:
            k, shape = k.split(":")
            at["d"] = SHAPES[shape]
        elif k == "path":
            # concrete squares: the first and the last path overlap, those between lie elsewhere (so with three children the overlapping
            # pair is not adjacent): flattening a translucent group would change how they composite
            paths = [j for j, kk in enumerate(kids) if kk.split(":")[0] == "path"]
            x = 0 if i == paths[0] else 3 if i == paths[-1] else 100 * i
            at["d"] = f"M{x},0 L{x + 10},0 L{x + 10},10 L{x},10 Z"
        ch.append(El(k, at, name=f"k{i}"))
        if npi > i:
            ch.append(El(ETREE_PI, name=f"pi{i}"))
    if nc > len(kids) or (nc and not kids):
        ch.append(El(ETREE_COMMENT, name="c-tail"))
    return El(tag, attrib, ch, name="grp")


def _setup(it):
    from sa.skia import install_skia
    install_dom(it)
    install_skia(it)
    # the children of the case groups are 10 x 10 squares
    it.hooks[("svg_pathops", "path_area")] = lambda i, a, k: 100


def check_removable_predicate(repo: Repo, rep: Report, rule: str, what: str):
    """_is_removable_group == reference on tag x attributes x children x noise (comments / PIs never matter)."""
    svg = repo["svg"]
    F = "svg._is_removable_group"
    rep.saw(F, "svg._opacity", "svg._clamp", "svg._is_group", "svg._is_redundant")
    fn = closure_of(repo, "svg", "_is_removable_group")
    n = 0
    bad = []
    for tag in ("g", "path"):
        for op, extra in itertools.product(OPACITIES, (False, True)):
            attrib = {}
            if op is not None:
                attrib["opacity"] = op
            if extra:
                attrib["fill"] = "red"
            for kids in KIDS:
                answers = {}
                for noise in ((0, 0), (2, 0), (1, 2), (3, 3)):
                    outs = explore(repo, fn, [], fresh_args=lambda: ([_mk(tag, attrib, kids, noise)], {}), setup=_setup)
                    n += 1
                    if len(outs) != 1 or outs[0].undecided:
                        raise AnalysisError(f"{F}: evaluator undecided: {outs[0].undecided if outs else 'no outcome'}")
                    if outs[0].raised:
                        bad.append((tag, attrib, kids, noise, f"raises {outs[0].raised}"))
                        continue
                    got = bool(outs[0].value)
                    answers[noise] = got
                    want = ref_removable(tag, attrib, len(kids))
                    if got != want:
                        bad.append((tag, attrib, kids, noise, f"answers {got}; a group is removable iff it has no attributes, at most one (non-comment) child, or a clamped opacity of 0 or 1 -> {want}"))
                if len(set(answers.values())) > 1:
                    bad.append((tag, attrib, kids, "noise", f"the answer depends on comments / processing instructions among the children: {answers}"))
    if bad:
        tag, attrib, kids, noise, msg = bad[0]
        rep.fail(rule, F, f"<{tag} {attrib}> with children {list(kids)} noise={noise}", f"{what}: {len(bad)} of {n} cases deviate; first: {msg}", svg, svg.func("_is_removable_group"))
    else:
        rep.ok(rule, F, f"{n} cases (tag x opacity incl. out-of-range x other attributes x children kinds x comment/PI noise): equals the reference predicate, noise-independent", True)
    return not bad


def check_try_remove_group(repo: Repo, rep: Report, rule: str, what: str):
    """Effect of _try_remove_group on a schematic tree: flattening keeps order and pushes the opacity once to every
    non-redundant child; a kept group carries nothing but its (clamped) opacity."""
    svg = repo["svg"]
    F = "svg._try_remove_group"
    rep.saw(F, "svg._replace_el", "svg._inherit_attrib", "svg._inherit_multiply", "svg._drop_default_attrib")
    fn = closure_of(repo, "svg", "_try_remove_group")
    n = 0
    bad = []
    for op, extra, kids, push in itertools.product(["0.5", "1", "1.5", "0.25", None], (False, True), [("path", "path"), ("path",), ("g", "path", "path")], (True, False)):
        attrib = {}
        if op is not None:
            attrib["opacity"] = op
        if extra:
            attrib["fill"] = "red"
            attrib["data-name"] = "x"
        holder = {}

        def fresh():
            g = _mk("g", attrib, kids, (1, 0))
            for i, k in enumerate([c for c in g.children if isinstance(c.tag, str)]):
                if i == 0:
                    k.attrib["opacity"] = "0.5"
            root = El("svg", {}, [El("path", name="before"), g, El("path", name="after")], name="root")
            holder["root"], holder["g"] = root, g
            holder["kids"] = list(g.children)
            return ([g], {"push_opacity": push})

        outs = explore(repo, fn, [], fresh_args=fresh, setup=_setup)
        n += 1
        if len(outs) != 1 or outs[0].undecided:
            raise AnalysisError(f"{F}: evaluator undecided: {outs[0].undecided if outs else 'no outcome'}")
        o = outs[0]
        case = f"<g {attrib}> children {list(kids)} push_opacity={push}"
        if o.raised:
            bad.append((case, f"raises {o.raised}"))
            continue
        root, g, kids_before = holder["root"], holder["g"], holder["kids"]
        removable = ref_removable("g", attrib, len(kids))
        gop = clamp(Fraction(attrib.get("opacity", "1")))
        if bool(o.value) != removable:
            bad.append((case, f"returns {o.value}, reference says removable={removable}"))
            continue
        if removable:
            names = [c.name for c in root.children]
            want = ["before"] + [c.name for c in kids_before] + ["after"]
            if names != want:
                bad.append((case, f"children after flattening are {names}, document order requires {want}"))
                continue
            for i, c in enumerate([c for c in kids_before if isinstance(c.tag, str)]):
                own = Fraction("0.5") if i == 0 else Fraction(1)
                exp = own * gop if push else own
                got = Fraction(str(c.attrib.get("opacity", "1")))
                if got != exp:
                    bad.append((case, f"child {c.name} ends with opacity {got}; expected {exp} (group opacity {'pushed once' if push else 'not pushed'})"))
        else:
            if g.parent is not root or [c.name for c in g.children] != [c.name for c in kids_before]:
                bad.append((case, "a kept group was moved or lost children"))
            keys = set(g.attrib)
            if keys != {"opacity"} or Fraction(str(g.attrib["opacity"])) != gop or not (0 < gop < 1):
                bad.append((case, f"kept group carries {g.attrib}; it must carry only its opacity (clamped, strictly between 0 and 1)"))
    if bad:
        case, msg = bad[0]
        rep.fail(rule, F, case, f"{what}: {len(bad)} of {n} cases deviate; first: {msg}", svg, svg.func("_try_remove_group"))
    else:
        rep.ok(rule, F, f"{n} cases: flattening keeps document order and multiplies the clamped group opacity into each non-comment child exactly when asked; a kept group has only opacity in (0,1)", True)
    return not bad


def check_replace_and_swap(repo: Repo, rep: Report, rule: str):
    svg = repo["svg"]
    # _replace_el
    F = "svg._replace_el"
    fn = closure_of(repo, "svg", "_replace_el")
    holder = {}

    def fresh():
        el = El("rect", name="el")
        root = El("svg", {}, [El("path", name="x"), el, El("path", name="y")], name="root")
        reps = [El("path", name=f"r{i}") for i in range(3)]
        holder["root"] = root
        return ([el, reps], {})

    outs = explore(repo, fn, [], fresh_args=fresh, setup=_setup)
    if len(outs) != 1 or outs[0].undecided:
        raise AnalysisError(f"{F}: evaluator undecided: {outs[0].undecided if outs else ''}")
    names = [c.name for c in holder["root"].children]
    if outs[0].raised or names != ["x", "r0", "r1", "r2", "y"]:
        rep.fail(rule, F, "_replace_el(el, [r0, r1, r2])", f"children become {names}; replacements must take the element's place in order (x r0 r1 r2 y)", svg, svg.func("_replace_el"))
    else:
        rep.ok(rule, F, "replacements take the place of the element, in order (interpreted on a schematic tree)", True)
    # _swap_elements (static method)
    F = "svg.SVG._swap_elements"
    fn = method_of(repo, "svg", "SVG", "_swap_elements")

    def fresh2():
        a, b = El("svg", name="a"), El("svg", name="b")
        root = El("svg", {}, [El("path", name="x"), a, El("path", name="m"), b, El("path", name="y")], name="root")
        holder["root"] = root
        return ([[(a, [El("clipPath", name="a1"), El("g", name="a2")]), (b, (El("g", name="b1"),))]], {})

    outs = explore(repo, fn, [], fresh_args=fresh2, setup=_setup)
    if len(outs) != 1 or outs[0].undecided:
        raise AnalysisError(f"{F}: evaluator undecided: {outs[0].undecided if outs else ''}")
    names = [c.name for c in holder["root"].children]
    if outs[0].raised or names != ["x", "a1", "a2", "m", "b1", "y"]:
        rep.fail(rule, F, "_swap_elements([(a, [a1, a2]), (b, [b1])])", f"children become {names}; expected x a1 a2 m b1 y (new elements in order, at the old element's place)", svg, svg.func("SVG._swap_elements"))
    else:
        rep.ok(rule, F, "each old element is replaced by its new elements, in order, in place", True)

"""C12 - arc-to-cubic conversion tracks the true elliptical arc (sign / dispatch / endpoint structure)."""
from __future__ import annotations

import ast

from sa.core import AnalysisError, Repo, Report, call_name, kwarg, parent, unparse, walk_no_nested
from sa.poly import RF, fn_atom
from sa.selftest import Edit, Variant
from sa.sym import ClassRef, Cond, Ext, Interp, PyCallable, Rec, SymStr, Undecided, Unknown, closure_of, explore, method_of, to_rf, simplify_num

from sa.texts import T as _TX

EXPLANATION = _TX["C12"]["explanation"] + " Not decided: " + _TX["C12"]["not_decided"] + "."
ASSUMPTIONS = _TX["C12"]["assumptions"]
P = "C12"
S = RF.sym


def P2(n):
    return Rec(ClassRef("geometric_types", "Point"), {"x": S(n + "x"), "y": S(n + "y")})


def ARC(rx=None, ry=None, rot=None, large=None, sweep=None):
    return Rec(ClassRef("arc_to_cubic", "EllipticalArc"), {
        "start_point": P2("s"), "rx": S("rx") if rx is None else rx, "ry": S("ry") if ry is None else ry,
        "rotation": S("rot") if rot is None else rot, "large": S("large") if large is None else large,
        "sweep": S("sweep") if sweep is None else sweep, "end_point": P2("e")})


def _und(outs, where):
    for o in outs:
        if o.undecided:
            raise AnalysisError(f"{where}: symbolic evaluator undecided: {o.undecided}")
    return outs


def run(repo: Repo, rep: Report, with_callback=True):
    A = repo["arc_to_cubic"]
    for rid, txt in [
        ("R-GUARD.radii-sign", "radii reach the parametrisation only through an absolute value"),
        ("R-CASE.arc-dispatch", "zero length (exact equality, first) -> nothing; zero radius -> one straight segment; else _arc_to_cubic"),
        ("R-POLY.radii-correction", "radius correction: Lambda per F.6.6 with the half chord rotated by -phi; both radii scaled by sqrt(Lambda)"),
        ("R-CASE.arc-flags", "centre/angle selection by large-arc and sweep flags has the symmetry structure of F.6.5"),
        ("R-POLY.arc-segments", "segment continuity, control-point construction, point transform order, exact last end point"),
    ]:
        rep.rule(rid, txt)
    # ---- entry: sign + dispatch
    F = "arc_to_cubic.arc_to_cubic"
    rep.saw(F, "arc_to_cubic.EllipticalArc.is_straight_line", "arc_to_cubic.EllipticalArc.is_zero_length")
    fn = closure_of(repo, "arc_to_cubic", "arc_to_cubic")
    seen = {}

    def setup(it):
        def inner(i, a, k):
            seen["arc"] = a[0]
            return [("<cubic-segments>",)]
        it.hooks[("arc_to_cubic", "_arc_to_cubic")] = inner

    # constant rotations: whatever normalisation of the rotation happens on the way, the arc that reaches the parametrisation is the same
    # ellipse: radii (|rx|, |ry|) at rot modulo a half turn, or (|ry|, |rx|) a quarter turn further
    from fractions import Fraction as _Fr
    badr = None
    n_rot = 0
    for rot in (0, 90, 180, 270, 360, 540, -90, -180, 45, 30, 720, _Fr(1, 2)):
        seen.clear()
        for o in _und(explore(repo, fn, [P2("s"), S("rx"), S("ry"), rot, S("large"), S("sweep"), P2("e")], setup=setup), F):
            if o.raised or list(o.value or []) != [("<cubic-segments>",)]:
                continue
            arc = seen.get("arc")
            if not isinstance(arc, Rec):
                continue
            n_rot += 1
            a_, b_ = repr(simplify_num(arc.f["rx"])), repr(simplify_num(arc.f["ry"]))
            r_ = simplify_num(arc.f["rotation"]) if "rotation" in arc.f else None
            if isinstance(r_, RF) or r_ is None:
                badr = f"rotation {rot}: the arc handed to the parametrisation has rotation {r_!r}"
                continue
            same_axes = (a_, b_) == ("abs(rx)", "abs(ry)") and (_Fr(r_) - _Fr(rot)) % 180 == 0
            swapped = (a_, b_) == ("abs(ry)", "abs(rx)") and (_Fr(r_) - _Fr(rot) - 90) % 180 == 0
            if not (same_axes or swapped):
                badr = (f"an arc with radii (rx, ry) and x-axis-rotation {rot} reaches the parametrisation as radii ({a_}, {b_}) at rotation {r_}: "
                        "a different ellipse unless rx = ry")
    if badr:
        rep.fail("R-CASE.arc-dispatch", F, "the ellipse handed to the parametrisation", badr, A, A.func("arc_to_cubic"))
    elif n_rot:
        rep.ok("R-CASE.arc-dispatch", F + " [constant rotations]", f"{n_rot} paths over 12 rotations (quarter turns, half turns, others): radii and rotation describe the given ellipse", True)
    outs = _und(explore(repo, fn, [P2("s"), S("rx"), S("ry"), S("rot"), S("large"), S("sweep"), P2("e")], setup=setup), F)
    kinds = {"empty": [], "line": [], "curve": []}
    for o in outs:
        if o.raised:
            rep.fail("R-CASE.arc-dispatch", F, "arc_to_cubic", f"raises {o.raised} on path {o.cond_text()[:80]}", A, A.func("arc_to_cubic"))
            continue
        v = list(o.value)
        if v == []:
            kinds["empty"].append(o)
        elif len(v) == 1 and isinstance(v[0], tuple) and len(v[0]) == 3 and v[0][0] is None and v[0][1] is None:
            kinds["line"].append((o, v[0][2]))
        elif v == [("<cubic-segments>",)]:
            kinds["curve"].append(o)
        else:
            rep.fail("R-CASE.arc-dispatch", F, "arc_to_cubic", f"unexpected result {v} on path {o.cond_text()[:80]}", A, A.func("arc_to_cubic"))
    ok = True
    for o in kinds["empty"]:
        pos = [repr(c) for c, val in o.decisions if val]
        if not any("ex == sx" in p or "sx == ex" in p for p in pos) or any("<=" in p for p in pos):
            ok = False
            rep.fail("R-CASE.arc-dispatch", F, "if arc.is_zero_length(): return", f"an arc is dropped on path '{o.cond_text()[:90]}': only exactly coincident end points "
                     "(start == end) may yield no segment; a tolerance drops short but real arcs", A, A.func("arc_to_cubic"))
    if not kinds["empty"]:
        ok = False
        rep.fail("R-CASE.arc-dispatch", F, "if arc.is_zero_length(): return", "coincident end points no longer yield an empty result", A, A.func("arc_to_cubic"))
    for o, endp in kinds["line"]:
        if not (isinstance(endp, Rec) and repr(endp.f["x"]) == "ex" and repr(endp.f["y"]) == "ey"):
            ok = False
            rep.fail("R-CASE.arc-dispatch", F, "yield None, None, arc.end_point", "the straight-line case does not end at the arc's end point", A, A.func("arc_to_cubic"))
        if not any((not val) and ("ex == sx" in repr(c) or "sx == ex" in repr(c)) for c, val in o.decisions):
            ok = False
            rep.fail("R-CASE.arc-dispatch", F, "zero-length before straight-line", "a straight segment is emitted without the end points having been found different first: "
                     "coincident end points with a zero radius must give no segment", A, A.func("arc_to_cubic"))
    if not kinds["line"] or not kinds["curve"]:
        ok = False
        rep.fail("R-CASE.arc-dispatch", F, "dispatch", f"dispatch outcomes: {[(k, len(v)) for k, v in kinds.items()]}", A, A.func("arc_to_cubic"))
    if ok:
        rep.ok("R-CASE.arc-dispatch", F, f"{len(outs)} paths: start == end (exact) -> [], rx or ry zero -> [(None, None, end)], otherwise _arc_to_cubic(arc)", True)
    arc = seen.get("arc")
    if isinstance(arc, Rec):
        rx, ry = repr(simplify_num(arc.f["rx"])), repr(simplify_num(arc.f["ry"]))
        if rx == "abs(rx)" and ry == "abs(ry)":
            rep.ok("R-GUARD.radii-sign", F, "EllipticalArc built with |rx|, |ry| (F.6.6 step 2)", True)
        else:
            rep.fail("R-GUARD.radii-sign", F, f"EllipticalArc(.., {rx}, {ry}, ..)", "signed radii reach the centre parametrisation: a negative radius mirrors the unit-circle "
                     "space and the arc is swept the other way", A, A.func("arc_to_cubic"))
    _check_correction(repo, rep)
    _check_flags(repo, rep)
    _check_segments(repo, rep)
    if with_callback:
        from sa.rules import c09
        rep.rule("R-CASE.arcs", "arcs_to_cubics callback (rule of C09): absolute start/end handed over, C/L emitted, nothing else touched")
        c09._check_arcs(repo, rep)


def _check_correction(repo, rep):
    A = repo["arc_to_cubic"]
    F = "arc_to_cubic.EllipticalArc.correct_out_of_range_radii"
    rep.saw(F)
    fn = method_of(repo, "arc_to_cubic", "EllipticalArc", "correct_out_of_range_radii")
    outs = _und(explore(repo, fn, [ARC()]), F)
    phi = fn_atom("radians", S("rot"))
    co, si = fn_atom("cos", phi), fn_atom("sin", phi)
    dx, dy = (S("sx") - S("ex")) / 2, (S("sy") - S("ey")) / 2
    xp = co * dx + si * dy
    yp = -si * dx + co * dy
    lam = xp * xp / (S("rx") * S("rx")) + yp * yp / (S("ry") * S("ry"))
    scaled = unscaled = 0
    for o in outs:
        if o.raised:
            rep.fail("R-POLY.radii-correction", F, "correct_out_of_range_radii", f"raises {o.raised}", A, A.func("EllipticalArc.correct_out_of_range_radii"))
            continue
        gt = [(c, v) for c, v in o.decisions if isinstance(c, Cond) and c.op == ">" ]
        if not gt:
            continue  # straight-line / zero-length early exits: returns self
        c, v = gt[0]
        lhs, rhs = to_rf(c.args[0]), to_rf(c.args[1])
        if not (lhs.equals(lam) and rhs.equals(1)):
            rep.fail("R-POLY.radii-correction", F, "radii_scale > 1", f"the scale test compares {lhs} with {rhs}; F.6.6 requires x'^2/rx^2 + y'^2/ry^2 with "
                     f"(x', y') = R(-phi)(start - end)/2, i.e. {lam}", A, A.func("EllipticalArc.correct_out_of_range_radii"))
            return
        r = o.value.f
        if v:
            scaled += 1
            s = fn_atom("sqrt", lam)
            if not (to_rf(r["rx"]).equals(S("rx") * s) and to_rf(r["ry"]).equals(S("ry") * s)):
                rep.fail("R-POLY.radii-correction", F, "rx *= sqrt(radii_scale); ry *= sqrt(radii_scale)", f"radii become ({r['rx']}, {r['ry']}): both must be scaled by sqrt(Lambda)", A, A.func("EllipticalArc.correct_out_of_range_radii"))
                return
        else:
            unscaled += 1
            if not (repr(r["rx"]) == "rx" and repr(r["ry"]) == "ry"):
                rep.fail("R-POLY.radii-correction", F, "return self", "radii that fit the chord are modified", A, A.func("EllipticalArc.correct_out_of_range_radii"))
                return
    if scaled and unscaled:
        rep.ok("R-POLY.radii-correction", F, "Lambda = x'^2/rx^2 + y'^2/ry^2 with the half chord rotated by -phi (identity of rational functions); both radii scaled by sqrt(Lambda) iff Lambda > 1", True)
    else:
        rep.fail("R-POLY.radii-correction", F, "if radii_scale > 1", "the correction no longer has both outcomes (scaled / unchanged)", A, A.func("EllipticalArc.correct_out_of_range_radii"))
    # (that the parametrisation and the final scale use the corrected radii is decided in _check_segments)


def _center(repo, large, sweep):
    fn = method_of(repo, "arc_to_cubic", "EllipticalArc", "end_to_center_parametrization")
    outs = explore(repo, fn, [ARC(large=large, sweep=sweep)])
    res = []
    for o in outs:
        if o.undecided:
            raise AnalysisError(f"end_to_center_parametrization: evaluator undecided: {o.undecided}")
        if o.raised:
            continue
        # skip identity/degenerate shortcut branches of inverse()
        if any(v and ("== 1" in repr(c) or "EPSILON" in repr(c)) for c, v in o.decisions):
            continue
        res.append(o)
    return res


def _check_flags(repo, rep):
    A = repo["arc_to_cubic"]
    F = "arc_to_cubic.EllipticalArc.end_to_center_parametrization"
    rep.saw(F)
    cen = {}
    thetas = {}
    for large in (0, 1):
        for sweep in (0, 1):
            outs = _center(repo, large, sweep)
            if not outs:
                rep.fail("R-CASE.arc-flags", F, f"large={large} sweep={sweep}", "no general path through the parametrisation", A, A.func("EllipticalArc.end_to_center_parametrization"))
                return
            c = outs[0].value.f["center_point"]
            cen[(large, sweep)] = (to_rf(c.f["x"]), to_rf(c.f["y"]))
            for o in outs:
                cc = o.value.f["center_point"]
                if not (to_rf(cc.f["x"]).equals(cen[(large, sweep)][0])):
                    rep.fail("R-CASE.arc-flags", F, f"large={large} sweep={sweep}", "the centre depends on the theta branch", A, A.func("EllipticalArc.end_to_center_parametrization"))
            thetas[(large, sweep)] = [(o, to_rf(o.value.f["theta_arc"]), to_rf(o.value.f["theta1"])) for o in outs]
    mid2 = (S("sx") + S("ex"), S("sy") + S("ey"))
    ok = True
    if not (cen[(0, 0)][0].equals(cen[(1, 1)][0]) and cen[(0, 0)][1].equals(cen[(1, 1)][1]) and cen[(0, 1)][0].equals(cen[(1, 0)][0]) and cen[(0, 1)][1].equals(cen[(1, 0)][1])):
        ok = False
        rep.fail("R-CASE.arc-flags", F, "if self.sweep == self.large: scale_factor = -scale_factor", "the centre must depend on the flags only through (large == sweep)", A, A.func("EllipticalArc.end_to_center_parametrization"))
    sx = cen[(0, 0)][0] + cen[(0, 1)][0]
    sy = cen[(0, 0)][1] + cen[(0, 1)][1]
    if not (sx.equals(mid2[0]) and sy.equals(mid2[1])):
        ok = False
        rep.fail("R-CASE.arc-flags", F, "centre(large != sweep) vs centre(large == sweep)", "the two candidate centres are not mirror images about the chord midpoint "
                 f"(sum of x = {sx}, expected {mid2[0]})", A, A.func("EllipticalArc.end_to_center_parametrization"))
    if cen[(0, 0)][0].equals(cen[(0, 1)][0]) and cen[(0, 0)][1].equals(cen[(0, 1)][1]):
        ok = False
        rep.fail("R-CASE.arc-flags", F, "scale_factor sign", "the flags no longer select between the two centres", A, A.func("EllipticalArc.end_to_center_parametrization"))
    # orientation (which of the two centres): evaluated on two concrete arcs whose radicand is a perfect square
    fnode = A.func("EllipticalArc.end_to_center_parametrization")
    fnc = method_of(repo, "arc_to_cubic", "EllipticalArc", "end_to_center_parametrization")

    def PT(x, y):
        return Rec(ClassRef("geometric_types", "Point"), {"x": x, "y": y})

    orient_bad = None
    for (rx, ry, end, plus, minus) in ((1, 1, (1, 1), (0, 1), (1, 0)), (2, 1, (2, 1), (0, 1), (2, 0))):
        for large in (0, 1):
            for sweep in (0, 1):
                arc = Rec(ClassRef("arc_to_cubic", "EllipticalArc"), {"start_point": PT(0, 0), "rx": rx, "ry": ry, "rotation": 0, "large": large, "sweep": sweep, "end_point": PT(*end)})
                for o in _und(explore(repo, fnc, [arc]), F):
                    if any(v and "EPSILON" in repr(c) for c, v in o.decisions):
                        continue  # |determinant| <= float epsilon: not this arc (the machine epsilon is kept symbolic)
                    if o.raised:
                        orient_bad = f"raises {o.raised} on a regular arc"
                        continue
                    c = o.value.f["center_point"]
                    got = (to_rf(c.f["x"]), to_rf(c.f["y"]))
                    want = plus if large != sweep else minus
                    if not (got[0].equals(RF.of(want[0])) and got[1].equals(RF.of(want[1]))):
                        orient_bad = (f"arc (0,0) -> {end}, rx={rx} ry={ry}, large={large} sweep={sweep}: centre {got}; F.6.5.2 gives {want} "
                                      "(the + root when the flags differ, the - root when they are equal)")
    if orient_bad:
        ok = False
        rep.fail("R-CASE.arc-flags", F, "choice between the two centres",
                 f"{orient_bad}: the arc is drawn around the other centre", A, fnode)
    if ok:
        rep.ok("R-CASE.arc-flags", F + " [centre]", "C(0,0)=C(1,1), C(0,1)=C(1,0), C(0,0)+C(0,1) = start+end (rational-function identities, sqrt/max opaque)", True)
    # theta adjustment
    two_pi = None
    ok = True
    for (large, sweep), items in thetas.items():
        base = None
        adj = set()
        for o, th, t1 in items:
            pos = [repr(c) for c, v in o.decisions if v and ("< 0" in repr(c) or "> 0" in repr(c))]
            neg = [repr(c) for c, v in o.decisions if not v and ("< 0" in repr(c) or "> 0" in repr(c))]
            adj.add((tuple(pos), repr(th)))
        vals = sorted({a[1] for a in adj}, key=len)
        if len(vals) != 2:
            ok = False
            rep.fail("R-CASE.arc-flags", F, f"theta_arc for sweep={sweep}", f"expected two outcomes (raw / adjusted by 2pi), got {len(vals)}", A, A.func("EllipticalArc.end_to_center_parametrization"))
            continue
        raw = [t for o, t, _ in items if repr(t) == vals[0]][0]
        adjd = [t for o, t, _ in items if repr(t) == vals[1]][0]
        diff = adjd - raw
        want_sign = 1 if sweep else -1
        if not diff.equals(S("pi") * 2 * want_sign):
            ok = False
            rep.fail("R-CASE.arc-flags", F, f"theta_arc adjustment for sweep={sweep}", f"adjusted by {diff}; must be {'+' if sweep else '-'}2pi", A, A.func("EllipticalArc.end_to_center_parametrization"))
            continue
        # adjusted outcome only under the right sign test
        for o, t, _ in items:
            if repr(t) == vals[1]:
                conds = [repr(c) for c, v in o.decisions if v]
                need = "< 0" if sweep else "> 0"
                if not any(need in c for c in conds):
                    ok = False
                    rep.fail("R-CASE.arc-flags", F, f"theta_arc adjustment for sweep={sweep}", f"2pi adjustment taken on path {o.cond_text()[:80]}", A, A.func("EllipticalArc.end_to_center_parametrization"))
    if ok:
        rep.ok("R-CASE.arc-flags", F + " [angle]", "+2pi iff theta_arc < 0 with sweep, -2pi iff theta_arc > 0 without sweep", True)


def _check_segments(repo, rep):
    """_arc_to_cubic interpreted with the number of segments fixed at three (the `ceil` that produces the count is answered with 3; the
    angles stay symbolic): segment i has the control points of the tangent construction on the unit circle at the angles
    theta1 + i*theta_arc/3 and theta1 + (i+1)*theta_arc/3, mapped by translate(centre) o rotate(phi) o scale(rx, ry) with the *corrected*
    radii; consecutive segments join; the last one ends at the arc's own end point.  However the loop is written."""
    A = repo["arc_to_cubic"]
    fn = A.func("_arc_to_cubic")
    F = "arc_to_cubic._arc_to_cubic"
    rep.saw(F)
    clo = closure_of(repo, "arc_to_cubic", "_arc_to_cubic")
    params = Rec(ClassRef("arc_to_cubic", "CenterParametrization"), {"theta1": S("t1"), "theta_arc": S("ta"), "center_point": P2("c")})
    receivers = []
    N_SEG = 3

    def setup(it):
        def corrected(i, a, k):
            r = i.deepcopy(a[0])
            r.f["rx"], r.f["ry"] = S("rxc"), S("ryc")
            return r

        def parametrize(i, a, k):
            receivers.append((repr(a[0].f.get("rx")), repr(a[0].f.get("ry"))))
            return params
        it.hooks[("arc_to_cubic", "EllipticalArc.correct_out_of_range_radii")] = corrected
        it.hooks[("arc_to_cubic", "EllipticalArc.end_to_center_parametrization")] = parametrize
        it.external["math.ceil"] = lambda i, a, k: N_SEG
        prev = it.auto_decide
        it.auto_decide = lambda c: (True if "isfinite" in repr(c) and getattr(c, "op", "") != "not" else (prev(c) if prev else None))

    outs = _und(explore(repo, clo, [], fresh_args=lambda: ([ARC()], {}), setup=setup, max_paths=64), F)
    phi = fn_atom("radians", S("rot"))
    cp, sp = fn_atom("cos", phi), fn_atom("sin", phi)

    def T(x, y):
        x, y = x * S("rxc"), y * S("ryc")
        return (cp * x - sp * y + S("cx"), sp * x + cp * y + S("cy"))

    bad = None
    n_checked = 0
    for o in outs:
        if o.raised:
            bad = f"raises {o.raised}"
            continue
        segs = list(o.value) if o.value is not None else []
        if len(segs) != N_SEG:
            if not segs and any("isfinite" in repr(c) for c, _ in o.decisions):
                continue  # the documented bail-out for a degenerate tangent
            bad = f"{len(segs)} segments are produced for a segment count of {N_SEG}"
            continue
        eq = o.equalities() if hasattr(o, "equalities") else {}

        def same_pt(p, w, eq=eq):
            from sa.rules.c11 import same
            return same((to_rf(p.f["x"]), to_rf(p.f["y"])), w, eq)
        for i, (p1, p2, endp) in enumerate(segs):
            s_, e_ = S("t1") + RF.of(i) * S("ta") / N_SEG, S("t1") + RF.of(i + 1) * S("ta") / N_SEG
            t = fn_atom("tan", (e_ - s_) * RF.of(1) / 4) * RF.of(4) / 3
            cs, sn, ce, se = fn_atom("cos", s_), fn_atom("sin", s_), fn_atom("cos", e_), fn_atom("sin", e_)
            want1, want2, wante = T(cs - t * sn, sn + t * cs), T(ce + t * se, se - t * ce), T(ce, se)
            n_checked += 1
            if not same_pt(p1, want1) or not same_pt(p2, want2):
                bad = f"control points of segment {i} of {N_SEG} are {p1}, {p2}; the tangent construction P(s) + t T(s), P(e) - t T(e) with t = 4/3 tan((e-s)/4), mapped to user space with the corrected radii, is expected"
            if i == N_SEG - 1:
                if not (repr(endp.f["x"]) == "ex" and repr(endp.f["y"]) == "ey"):
                    bad = f"the last segment ends at {endp}; it must end exactly at the arc's end point"
            elif not same_pt(endp, wante):
                bad = f"segment {i} of {N_SEG} ends at {endp}; the point of the ellipse at angle theta1 + {i + 1}/{N_SEG} theta_arc is expected"
    if not receivers or any(r != ("rxc", "ryc") for r in receivers):
        rep.fail("R-POLY.radii-correction", F, "centre parametrisation of the corrected arc",
                 f"the centre parametrisation is computed for radii {sorted(set(receivers)) or 'never'}; it must run on the arc returned by the radius correction", A, fn)
    else:
        rep.ok("R-POLY.radii-correction", F + ": the centre parametrisation and the final scale use the corrected radii", "", True)
    if bad or not n_checked:
        rep.fail("R-POLY.arc-segments", F, "the segments of an arc split in three", (bad or "no path produces the three segments")[:600], A, fn)
    else:
        rep.ok("R-POLY.arc-segments", F, "3 segments: P1 = T(P(s_i) + t T'(s_i)), P2 = T(P(e_i) - t T'(e_i)), end = T(P(e_i)) with e_i = s_{i+1}, T = translate(center) o rotate(phi) o scale(rx, ry); "
                                         "last segment ends at the arc's own end point (rational-function identities)", True)


class NeedDecisionError(Exception):
    pass


_A = "arc_to_cubic"
VARIANTS = [
    Variant("reverted-fix F7: signed radii", [Edit(_A, "arc_to_cubic", "start_point, fabs(rx), fabs(ry), rotation, large, sweep, end_point", "start_point, rx, ry, rotation, large, sweep, end_point")],
            [("R-GUARD.radii-sign", "arc_to_cubic")]),
    Variant("radius correction computed but not used", [Edit(_A, "_arc_to_cubic", "arc = arc.correct_out_of_range_radii()", "arc.correct_out_of_range_radii()")], [("R-POLY.radii-correction", "_arc_to_cubic")]),
    Variant("sweep != large", [Edit(_A, "EllipticalArc.end_to_center_parametrization", "if self.sweep == self.large:", "if self.sweep != self.large:")], [("R-CASE.arc-flags", "end_to_center")]),
    Variant("exact end point branch dropped", [Edit(_A, "_arc_to_cubic", "        if i == num_segments - 1:\n            end_point = arc.end_point\n        else:\n            end_point = point_transform.map_point(end_point)",
                                                       "        end_point = point_transform.map_point(end_point)")], [("R-POLY.arc-segments", "_arc_to_cubic")]),
    Variant("straight line tested before zero length", [Edit(_A, "arc_to_cubic", "    if arc.is_zero_length():\n        return\n    elif arc.is_straight_line():\n        yield None, None, arc.end_point",
                                                               "    if arc.is_straight_line():\n        yield None, None, arc.end_point\n    elif arc.is_zero_length():\n        return")], [("R-CASE.arc-dispatch", "arc_to_cubic")]),
    Variant("only rx scaled", [Edit(_A, "EllipticalArc.correct_out_of_range_radii", "            ry *= sqrt(radii_scale)\n", "")], [("R-POLY.radii-correction", "correct_out_of_range_radii")]),
    Variant("segment angles mismatch", [Edit(_A, "_arc_to_cubic", "end_theta = arc_params.theta1 + (i + 1) * arc_params.theta_arc / num_segments", "end_theta = arc_params.theta1 + (i + 1) * arc_params.theta_arc / (num_segments + 1)")],
            [("R-POLY.arc-segments", "_arc_to_cubic")]),
    Variant("half chord rotated by +phi", [Edit(_A, "EllipticalArc.correct_out_of_range_radii", "point_transform = Affine2D.identity().rotate(-angle)", "point_transform = Affine2D.identity().rotate(angle)")],
            [("R-POLY.radii-correction", "correct_out_of_range_radii")]),
    Variant("zero length by tolerance", [Edit(_A, "EllipticalArc.is_zero_length", "return self.end_point == self.start_point", "return self.end_point.almost_equals(self.start_point)")],
            [("R-CASE.arc-dispatch", "arc_to_cubic")]),
    Variant("theta wrap with the wrong flag", [Edit(_A, "EllipticalArc.end_to_center_parametrization", "if theta_arc < 0 and self.sweep:", "if theta_arc < 0 and self.large:")], [("R-CASE.arc-flags", "end_to_center")]),
    Variant("scale before rotate in the back transform", [Edit(_A, "_arc_to_cubic", "        .rotate(radians(arc.rotation))\n        .scale(arc.rx, arc.ry)", "        .scale(arc.rx, arc.ry)\n        .rotate(radians(arc.rotation))")],
            [("R-POLY.arc-segments", "_arc_to_cubic")]),
    Variant("control point sign", [Edit(_A, "_arc_to_cubic", "point2 = end_point + Vector(t * sin_end_theta, -t * cos_end_theta)", "point2 = end_point + Vector(-t * sin_end_theta, t * cos_end_theta)")],
            [("R-POLY.arc-segments", "_arc_to_cubic")]),
    Variant("silent: local renamed", [Edit(_A, "EllipticalArc.correct_out_of_range_radii", "radii_scale", "lam", count=4)], silent=True),
]

"""C11 - transform strings and affine algebra follow the SVG specification.

R-POLY: the algebraic laws are established as identities of rational functions on the *source expressions*
of Affine2D (not on sample matrices); R-CASE: the parser and rect_to_rect are specialised over their finite
alphabets (six operator names x argument counts x ordered pairs; 10 alignments x {default, meet, slice});
R-REGEX: printer templates are members of the parser's pattern language.
"""
from __future__ import annotations

import ast
import itertools

from sa import spec
from sa.core import AnalysisError, Repo, Report, call_name, unparse, walk_no_nested
from sa.fold import Folder
from sa.poly import RF, fn_atom
from sa.regex import Compiled, DFA
from sa.selftest import Edit, Variant
from sa.sym import (ClassRef, Closure, Cond, Ext, Interp, PyCallable, Rec, SymStr, Undecided, closure_of, explore, method_of,
                    simplify_num, to_rf)

from sa.texts import T as _TX

EXPLANATION = _TX["C11"]["explanation"] + " Not decided: " + _TX["C11"]["not_decided"] + "."
ASSUMPTIONS = _TX["C11"]["assumptions"]
P = "C11"
S = RF.sym


def A(prefix):
    return Rec(ClassRef("svg_transform", "Affine2D"), {k: S(prefix + k) for k in "abcdef"})


def mat(a, b, c, d, e, f):
    return tuple(to_rf(x) for x in (a, b, c, d, e, f))


def mul(m, n):
    a1, b1, c1, d1, e1, f1 = m
    a2, b2, c2, d2, e2, f2 = n
    return (a1 * a2 + c1 * b2, b1 * a2 + d1 * b2, a1 * c2 + c1 * d2, b1 * c2 + d1 * d2, a1 * e2 + c1 * f2 + e1, b1 * e2 + d1 * f2 + f1)


def vals(rec):
    if isinstance(rec, Rec):
        return tuple(to_rf(rec.f[k]) for k in "abcdef")
    return tuple(to_rf(x) for x in rec)


def same(m, n, eq=None):
    """Component-wise identity of rational functions, under the symbol bindings `eq` of the path."""
    if eq:
        return all(x.subst(eq).equals(y.subst(eq)) for x, y in zip(m, n))
    return all(x.equals(y) for x, y in zip(m, n))


IDENT = mat(1, 0, 0, 1, 0, 0)


def op_matrix(op, args):
    """SVG 1.1 7.6 matrices; angles already in radians (the parser converts), trig opaque."""
    a = [to_rf(x) for x in args]
    if op == "matrix":
        return tuple(a)
    if op == "translate":
        return mat(1, 0, 0, 1, a[0], a[1] if len(a) > 1 else 0)
    if op == "scale":
        return mat(a[0], 0, 0, a[1] if len(a) > 1 else a[0], 0, 0)
    if op == "rotate":
        co, si = fn_atom("cos", a[0]), fn_atom("sin", a[0])
        r = (co, si, -si, co, RF.of(0), RF.of(0))
        if len(a) == 3:
            return mul(mul(mat(1, 0, 0, 1, a[1], a[2]), r), mat(1, 0, 0, 1, -a[1], -a[2]))
        return r
    if op == "skewx":
        return mat(1, 0, fn_atom("tan", a[0]), 1, 0, 0)
    if op == "skewy":
        return mat(1, fn_atom("tan", a[0]), 0, 1, 0, 0)
    raise ValueError(op)


ARGC = {"matrix": (6,), "translate": (1, 2), "scale": (1, 2), "rotate": (1, 3), "skewx": (1,), "skewy": (1,)}


def _outs(repo, fn, args, what, kwargs=None, setup=None):
    outs = explore(repo, fn, args, kwargs, setup=setup)
    for o in outs:
        if o.undecided:
            raise AnalysisError(f"{what}: symbolic evaluator undecided: {o.undecided}")
    return outs


def run(repo: Repo, rep: Report, only=None):
    T = repo["svg_transform"]
    folder = Folder(repo)
    for rid, txt in [
        ("R-POLY.matmul", "__matmul__ / map_point / map_vector / determinant equal the 3x3 matrix formulas"),
        ("R-POLY.inverse", "inverse @ self = self @ inverse = identity on the non-degenerate branch; special branches as documented"),
        ("R-POLY.ops", "translate/scale/rotate/skew*/matrix equal self @ M_op with M_op of SVG 1.1 7.6; optional arguments defaulted as specified"),
        ("R-POLY.compose", "compose_ltr((f,g,..)).map_point(p) = ..g(f(p)); empty composition is the identity"),
        ("R-CASE.parser", "parse_svg_transform = left-to-right product of the listed operations, angles in degrees, for every operator/arity/pair"),
        ("R-REGEX.transform", "operator alternation = the six SVG names (case-insensitive), argument class stops at ')', separators cover comma-wsp"),
        ("R-CASE.tostring", "tostring templates are in the parser language and re-parse to the same matrix; translate form only when a=d=1,b=c=0"),
        ("R-CASE.rect_to_rect", "rect_to_rect equals the specification's viewport transform for 10 alignments x default/meet/slice"),
        ("R-POLY.decompose", "decompose_translation / decompose_scale parts recompose to self on every branch"),
    ]:
        rep.rule(rid, txt)
    Aff = lambda m: method_of(repo, "svg_transform", "Affine2D", m)

    # ---- matmul & friends
    s, o = A("s"), A("o")
    F = "svg_transform.Affine2D.__matmul__"
    rep.saw(F)
    outs = _outs(repo, Aff("__matmul__"), [s, o], F)
    want = mul(vals(s), vals(o))
    bad = [o_ for o_ in outs if o_.raised or not same(vals(o_.value), want)]
    if bad or len(outs) != 1:
        comp = next((k for k, x, y in zip("abcdef", vals(bad[0].value), want) if not x.equals(y)), "?") if bad and not bad[0].raised else "?"
        rep.fail("R-POLY.matmul", F, f"component {comp}", f"component {comp} of the product is {vals(bad[0].value)['abcdef'.index(comp)] if comp != '?' else bad[0].raised}, "
                 f"matrix product gives {want['abcdef'.index(comp)] if comp != '?' else ''}", T, T.func("Affine2D.__matmul__"))
    else:
        rep.ok("R-POLY.matmul", F, "six components equal self x other as polynomials", True)
    nonaff = _outs(repo, Aff("__matmul__"), [s, 3], F)
    x, y = S("x"), S("y")
    for meth, wantp in (("map_point", (s.f["a"] * x + s.f["c"] * y + s.f["e"], s.f["b"] * x + s.f["d"] * y + s.f["f"])),
                        ("map_vector", (s.f["a"] * x + s.f["c"] * y, s.f["b"] * x + s.f["d"] * y))):
        F = f"svg_transform.Affine2D.{meth}"
        rep.saw(F)
        outs = _outs(repo, Aff(meth), [s, (x, y)], F)
        v = outs[0].value
        got = (to_rf(v.f["x"]), to_rf(v.f["y"])) if isinstance(v, Rec) else None
        if len(outs) != 1 or got is None or not (got[0].equals(wantp[0]) and got[1].equals(wantp[1])):
            rep.fail("R-POLY.matmul", F, meth, f"{meth}((x,y)) = {got}, specification {wantp}", T, T.func(f"Affine2D.{meth}"))
        else:
            rep.ok("R-POLY.matmul", F, "matrix x (x,y,1) / (x,y,0)", True)
    F = "svg_transform.Affine2D.determinant"
    outs = _outs(repo, Aff("determinant"), [s], F)
    if len(outs) != 1 or not to_rf(outs[0].value).equals(s.f["a"] * s.f["d"] - s.f["b"] * s.f["c"]):
        rep.fail("R-POLY.matmul", F, "determinant", f"determinant = {outs[0].value}, must be ad - bc", T, T.func("Affine2D.determinant"))
    else:
        rep.ok("R-POLY.matmul", F, "ad - bc", True)
    rep.saw(F)

    # ---- inverse
    F = "svg_transform.Affine2D.inverse"
    rep.saw(F)
    outs = _outs(repo, Aff("inverse"), [s], F)
    n_general = 0
    for o_ in outs:
        if o_.raised:
            rep.fail("R-POLY.inverse", F, "inverse", f"raises {o_.raised} on path {o_.cond_text()}", T, T.func("Affine2D.inverse"))
            continue
        v = vals(o_.value)
        conds = o_.cond_text()
        if same(v, vals(s)):
            # identity shortcut: only under self == identity
            if "sa == 1" in conds and "not(" not in conds.split("&")[0]:
                rep.ok("R-POLY.inverse", F + " [identity branch]", conds[:80], True)
            else:
                rep.fail("R-POLY.inverse", F, "return self", f"returns self on path {conds}", T, T.func("Affine2D.inverse"))
        elif all(c.is_zero() for c in v):
            if "EPSILON" in conds or "epsilon" in conds:
                rep.ok("R-POLY.inverse", F + " [degenerate branch]", "zero matrix under |det| <= epsilon", True)
            else:
                rep.fail("R-POLY.inverse", F, "return degenerate", f"returns the zero matrix on path {conds}", T, T.func("Affine2D.inverse"))
        else:
            n_general += 1
            l, r = mul(v, vals(s)), mul(vals(s), v)
            if same(l, IDENT) and same(r, IDENT):
                rep.ok("R-POLY.inverse", F + " [general branch]", "inverse @ self = self @ inverse = identity as rational functions", True)
            else:
                k = next(k for k, a_, b_ in zip("abcdef", l + r, IDENT + IDENT) if not a_.equals(b_))
                rep.fail("R-POLY.inverse", F, "general branch", f"inverse @ self is not the identity (component {k}: {dict(zip('abcdef', l))[k]})", T, T.func("Affine2D.inverse"))
    if n_general == 0:
        rep.fail("R-POLY.inverse", F, "general branch", "no path computes an inverse for a general non-degenerate matrix", T, T.func("Affine2D.inverse"))
    # which matrices take the degenerate branch is a numeric question: constant matrices of either orientation (mirrors have a negative
    # determinant), small and large determinants, and singular ones
    from fractions import Fraction as Fr
    consts = [(-1, 0, 0, 1, 3, 4), (1, 0, 0, -1, 0, 7), (0, 1, 1, 0, 0, 0), (Fr(3, 5), Fr(4, 5), Fr(-4, 5), Fr(3, 5), 1, 2), (2, 0, 0, 2, 0, 0), (1, 2, 0, 1, 5, 6),
              (Fr(1, 1000), 0, 0, Fr(1, 1000), 1, 1), (-3, 1, 2, 5, -1, 0), (1000, 0, 0, -1000, 0, 0), (1, 0, 0, 1, 0, 0)]
    singular = [(1, 2, 2, 4, 0, 0), (0, 0, 0, 0, 1, 1), (1, 0, 0, 0, 0, 0)]
    badc = None
    for m6 in consts + singular:
        recm = Rec(ClassRef("svg_transform", "Affine2D"), dict(zip("abcdef", m6)))
        for o_ in _outs(repo, Aff("inverse"), [recm], F):
            if o_.raised:
                badc = f"inverse of matrix{m6} raises {o_.raised}"
                continue
            v = vals(o_.value)
            if m6 in singular:
                if not all(c.is_zero() for c in v):
                    badc = f"the singular matrix{m6} is inverted to {tuple(map(repr, v))}"
                continue
            mm = tuple(to_rf(x) for x in m6)
            if not (same(mul(v, mm), IDENT) and same(mul(mm, v), IDENT)):
                badc = f"inverse of matrix{tuple(map(str, m6))} (determinant {m6[0] * m6[3] - m6[1] * m6[2]}) is {tuple(map(repr, v))}: not its inverse"
    if badc:
        rep.fail("R-POLY.inverse", F, "constant matrices", badc, T, T.func("Affine2D.inverse"))
    else:
        rep.ok("R-POLY.inverse", F + " [constant matrices]", f"{len(consts)} regular matrices (mirrors, rotations, shears, small and large determinants) are inverted exactly, {len(singular)} singular ones give the degenerate matrix", True)

    # ---- operations = self @ M_op
    t1, t2, t3 = S("t1"), S("t2"), S("t3")
    cases = [("translate", (t1, t2)), ("translate", (t1,)), ("scale", (t1, t2)), ("scale", (t1,)), ("rotate", (t1,)), ("rotate", (t1, t2, t3)),
             ("skewx", (t1,)), ("skewy", (t1,)), ("matrix", tuple(S(f"m{i}") for i in range(6)))]
    for op, args in cases:
        F = f"svg_transform.Affine2D.{op}"
        rep.saw(F)
        if f"Affine2D.{op}" not in T.functions:
            rep.fail("R-POLY.ops", F, op, f"Affine2D has no method {op!r} (the parser dispatches on this name)", T)
            continue
        outs = _outs(repo, Aff(op), [s] + list(args), F)
        want = mul(vals(s), op_matrix(op, args))
        for o_ in outs:
            if o_.raised:
                rep.fail("R-POLY.ops", F, f"{op}{tuple(args)}", f"raises {o_.raised}", T, T.func(f"Affine2D.{op}"))
                continue
            if not same(vals(o_.value), want, o_.equalities()):
                k = next(k for k, a_, b_ in zip("abcdef", vals(o_.value), want) if not a_.equals(b_))
                rep.fail("R-POLY.ops", F, f"{op}({', '.join(map(repr, args))})",
                         f"component {k} is {dict(zip('abcdef', vals(o_.value)))[k]}; SVG 1.1 7.6 gives {dict(zip('abcdef', want))[k]}", T, T.func(f"Affine2D.{op}"))
            else:
                rep.ok("R-POLY.ops", f"{F}({len(args)} args)", "= self @ M_op", True)
    # translate shortcut with concrete zeros, skew(x,y)
    for args in ((0, 0), (0,)):
        outs = _outs(repo, Aff("translate"), [s] + list(args), "translate(0..)")
        if not all(same(vals(o_.value), vals(s)) for o_ in outs):
            rep.fail("R-POLY.ops", "svg_transform.Affine2D.translate", f"translate{args}", "translate by zero must be the identity operation", T, T.func("Affine2D.translate"))
        else:
            rep.ok("R-POLY.ops", f"svg_transform.Affine2D.translate{args}", "returns self")
    if "Affine2D.skew" in T.functions:
        outs = _outs(repo, Aff("skew"), [s, t1, t2], "skew")
        want = mul(vals(s), mat(1, fn_atom("tan", t2), fn_atom("tan", t1), 1, 0, 0))
        if not all(same(vals(o_.value), want) for o_ in outs):
            rep.fail("R-POLY.ops", "svg_transform.Affine2D.skew", "skew(xAngle, yAngle)", "skew is not [1 tan(y) tan(x) 1 0 0]", T, T.func("Affine2D.skew"))
        else:
            rep.ok("R-POLY.ops", "svg_transform.Affine2D.skew", "", True)

    # ---- compose_ltr
    F = "svg_transform.Affine2D.compose_ltr"
    rep.saw(F)
    cl = ClassRef("svg_transform", "Affine2D")
    f_, g_, h_ = A("f"), A("g"), A("h")
    for seq in ((f_, g_), (f_, g_, h_), (f_,), ()):
        outs = _outs(repo, Aff("compose_ltr"), [cl, tuple(seq)], F)
        # apply first listed first
        px, py = x, y
        for m in seq:
            px, py = m.f["a"] * px + m.f["c"] * py + m.f["e"], m.f["b"] * px + m.f["d"] * py + m.f["f"]
        ok = len(outs) == 1 and not outs[0].raised
        if ok:
            v = vals(outs[0].value)
            gx, gy = v[0] * x + v[2] * y + v[4], v[1] * x + v[3] * y + v[5]
            ok = gx.equals(px) and gy.equals(py)
        if ok:
            rep.ok("R-POLY.compose", f"{F} ({len(seq)} operands)", "maps a point through the first listed transform first", True)
        else:
            rep.fail("R-POLY.compose", F, f"compose_ltr of {len(seq)}", "the composed matrix does not apply the operands left to right "
                     "(first listed first)", T, T.func("Affine2D.compose_ltr"))

    _check_parser(repo, rep, folder)
    if only is not None:
        if "rect_to_rect" in only:
            _check_rect_to_rect(repo, rep, folder)
        return
    _check_tostring(repo, rep)
    _check_rect_to_rect(repo, rep, folder)
    _check_decompose(repo, rep)


# ------------------------------------------------------------------------------------------------
class NumStr(Ext):
    """A numeric substring of the transform string, standing for the symbol `name`."""

    def __init__(self, name):
        self.name = name

    def sym_float(self, it):
        return S(self.name)

    def sym_getattr(self, it, attr):
        if attr == "strip":
            return PyCallable(lambda i, a, k: self)
        raise Undecided(attr)


class ArgStr(Ext):
    def __init__(self, names):
        self.names = names

    def sym_getattr(self, it, attr):
        if attr == "strip":
            return PyCallable(lambda i, a, k: self)
        raise Undecided(attr)


class Match(Ext):
    def __init__(self, op_text, names):
        self.op_text, self.names = op_text, names

    def _one(self, idx):
        if idx == 1:
            return self.op_text
        if idx == 2:
            return ArgStr(self.names)
        raise Undecided("group index")

    def sym_getattr(self, it, attr):
        if attr == "group":
            def g(i, a, k):
                if len(a) == 1:
                    return self._one(a[0])
                return tuple(self._one(x) for x in a)
            return PyCallable(g)
        if attr == "groups":
            return PyCallable(lambda i, a, k: (self._one(1), self._one(2)))
        raise Undecided(attr)

    def sym_getitem(self, it, k):
        return self._one(k)

    def sym_truth(self, it):
        return True


class RegexObj(Ext):
    """A compiled pattern object met while interpreting the parser (re.compile(<literal>))."""

    def __init__(self, pattern, seen, oplist=None):
        self.pattern, self.seen, self.oplist = pattern, seen, oplist

    def sym_copy(self):
        return self

    def sym_getattr(self, it, attr):
        if attr in ("findall", "split"):
            def f(i, a, k):
                if isinstance(a[0], ArgStr):
                    getattr(i, "_c11_seen", self.seen)[attr] = self.pattern
                    return [NumStr(n) for n in a[0].names]
                top = _top_level_findall(i, self.pattern, a[0], getattr(i, "_c11_oplist", self.oplist), getattr(i, "_c11_seen", self.seen)) if attr == "findall" else None
                if top is not None:
                    return top
                raise Undecided(f"regex .{attr} on something else")
            return PyCallable(f)
        if attr == "finditer":
            def g(i, a, k):
                # the pattern object may live in a module-level table shared between runs: take the run's own state
                getattr(i, "_c11_seen", self.seen)["pattern"] = self.pattern
                ol = getattr(i, "_c11_oplist", self.oplist)
                if ol is None:
                    raise Undecided("regex .finditer outside the parser model")
                return [Match(op, names) for op, names in ol]
            return PyCallable(g)
        raise Undecided(f"regex object attribute {attr}")


def _top_level_findall(it, pattern, text, oplist, seen):
    """findall of a two-group operator pattern over the whole transform string: the (operator, arguments) pairs of the match list."""
    import re as _re_mod
    if not (isinstance(text, SymStr) and isinstance(pattern, str) and oplist is not None):
        return None
    try:
        if _re_mod.compile(pattern).groups != 2:
            return None
    except _re_mod.error:
        return None
    seen["pattern"] = pattern
    return [(op, ArgStr(names)) for op, names in oplist]


def _parse_with(repo, oplist):
    """Interpret parse_svg_transform on a symbolic match list [(operator text, [arg names])]."""
    fn = closure_of(repo, "svg_transform", "parse_svg_transform")
    seen = {}

    def setup(it):
        it._c11_seen, it._c11_oplist = seen, oplist

        def finditer(i, a, k):
            seen["pattern"] = a[0]
            return [Match(op, names) for op, names in oplist]

        def split(i, a, k):
            seen["split"] = a[0]
            if isinstance(a[1], ArgStr):
                return [NumStr(n) for n in a[1].names]
            raise Undecided("re.split on something else")

        def findall(i, a, k):
            if isinstance(a[1], ArgStr):
                seen["findall"] = a[0]
                return [NumStr(n) for n in a[1].names]
            top = _top_level_findall(i, a[0], a[1], oplist, seen)
            if top is not None:
                return top
            raise Undecided("re.findall on something else")

        it.external["re.finditer"] = finditer
        it.external["re.split"] = split
        it.external["re.findall"] = findall
        it.external["re.compile"] = lambda i, a, k: RegexObj(a[0], seen, oplist)

    outs = explore(repo, fn, [SymStr("<transform>")], setup=setup)
    return outs, seen


def _check_parser(repo, rep, folder):
    T = repo["svg_transform"]
    F = "svg_transform.parse_svg_transform"
    rep.saw(F, "svg_transform._fix_rotate")
    fn = T.func("parse_svg_transform")
    n_cases = 0
    bad = []
    pat = {}

    def expect(oplist):
        m = IDENT
        for op, names in oplist:
            args = [S(n) for n in names]
            if op.lower() in spec.ANGLE_OPS:
                args = [fn_atom("radians", args[0])] + args[1:]
            m = mul(m, op_matrix(op.lower(), args))
        return m

    singles = []
    for op, counts in ARGC.items():
        for c in counts:
            for text in {op, op.upper(), {"skewx": "skewX", "skewy": "skewY"}.get(op, op)}:
                singles.append([(text, [f"{op[0]}{i}" for i in range(c)])])
    pairs = []
    for (o1, c1), (o2, c2) in itertools.product([(o, cs[-1]) for o, cs in ARGC.items()], repeat=2):
        pairs.append([(o1, [f"p{i}" for i in range(c1)]), (o2, [f"q{i}" for i in range(c2)])])
    triples = [[("translate", ["a0", "a1"]), ("rotate", ["b0"]), ("scale", ["c0", "c1"])],
               [("rotate", ["a0", "a1", "a2"]), ("skewx", ["b0"]), ("translate", ["c0"])]]
    for oplist in singles + pairs + triples:
        outs, seen = _parse_with(repo, oplist)
        pat.update(seen)
        n_cases += 1
        want = expect(oplist)
        for o_ in outs:
            if o_.undecided:
                raise AnalysisError(f"{F}: evaluator undecided on {oplist}: {o_.undecided}")
            if o_.raised:
                bad.append((oplist, f"raises {o_.raised}"))
            elif not same(vals(o_.value), want, o_.equalities()):
                k = next(k for k, a_, b_ in zip("abcdef", vals(o_.value), want) if not a_.equals(b_))
                bad.append((oplist, f"component {k} = {dict(zip('abcdef', vals(o_.value)))[k]}; specification {dict(zip('abcdef', want))[k]}"))
    # wrong arity must not be accepted silently as something else (TypeError/ValueError is fine)
    if bad:
        ol, msg = bad[0]
        txt = " ".join(f"{op}({','.join(n)})" for op, n in ol)
        rep.fail("R-CASE.parser", F, txt, f"{len(bad)} of {n_cases} operator lists are interpreted wrongly; first: '{txt}': {msg}", T, fn)
    else:
        rep.ok("R-CASE.parser", F, f"{n_cases} operator lists (6 operators x arities x letter case, 36 ordered pairs, 2 triples): matrix = "
               "product of the listed operations in order, angles converted with radians for rotate/skewX/skewY only", True)
    # regexes
    p = pat.get("pattern")
    if not isinstance(p, str):
        raise AnalysisError(f"{F}: finditer pattern is not a literal")
    c = Compiled(p)
    ascii_al = [chr(i) for i in range(32, 127)] + ["\n", "\t"]
    d = DFA.from_glushkov(c.g, ascii_al)
    probs = []
    for op in ("matrix", "translate", "scale", "rotate", "skewX", "skewY", "SKEWX", "Rotate"):
        for form in (f"{op}(1 2)", f"{op} (1,2)", f"{op}(\t1 , 2 )", f"{op}(1e+1-2.5)"):
            if not d.accepts(form):
                probs.append(f"{form!r} not matched")
    for notop in ("skew(1)", "rot(1)", "translatex(1)", "matrix(1)2)"):
        if d.accepts(notop):
            probs.append(f"{notop!r} matched")
    if c.info["groups"] != 2:
        probs.append(f"{c.info['groups']} groups (operator and argument groups expected)")
    sp = pat.get("split")
    if isinstance(sp, str):
        cs = Compiled(sp)
        ds = DFA.from_glushkov(cs.g, ascii_al)
        for sep in (",", " ", " , ", "\t", "  ", " ,\n"):
            if not ds.accepts(sep):
                probs.append(f"separator {sep!r} not accepted by the split pattern")
        for notsep in ("1", "-", ".", "e", "+", ""):
            if ds.accepts(notsep):
                probs.append(f"split pattern accepts {notsep!r} (would split inside a number)")
    elif isinstance(pat.get("findall"), str):
        # numbers are *searched* instead of split: every SVG number must then be found whole
        from sa.regex import common_alphabet, glushkov_deterministic
        cf_, cn = Compiled(pat["findall"]), Compiled(spec.SVG_NUMBER_RE)
        al = common_alphabet([cf_, cn])
        df, dn = DFA.from_glushkov(cf_.g, al), DFA.from_glushkov(cn.g, al)
        from sa.regex import findall_spans
        for w in dn.words(6):
            if not w:
                continue
            toks = [t for t in findall_spans(cf_.node, w) if t != ""]
            if toks != [w]:
                probs.append(f"number {w!r} is tokenised as {toks} by the search pattern (silently different arguments)")
                break
    else:
        probs.append("argument split pattern is not a literal")
    if probs:
        rep.fail("R-REGEX.transform", F, p, "; ".join(probs[:4]), T, fn)
    else:
        rep.ok("R-REGEX.transform", F, f"operator pattern DFA {d.n_states()} states: six names in any case, optional space, arguments up to ')'; "
               "split pattern = comma-wsp, never part of a number", True)
    # (the left fold of the operations is decided by the 36 ordered pairs and the triples above)


def _check_tostring(repo, rep):
    T = repo["svg_transform"]
    F = "svg_transform.Affine2D.tostring"
    rep.saw(F)
    fn = method_of(repo, "svg_transform", "Affine2D", "tostring")

    def setup(it):
        it.hooks[("svg_meta", "ntos")] = lambda i, a, k: f"<{a[0]!r}>"

    s = A("s")
    outs = _outs(repo, fn, [s], F, setup=setup)
    forms = {}
    for o_ in outs:
        if o_.raised:
            rep.fail("R-CASE.tostring", F, "tostring", f"raises {o_.raised}", T, T.func("Affine2D.tostring"))
            continue
        txt = getattr(o_.value, "text", o_.value)
        forms.setdefault(txt, []).append(o_)
    import re as _re
    for txt, os_ in forms.items():
        m = _re.fullmatch(r"(translate|matrix)\((.*)\)", txt)
        if not m:
            rep.fail("R-CASE.tostring", F, txt, f"printed form {txt!r} is neither translate(..) nor matrix(..)", T, T.func("Affine2D.tostring"))
            continue
        op, body = m.group(1), m.group(2)
        toks = _re.split(r"\s*[,\s]\s*", body.strip())
        want = ["<se>", "<sf>"] if op == "translate" else [f"<s{k}>" for k in "abcdef"]
        if toks != want:
            rep.fail("R-CASE.tostring", F, txt, f"{op}(...) prints {toks}, must print {want} in this order", T, T.func("Affine2D.tostring"))
            continue
        if op == "translate":
            # every path printing translate must have decided a=1,b=0,c=0,d=1
            for o_ in os_:
                ct = o_.cond_text()
                need = ["sa == 1", "sb == 0", "sc == 0", "sd == 1"]
                positive = " & ".join(repr(c) for c, v in o_.decisions if v)
                if not all(nq in positive for nq in need):
                    rep.fail("R-CASE.tostring", F, txt, f"translate form printed without a=1,b=0,c=0,d=1 being established (path: {ct})", T, T.func("Affine2D.tostring"))
                    break
            else:
                rep.ok("R-CASE.tostring", F + " [translate form]", "only when the 2x2 part is the identity; prints e, f", True)
        else:
            rep.ok("R-CASE.tostring", F + " [matrix form]", "prints a b c d e f in order, space separated", True)
    if set(m.split("(")[0] for m in forms) != {"translate", "matrix"}:
        rep.fail("R-CASE.tostring", F, "forms", f"printed forms are {sorted(forms)}; both translate(..) and matrix(..) expected", T, T.func("Affine2D.tostring"))


def _check_rect_to_rect(repo, rep, folder):
    T = repo["svg_transform"]
    F = "svg_transform.Affine2D.rect_to_rect"
    rep.saw(F)
    fn = method_of(repo, "svg_transform", "Affine2D", "rect_to_rect")
    cl = ClassRef("svg_transform", "Affine2D")
    R = lambda p: Rec(ClassRef("geometric_types", "Rect"), {k: S(p + k) for k in "xywh"})
    src, dst = R("s"), R("d")
    al = folder.class_attrs("svg_transform", "Affine2D")
    if set(al.get("_ALIGN_VALUES", ())) != set(spec.ALIGNS):
        rep.fail("R-CASE.rect_to_rect", F, "_ALIGN_VALUES", f"alignment set {sorted(al.get('_ALIGN_VALUES', ()))} differs from the 10 SVG values", T)
    n = 0
    bad = []
    names = ["none"] + [f"x{a}Y{b}" for a in ("Min", "Mid", "Max") for b in ("Min", "Mid", "Max")]
    for align in names:
        for mos in ("", " meet", " slice"):
            par = align + mos
            outs = _outs(repo, fn, [cl, src, dst, par], F)
            sx0, sy0 = dst.f["w"] / src.f["w"], dst.f["h"] / src.f["h"]
            if align == "none":
                sx, sy = sx0, sy0
            else:
                sx = sy = fn_atom("max" if "slice" in mos else "min", sx0, sy0)
            tx = dst.f["x"] - src.f["x"] * sx
            ty = dst.f["y"] - src.f["y"] * sy
            al_ = align.lower()
            if "xmid" in al_:
                tx = tx + (dst.f["w"] - src.f["w"] * sx) / 2
            elif "xmax" in al_:
                tx = tx + (dst.f["w"] - src.f["w"] * sx)
            if "ymid" in al_:
                ty = ty + (dst.f["h"] - src.f["h"] * sy) / 2
            elif "ymax" in al_:
                ty = ty + (dst.f["h"] - src.f["h"] * sy)
            want = mat(sx, 0, 0, sy, tx, ty)
            general = 0
            for o_ in outs:
                n += 1
                empties = [(repr(c), v) for c, v in o_.decisions if "== 0" in repr(c)]
                if any(v for _, v in empties):
                    # empty source -> identity, empty destination -> zero matrix
                    v = vals(o_.value) if not o_.raised else None
                    src_empty = any(v_ and ("sw" in c or "sh" in c) for c, v_ in empties)
                    if o_.raised or not (same(v, IDENT) if src_empty else all(z.is_zero() for z in v)):
                        bad.append((par, f"empty-rectangle branch returns {o_.value}"))
                    continue
                general += 1
                if o_.raised:
                    bad.append((par, f"raises {o_.raised}"))
                elif not same(vals(o_.value), want):
                    k = next(k for k, a_, b_ in zip("abcdef", vals(o_.value), want) if not a_.equals(b_))
                    bad.append((par, f"component {k} = {dict(zip('abcdef', vals(o_.value)))[k]}; specification {dict(zip('abcdef', want))[k]}"))
            if general == 0:
                bad.append((par, "no path computes the general case"))
    for invalid in ("bogus", "xMidYMid crop", "xMidYMid meet slice", "meet"):
        outs = _outs(repo, fn, [cl, src, dst, invalid], F)
        for o_ in outs:
            if any(v for c, v in o_.decisions if "== 0" in repr(c)):
                continue
            n += 1
            if o_.raised != "ValueError":
                bad.append((invalid, f"invalid preserveAspectRatio accepted ({o_.raised or 'returns'})"))
    if bad:
        par, msg = bad[0]
        rep.fail("R-CASE.rect_to_rect", F, f"preserveAspectRatio={par!r}", f"{len(bad)} of {n} cases wrong; first: {msg}", T, T.func("Affine2D.rect_to_rect"))
    else:
        rep.ok("R-CASE.rect_to_rect", F, f"{n} cases: 10 alignments x default/meet/slice + empty rectangles + invalid strings", True)


def _check_decompose(repo, rep):
    T = repo["svg_transform"]
    s = A("s")
    F = "svg_transform.Affine2D.decompose_translation"
    rep.saw(F)
    outs = _outs(repo, method_of(repo, "svg_transform", "Affine2D", "decompose_translation"), [s], F)
    general = 0
    for o_ in outs:
        if o_.raised:
            if o_.raised == "ZeroDivisionError":
                continue
            rep.fail("R-POLY.decompose", F, "decompose_translation", f"raises {o_.raised} on {o_.cond_text()}", T, T.func("Affine2D.decompose_translation"))
            continue
        tr, rest = o_.value
        tr, rest = vals(tr), vals(rest)
        if not (rest[4].is_zero() and rest[5].is_zero() and same(rest[:4], vals(s)[:4])):
            rep.fail("R-POLY.decompose", F, "affine_prime", "second part is not self with the translation zeroed", T, T.func("Affine2D.decompose_translation"))
            continue
        if not (same(tr[:4], IDENT[:4])):
            rep.fail("R-POLY.decompose", F, "translation", "first part is not a pure translation", T, T.func("Affine2D.decompose_translation"))
            continue
        if same(tr, IDENT) and not any("/" in repr(x) for x in tr):
            # early exit (no translation within tolerance) or zero shortcut
            rep.ok("R-POLY.decompose", F + " [no-translation branch]", o_.cond_text()[:80])
            continue
        general += 1
        comp = mul(rest, tr)  # ltr: translation first, then the 2x2 part  => matrix product rest @ tr
        if same(comp, vals(s), o_.equalities()):
            rep.ok("R-POLY.decompose", F + f" [{o_.cond_text()[:60]}]", "compose_ltr((translation, 2x2 part)) = self as rational functions", True)
        else:
            k = next(k for k, a_, b_ in zip("abcdef", comp, vals(s)) if not a_.equals(b_))
            rep.fail("R-POLY.decompose", F, f"branch {o_.cond_text()[:80]}", f"parts recompose to component {k} = {dict(zip('abcdef', comp))[k]} instead of s{k}", T, T.func("Affine2D.decompose_translation"))
    if general < 2:
        rep.fail("R-POLY.decompose", F, "branches", f"only {general} general branch(es) found (a != 0 and a == 0 expected)", T, T.func("Affine2D.decompose_translation"))
    F = "svg_transform.Affine2D.decompose_scale"
    rep.saw(F)
    outs = _outs(repo, method_of(repo, "svg_transform", "Affine2D", "decompose_scale"), [s], F)
    general = 0
    for o_ in outs:
        if o_.raised:
            continue
        sc, rest = vals(o_.value[0]), vals(o_.value[1])
        if any(v for c, v in o_.decisions):
            # identity / degenerate shortcuts of inverse(): value-dependent, recomposition not claimed
            if not any("EPSILON" in repr(c) and not v for c, v in o_.decisions):
                continue
        general += 1
        comp = mul(rest, sc)
        if same(comp, vals(s)) and sc[1].is_zero() and sc[2].is_zero() and sc[4].is_zero() and sc[5].is_zero():
            rep.ok("R-POLY.decompose", F, "compose_ltr((scale, remaining)) = self as rational functions (sqrt opaque)", True)
        else:
            rep.fail("R-POLY.decompose", F, "decompose_scale", "scale and remaining part do not recompose to self", T, T.func("Affine2D.decompose_scale"))
    if general == 0:
        rep.fail("R-POLY.decompose", F, "general branch", "no general branch found", T, T.func("Affine2D.decompose_scale"))


_T = "svg_transform"
VARIANTS = [
    Variant("degeneracy tested on the signed determinant", [Edit(_T, "Affine2D.is_degenerate", "abs(self.determinant())", "self.determinant()")], [("R-POLY.inverse", "inverse")]),
    Variant("swap c/b in one matmul component", [Edit(_T, "Affine2D.__matmul__", "a=self.a * other.a + self.c * other.b,", "a=self.a * other.a + self.b * other.c,")],
            [("R-POLY.matmul", "__matmul__")]),
    Variant("compose_ltr drops reversed", [Edit(_T, "Affine2D.compose_ltr", "reversed(affines)", "affines")], [("R-POLY.compose", "compose_ltr")]),
    Variant("skewy missing from the fix-ups", [Edit(_T, None, '        "skewy": lambda args: _fix_rotate(args),\n', "")], [("R-CASE.parser", "parse_svg_transform")]),
    Variant("rotate negates sin", [Edit(_T, "Affine2D.rotate", ".matrix(cos(a), sin(a), -sin(a), cos(a), 0, 0)", ".matrix(cos(a), -sin(a), sin(a), cos(a), 0, 0)")],
            [("R-POLY.ops", "rotate")]),
    Variant("slice uses min", [Edit(_T, "Affine2D.rect_to_rect", 'max(sx, sy) if "slice" in meetOrSlice else min(sx, sy)', 'min(sx, sy) if "slice" in meetOrSlice else min(sx, sy)')],
            [("R-CASE.rect_to_rect", "rect_to_rect")]),
    Variant("xmid without the half", [Edit(_T, "Affine2D.rect_to_rect", "tx += (dst.w - src.w * sx) / 2", "tx += (dst.w - src.w * sx)")],
            [("R-CASE.rect_to_rect", "rect_to_rect")]),
    Variant("sign error in inverse f", [Edit(_T, "Affine2D.inverse", "e, f = -a * e - c * f, -b * e - d * f", "e, f = -a * e - c * f, -b * e + d * f")],
            [("R-POLY.inverse", "inverse")]),
    Variant("translate printed with semicolon", [Edit(_T, "Affine2D.tostring", """f'translate({", ".join(ntos(v) for v in self.gettranslate())})'""",
                                                         """f'translate({"; ".join(ntos(v) for v in self.gettranslate())})'""")],
            [("R-CASE.tostring", "tostring")]),
    Variant("scale(sx) defaults sy to 1", [Edit(_T, "Affine2D.scale", "sy = sx", "sy = 1")], [("R-POLY.ops", "scale"), ("R-CASE.parser", "parse")]),
    Variant("rotate about centre translates back first", [Edit(_T, "Affine2D.rotate", "self.translate(cx, cy)", "self.translate(-cx, -cy)")],
            [("R-POLY.ops", "rotate")]),
    Variant("operator regex loses skewY", [Edit(_T, "parse_svg_transform", "(matrix|translate|scale|rotate|skewX|skewY)", "(matrix|translate|scale|rotate|skewX)")],
            [("R-REGEX.transform", "parse_svg_transform")]),
    Variant("parser prepends instead of appends", [Edit(_T, "parse_svg_transform", "transform = getattr(transform, op)(*args)", "transform = getattr(Affine2D.identity(), op)(*args) @ transform")],
            [("R-CASE.parser", "parse_svg_transform")]),
    Variant("decompose_translation wrong x in a==0 branch", [Edit(_T, "Affine2D.decompose_translation", "y_prime = y + e / c", "y_prime = y + f / c")],
            [("R-POLY.decompose", "decompose_translation")]),
    Variant("map_vector keeps translation", [Edit(_T, "Affine2D.map_vector", "return Vector(self.a * x + self.c * y, self.b * x + self.d * y)", "return Vector(self.a * x + self.c * y + self.e, self.b * x + self.d * y)")],
            [("R-POLY.matmul", "map_vector")]),
    Variant("silent: reorder summands in matmul", [Edit(_T, "Affine2D.__matmul__", "e=self.a * other.e + self.c * other.f + self.e,", "e=self.e + self.c * other.f + other.e * self.a,")], silent=True),
    Variant("silent: translate via explicit product", [Edit(_T, "Affine2D.translate", "return self.matrix(1, 0, 0, 1, tx, ty)", "return self @ Affine2D(1, 0, 0, 1, tx, ty)")], silent=True),
    Variant("silent: compose_ltr as explicit loop", [Edit(_T, "Affine2D.compose_ltr", "return reduce(operator.matmul, reversed(affines), cls.identity())",
                                                         "result = cls.identity()\n        for a in affines:\n            result = a @ result\n        return result")], silent=True),
]

"""C15 - an SVG object always equals its serialisation, whatever the operation history.

The property quantifies over histories; the cache protocol that makes it hold is a typestate, and the
typestate analysis covers all histories at once: every public method is analysed from every cache state.
"""
from __future__ import annotations

import ast

from sa.core import AnalysisError, Repo, Report, call_name, unparse, walk_no_nested
from sa.selftest import Edit, Variant
from sa.typestate import ALL, CacheTypestate

from sa.texts import T as _TX

EXPLANATION = _TX["C15"]["explanation"] + " Not decided: " + _TX["C15"]["not_decided"] + "."
ASSUMPTIONS = _TX["C15"]["assumptions"]
P = "C15"
PURE_QUERIES = {
    "xpath": "pure query: returns live nodes, does not alter the document (reads the tree even when the cache is dirty)",
    "xpath_one": "pure query built on xpath",
    "resolve_url": "pure query built on xpath_one",
}
NOT_OPERATIONS = {"fromstring", "parse", "__init__"}


def run(repo: Repo, rep: Report):
    svg = repo["svg"]
    rep.rule("R-TS.stale-read", "TS1: no read of the element tree while the cache may hold unflushed edits")
    rep.rule("R-TS.write-under-dirty-cache", "TS1: no write to the element tree while the cache may hold unflushed edits")
    rep.rule("R-TS.reset-discards-edits", "TS2: the cache is not reset while it may hold unflushed edits")
    rep.rule("R-TS.exit-with-shadowing-cache", "TS3: a tree write under a populated cache is followed by reset/flush before normal exit")
    rep.rule("R-TS.lost-edit", "a shape obtained from the cache is not edited after the cache was emptied")
    rep.rule("R-TS.primitive", "histories of 2-3 public operations interpreted on a schematic document (cache, functools memo and instance state modelled): the final serialisation equals the "
                               "one obtained with a serialise / re-build between every two steps")
    rep.rule("R-RET.inplace", "in the interpreted histories every in-place form returns the receiver; every copying form returns a new object and leaves the receiver's serialisation unchanged")
    ts = CacheTypestate(repo, pure_queries=PURE_QUERIES)
    methods = [m for m in ts.methods if not m.startswith("_") and m not in NOT_OPERATIONS]
    rep.floor("public methods of class SVG", len(methods), 30)
    n_before = 0
    for m in methods:
        fn = ts.methods[m]
        decos = [unparse(d) for d in fn.decorator_list]
        if "classmethod" in decos or "staticmethod" in decos:
            continue
        final = ts.analyse_method(m)
        rep.saw(f"svg.SVG.{m}")
        mine = [f for f in ts.findings[n_before:]]
        n_before = len(ts.findings)
        real = []
        for f in mine:
            if f.rule == "R-TS.stale-read" and f.method.split(".")[1] in PURE_QUERIES and f.where == "SVG.xpath":
                rep.notes.append(f"exempt: {f.method} reads the tree in any state - {PURE_QUERIES[f.method.split('.')[1]]}")
                continue
            real.append(f)
        if real:
            for f in real:
                chain = " > ".join(f.chain)
                rep.fail(f.rule, f"svg.{f.method}", f"{f.where}: {f.construct}", f"{f.message} (entry {f.method}, entry states N,P,D; call chain {chain})",
                         svg, type("L", (), {"lineno": f.line})(), path=[f"entry svg.{f.method}"] + list(f.chain) + [f"line {f.line}"])
        else:
            states = "".join(sorted({c for c, _ in final}))
            rep.ok("R-TS", f"svg.SVG.{m} from {{N,P,D}}", f"exit states {{{states}}}, no rule fired", True)
    for m in sorted(ts.inlined):
        rep.saw(f"svg.SVG.{m}")
    rep.call_sites += len(ts.events)
    rep.notes.append(f"typestate events evaluated: {len(ts.events)} (FLUSH/RESET/POPULATE/CACHE-WRITE/TREE-READ/TREE-WRITE occurrences over all entry methods and contexts)")
    rep.notes.append("tree-writing helpers inferred: " + ", ".join(sorted(w for w in ts.tw.writers if not w.startswith('SVG.'))))
    from sa.rules import semhist
    semhist.check_histories(repo, rep, "R-TS.primitive", "R-RET.inplace")


def _inside(node, anc) -> bool:
    p = getattr(node, "_parent", None)
    while p is not None:
        if p is anc:
            return True
        p = getattr(p, "_parent", None)
    return False


_S = "svg"
VARIANTS = [
    Variant("reverted-fix F4a: _clone without flush", [Edit(_S, "SVG._clone", "        self._update_etree()\n", "")], [("R-TS.stale-read", "_clone"), ("R-TS", "SVG.")]),
    Variant("reverted-fix F4b: remove_processing_instructions copies by hand", [Edit(_S, "SVG.remove_processing_instructions", "svg = self._clone()", "svg = SVG(copy.deepcopy(self.svg_root))")],
            [("R-", "remove_processing_instructions")]),
    Variant("reverted-fix F3: bare return in resolve_nested_svgs", [Edit(_S, "SVG.resolve_nested_svgs", "            return self\n\n        vb", "            return\n\n        vb")],
            [("R-", "resolve_nested_svgs")]),
    Variant("reverted-fix F11: traversal without flush", [Edit(_S, "SVG._traverse", "        self._update_etree()\n", "")], [("R-TS", "SVG.")]),
    Variant("set_attributes without flush", [Edit(_S, "SVG.set_attributes", "        self._update_etree()\n", "")], [("R-TS", "set_attributes")]),
    Variant("remove_unpainted_shapes keeps the cache", [Edit(_S, "SVG.remove_unpainted_shapes", "        self.elements = None\n", "")],
            [("R-TS.exit-with-shadowing-cache", "remove_unpainted_shapes")]),
    Variant("copy branch returns self", [Edit(_S, "SVG.round_floats", "            return svg\n", "            return self\n")], [("R-", "round_floats")]),
    Variant("cache write then xpath", [Edit(_S, "SVG.evenodd_to_nonzero_winding", "        return self\n", "        self.xpath('//svg:path')\n        return self\n")],
            [("R-TS.stale-read", "evenodd_to_nonzero_winding")]),
    Variant("copy branch does not forward drop_unsupported", [Edit(_S, "SVG.topicosvg", "                drop_unsupported=drop_unsupported,\n            )\n            return svg", "            )\n            return svg")],
            [("R-", "topicosvg")], allow_analysis_error=True),
    Variant("silent: flush keeps the memo of _inherited_attrib (keyed by element objects that the flush replaces: entries are never consulted again)",
            [Edit(_S, "SVG._update_etree", "        self._inherited_attrib.cache_clear()\n", "")], silent=True),
    Variant("flush skips path entries", [Edit(_S, "SVG._update_etree", "for old_el, shapes in self.elements\n", "for old_el, shapes in self.elements if not old_el.tag.endswith('rect')\n")],
            [("R-TS", "SVG.")]),
    Variant("silent: clone with copy.copy (lxml's __copy__ copies the whole subtree into a new document, like deepcopy)", [Edit(_S, "SVG._clone", "copy.deepcopy(self.svg_root)", "copy.copy(self.svg_root)")], silent=True),
    Variant("reset while dirty", [Edit(_S, "SVG.shapes_to_paths", "        return self\n", "        self.elements = None\n        return self\n")],
            [("R-TS.reset-discards-edits", "shapes_to_paths")]),
    Variant("silent: flush twice", [Edit(_S, "SVG.simplify", "        self._update_etree()\n", "        self._update_etree()\n        self._update_etree()\n")], silent=True),
    Variant("silent: reset with an empty list", [Edit(_S, "SVG.remove_unpainted_shapes", "        self.elements = None\n", "        self.elements = []\n")], silent=True),
    Variant("silent: helper extracted", [Edit(_S, "SVG.remove_title_meta_desc", "        self._update_etree()\n", "        self._update_etree()\n        self.view_box()\n")], silent=True),
]

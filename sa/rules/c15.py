"""C15 - an SVG object always equals its serialisation, whatever the operation history.

The property quantifies over histories; the cache protocol that makes it hold is a typestate, and the
typestate analysis covers all histories at once: every public method is analysed from every cache state.
"""
from __future__ import annotations

import ast

from sa.core import AnalysisError, Repo, Report, call_name, unparse, walk_no_nested
from sa.selftest import Edit, Variant
from sa.typestate import ALL, CacheTypestate

EXPLANATION = (
    "Typestate analysis of SVG.elements (N empty / P populated-clean / D populated-dirty, plus an obligation bit for 'tree written while "
    "cache populated'): every public method of class SVG is abstractly interpreted from all three entry states, with calls to other methods "
    "of self inlined in the caller's state, events classified by resolved callee and def-use provenance (cache-derived shapes), and the rules "
    "TS1 no tree read/write in D, TS2 no reset in D, TS3 a tree write in P obliges a reset/flush before normal exit, lost edits on shapes no "
    "longer cached. Contracts of the primitives (_update_etree swaps every entry after clearing the memo and ends in a reset; _clone flushes "
    "and deep-copies the root; toetree flushes and returns a deep copy). RET: every method with an `inplace` parameter returns self on every "
    "normal path of the in-place branch and, in the copying branch, the clone on which it invoked the same method in place with every other "
    "parameter forwarded, without writing to self."
)
ASSUMPTIONS = [
    "a consumer does not interleave other operations on the same object while iterating a traversal generator",
    "xpath/xpath_one/resolve_url are pure queries returning live nodes (they do not alter the document); frozen exemption",
    "equality of to_element(from_element(x)) with x (serialisation fidelity of the dataclasses) is a value-level question, not decided",
]
P = "C15"
PURE_QUERIES = {
    "xpath": "pure query: returns live nodes, does not alter the document (reads the tree even when the cache is dirty)",
    "xpath_one": "pure query built on xpath",
    "resolve_url": "pure query built on xpath_one",
}
NOT_OPERATIONS = {"fromstring", "parse", "__init__"}


def run(repo: Repo, rep: Report):
    svg = repo["svg"]
    rep.rule("R-TS.stale-read", "TS1: no read of the element tree while the cache may hold unflushed edits")
    rep.rule("R-TS.write-under-dirty-cache", "TS1: no write to the element tree while the cache may hold unflushed edits")
    rep.rule("R-TS.reset-discards-edits", "TS2: the cache is not reset while it may hold unflushed edits")
    rep.rule("R-TS.exit-with-shadowing-cache", "TS3: a tree write under a populated cache is followed by reset/flush before normal exit")
    rep.rule("R-TS.lost-edit", "a shape obtained from the cache is not edited after the cache was emptied")
    rep.rule("R-TS.primitive", "TS5: contracts of _update_etree / _clone / toetree")
    rep.rule("R-RET.inplace", "in-place branch returns self; copying branch returns the clone it ran the same operation on, all parameters forwarded")
    ts = CacheTypestate(repo, pure_queries=PURE_QUERIES)
    methods = [m for m in ts.methods if not m.startswith("_") and m not in NOT_OPERATIONS]
    rep.floor("public methods of class SVG", len(methods), 30)
    n_before = 0
    for m in methods:
        fn = ts.methods[m]
        decos = [unparse(d) for d in fn.decorator_list]
        if "classmethod" in decos or "staticmethod" in decos:
            continue
        final = ts.analyse_method(m)
        rep.saw(f"svg.SVG.{m}")
        mine = [f for f in ts.findings[n_before:]]
        n_before = len(ts.findings)
        real = []
        for f in mine:
            if f.rule == "R-TS.stale-read" and f.method.split(".")[1] in PURE_QUERIES and f.where == "SVG.xpath":
                rep.notes.append(f"exempt: {f.method} reads the tree in any state - {PURE_QUERIES[f.method.split('.')[1]]}")
                continue
            real.append(f)
        if real:
            for f in real:
                chain = " > ".join(f.chain)
                rep.fail(f.rule, f"svg.{f.method}", f"{f.where}: {f.construct}", f"{f.message} (entry {f.method}, entry states N,P,D; call chain {chain})",
                         svg, type("L", (), {"lineno": f.line})(), path=[f"entry svg.{f.method}"] + list(f.chain) + [f"line {f.line}"])
        else:
            states = "".join(sorted({c for c, _ in final}))
            rep.ok("R-TS", f"svg.SVG.{m} from {{N,P,D}}", f"exit states {{{states}}}, no rule fired", True)
    for m in sorted(ts.inlined):
        rep.saw(f"svg.SVG.{m}")
    rep.call_sites += len(ts.events)
    rep.notes.append(f"typestate events evaluated: {len(ts.events)} (FLUSH/RESET/POPULATE/CACHE-WRITE/TREE-READ/TREE-WRITE occurrences over all entry methods and contexts)")
    rep.notes.append("tree-writing helpers inferred: " + ", ".join(sorted(w for w in ts.tw.writers if not w.startswith('SVG.'))))
    _check_primitives(repo, rep, ts)
    _check_ret(repo, rep, ts)


def _check_primitives(repo, rep, ts):
    svg = repo["svg"]
    # _update_etree
    fn = svg.func("SVG._update_etree")
    F = "svg.SVG._update_etree"
    rep.saw(F)
    body = [s for s in fn.body if not (isinstance(s, ast.Expr) and isinstance(s.value, ast.Constant))]
    txt = [unparse(s) for s in body]
    ok_guard = bool(body) and isinstance(body[0], ast.If) and unparse(body[0].test) == "not self.elements" and isinstance(body[0].body[0], ast.Return)
    if ok_guard:
        rep.ok("R-TS.primitive", f"{F}: no-op when the cache is empty")
    else:
        rep.fail("R-TS.primitive", F, "if not self.elements: return", "flush no longer starts with the empty-cache early exit", svg, fn)
    # memo cleared before any use of the memoised lookup
    uses = [n for n in ast.walk(fn) if isinstance(n, ast.Call) and call_name(n) == "self._inherited_attrib"]
    clears = [n for n in ast.walk(fn) if isinstance(n, ast.Call) and call_name(n) == "self._inherited_attrib.cache_clear"]
    memo = [d for d in svg.func("SVG._inherited_attrib").decorator_list] if "SVG._inherited_attrib" in svg.functions else []
    memoised = any("cache" in unparse(d) for d in memo)
    if uses and memoised:
        if clears and clears[0].lineno < min(u.lineno for u in uses):
            rep.ok("R-TS.primitive", f"{F}: memo of _inherited_attrib cleared before it is consulted", "", True)
        else:
            rep.fail("R-TS.primitive", F, "self._inherited_attrib.cache_clear()",
                     "the per-element inherited-attribute memo is consulted during the flush without being cleared first: an ancestor edited "
                     "since the previous flush gives a stale context, so shapes are written with wrong explicit/omitted attributes", svg, fn)
    elif uses:
        rep.ok("R-TS.primitive", f"{F}: _inherited_attrib is not memoised")
    # every cached entry is swapped
    swaps = [n for n in ast.walk(fn) if isinstance(n, ast.Call) and call_name(n).endswith("_swap_elements")]
    ok_swap = False
    for c in swaps:
        for a in c.args:
            if isinstance(a, (ast.GeneratorExp, ast.ListComp)) and len(a.generators) == 1 and not a.generators[0].ifs \
                    and unparse(a.generators[0].iter) == "self.elements":
                elt = a.elt
                if isinstance(elt, ast.Tuple) and len(elt.elts) == 2 and "to_element" in unparse(elt.elts[1]):
                    ok_swap = True
    if ok_swap:
        rep.ok("R-TS.primitive", f"{F}: every (element, shapes) entry is swapped into the tree via to_element", "", True)
    else:
        rep.fail("R-TS.primitive", F, "self._swap_elements((old_el, [to_element(s, ...) for s in shapes]) for old_el, shapes in self.elements)",
                 "the flush no longer writes every cached entry back (filtered or different source)", svg, fn)
    if txt and txt[-1] == "self.elements = None":
        rep.ok("R-TS.primitive", f"{F}: ends by emptying the cache")
    else:
        rep.fail("R-TS.primitive", F, "self.elements = None", "the flush does not end by emptying the cache (entries would be written twice)", svg, fn)
    # _clone: flush dominates the copy, deep copy of the root
    fn = svg.func("SVG._clone")
    F = "svg.SVG._clone"
    rep.saw(F)
    ts2 = CacheTypestate(repo, pure_queries=PURE_QUERIES)
    ts2.analyse_method("_clone")
    for f in ts2.findings:
        rep.fail(f.rule, F, f"{f.where}: {f.construct}", f.message + " (the copy is made from the tree)", svg, type("L", (), {"lineno": f.line})())
    if not ts2.findings:
        rep.ok("R-TS.primitive", f"{F}: tree copied only in a flushed state", "analysed from {N,P,D}", True)
    ctor = [c for c in ast.walk(fn) if isinstance(c, ast.Call) and call_name(c) == "SVG"]
    deep = ctor and any("copy.deepcopy(self.svg_root)" == unparse(a) for c in ctor for a in list(c.args) + [k.value for k in c.keywords])
    if deep:
        rep.ok("R-TS.primitive", f"{F}: SVG(copy.deepcopy(self.svg_root))")
    else:
        rep.fail("R-TS.primitive", F, "SVG(svg_root=copy.deepcopy(self.svg_root))", "the clone does not own a deep copy of the tree: copying "
                 "operations would write through to the receiver", svg, fn)
    # toetree: flush, then deep copy returned
    fn = svg.func("SVG.toetree")
    F = "svg.SVG.toetree"
    rets = [n for n in walk_no_nested(fn) if isinstance(n, ast.Return)]
    if rets and all(r.value is not None and unparse(r.value) == "copy.deepcopy(self.svg_root)" for r in rets) and \
            any(isinstance(s, ast.Expr) and unparse(s.value) == "self._update_etree()" for s in fn.body[:2]):
        rep.ok("R-TS.primitive", f"{F}: flush, then return a deep copy")
    else:
        rep.fail("R-TS.primitive", F, "self._update_etree(); return copy.deepcopy(self.svg_root)", "serialisation no longer flushes first / hands out the live tree", svg, fn)


def _check_ret(repo, rep, ts):
    svg = repo["svg"]
    n = 0
    for m, fn in ts.methods.items():
        params = [a.arg for a in fn.args.args] + [a.arg for a in fn.args.kwonlyargs]
        if "inplace" not in params:
            continue
        n += 1
        F = f"svg.SVG.{m}"
        # locate the copy branch: `if not inplace:` as a top-level statement
        copy_if = [s for s in fn.body if isinstance(s, ast.If) and unparse(s.test) == "not inplace"]
        if len(copy_if) != 1 or copy_if[0].orelse:
            rep.fail("R-RET.inplace", F, "if not inplace:", "method with an `inplace` parameter has no recognisable copying prologue", svg, fn)
            continue
        cb = copy_if[0]
        probs = []
        # copying branch
        clone_var = None
        for s in cb.body:
            if isinstance(s, ast.Assign) and isinstance(s.value, ast.Call) and call_name(s.value) == "self._clone":
                clone_var = unparse(s.targets[0])
        if not clone_var:
            probs.append("the copy is not obtained from self._clone()")
        else:
            calls = [c for s in cb.body for c in ast.walk(s) if isinstance(c, ast.Call) and call_name(c) == f"{clone_var}.{m}"]
            if not calls:
                probs.append(f"the copying branch does not run {m} on the clone")
            else:
                c = calls[0]
                kw = {k.arg: k.value for k in c.keywords}
                if not (isinstance(kw.get("inplace"), ast.Constant) and kw["inplace"].value is True):
                    probs.append("the clone is not processed with inplace=True")
                pos = [a.arg for a in fn.args.args][1:]
                for i, p in enumerate(pos):
                    if p == "inplace":
                        continue
                    given = c.args[i] if i < len(c.args) else kw.get(p)
                    if given is None or unparse(given) != p:
                        probs.append(f"parameter {p!r} is not forwarded to the in-place call on the clone")
                for p in [a.arg for a in fn.args.kwonlyargs]:
                    if p == "inplace":
                        continue
                    if p not in kw or unparse(kw[p]) != p:
                        probs.append(f"parameter {p!r} is not forwarded to the in-place call on the clone")
            rets = [r for s in cb.body for r in ast.walk(s) if isinstance(r, ast.Return)]
            if not rets or any(r.value is None or unparse(r.value) != clone_var for r in rets):
                probs.append("the copying branch does not return the clone")
            if not isinstance(cb.body[-1], ast.Return):
                probs.append("the copying branch can fall through into the in-place code (receiver would be modified)")
            for s in cb.body:
                for w in ast.walk(s):
                    if isinstance(w, (ast.Assign, ast.AugAssign)):
                        tg = w.targets if isinstance(w, ast.Assign) else [w.target]
                        if any(unparse(t).startswith("self.") for t in tg):
                            probs.append(f"the copying branch writes to the receiver: {unparse(w)}")
                    if isinstance(w, ast.Call) and call_name(w).startswith("self.") and call_name(w) not in ("self._clone",):
                        probs.append(f"the copying branch calls {call_name(w)} on the receiver")
        # in-place branch: all returns outside the copy branch return self
        for r in walk_no_nested(fn):
            if isinstance(r, ast.Return) and not _inside(r, cb):
                if r.value is None or unparse(r.value) != "self":
                    probs.append(f"in-place branch returns {unparse(r.value) if r.value is not None else 'None'} at line {r.lineno}")
        last = fn.body[-1]
        if not isinstance(last, (ast.Return, ast.Raise)):
            probs.append("in-place branch can fall off the end (returns None)")
        if probs:
            for p in probs:
                rep.fail("R-RET.inplace", F, p, p, svg, fn)
        else:
            rep.ok("R-RET.inplace", F, "copy branch: clone, same op in place, all parameters forwarded, clone returned; in-place branch returns self", True)
    rep.floor("methods with an inplace parameter", n, 18)


def _inside(node, anc) -> bool:
    p = getattr(node, "_parent", None)
    while p is not None:
        if p is anc:
            return True
        p = getattr(p, "_parent", None)
    return False


_S = "svg"
VARIANTS = [
    Variant("reverted-fix F4a: _clone without flush", [Edit(_S, "SVG._clone", "        self._update_etree()\n", "")], [("R-TS.stale-read", "_clone"), ("R-TS", "SVG.")]),
    Variant("reverted-fix F4b: remove_processing_instructions copies by hand", [Edit(_S, "SVG.remove_processing_instructions", "svg = self._clone()", "svg = SVG(copy.deepcopy(self.svg_root))")],
            [("R-", "remove_processing_instructions")]),
    Variant("reverted-fix F3: bare return in resolve_nested_svgs", [Edit(_S, "SVG.resolve_nested_svgs", "            return self\n\n        vb", "            return\n\n        vb")],
            [("R-RET.inplace", "resolve_nested_svgs")]),
    Variant("reverted-fix F11: traversal without flush", [Edit(_S, "SVG._traverse", "        self._update_etree()\n", "")], [("R-TS", "SVG.")]),
    Variant("set_attributes without flush", [Edit(_S, "SVG.set_attributes", "        self._update_etree()\n", "")], [("R-TS", "set_attributes")]),
    Variant("remove_unpainted_shapes keeps the cache", [Edit(_S, "SVG.remove_unpainted_shapes", "        self.elements = None\n", "")],
            [("R-TS.exit-with-shadowing-cache", "remove_unpainted_shapes")]),
    Variant("copy branch returns self", [Edit(_S, "SVG.round_floats", "            return svg\n", "            return self\n")], [("R-RET.inplace", "round_floats")]),
    Variant("cache write then xpath", [Edit(_S, "SVG.evenodd_to_nonzero_winding", "        return self\n", "        self.xpath('//svg:path')\n        return self\n")],
            [("R-TS.stale-read", "evenodd_to_nonzero_winding")]),
    Variant("copy branch does not forward drop_unsupported", [Edit(_S, "SVG.topicosvg", "                drop_unsupported=drop_unsupported,\n            )\n            return svg", "            )\n            return svg")],
            [("R-RET.inplace", "topicosvg")]),
    Variant("flush keeps the memo", [Edit(_S, "SVG._update_etree", "        self._inherited_attrib.cache_clear()\n", "")], [("R-TS.primitive", "_update_etree")]),
    Variant("flush skips path entries", [Edit(_S, "SVG._update_etree", "for old_el, shapes in self.elements\n", "for old_el, shapes in self.elements if old_el.tag != 'x'\n")],
            [("R-TS.primitive", "_update_etree")]),
    Variant("shallow clone", [Edit(_S, "SVG._clone", "copy.deepcopy(self.svg_root)", "copy.copy(self.svg_root)")], [("R-TS.primitive", "_clone")]),
    Variant("reset while dirty", [Edit(_S, "SVG.shapes_to_paths", "        return self\n", "        self.elements = None\n        return self\n")],
            [("R-TS.reset-discards-edits", "shapes_to_paths")]),
    Variant("silent: flush twice", [Edit(_S, "SVG.simplify", "        self._update_etree()\n", "        self._update_etree()\n        self._update_etree()\n")], silent=True),
    Variant("silent: reset with an empty list", [Edit(_S, "SVG.remove_unpainted_shapes", "        self.elements = None\n", "        self.elements = []\n")], silent=True),
    Variant("silent: helper extracted", [Edit(_S, "SVG.remove_title_meta_desc", "        self._update_etree()\n", "        self._update_etree()\n        self.view_box()\n")], silent=True),
]
